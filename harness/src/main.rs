//! guard-harness: line-protocol executor around the real `cfn-guard` crate (built from /repo's
//! working tree, feature `verif_hooks` on).  One JSON request per stdin line, one JSON response
//! per stdout line.  Every request runs under `catch_unwind`; a panic is reported, not fatal.
//!
//! ops:
//!   case  {rules, data, loader?}            -> typed AST, typed document, run_checks verbose tree / report
//!   cli   {argv, stdin?, files?}            -> in-process `cfn-guard <argv>` in a scratch directory
//!   env   {regex, conv, f64parse, ...}      -> oracle tables computed with the crates the tool links
//!   literal {text}                          -> typed value of a Guard literal
//!   data  {data, loader}                    -> typed document only
use std::io::{BufRead, Write};
use std::panic::{catch_unwind, AssertUnwindSafe};

use cfn_guard::commands::CfnGuard;
use cfn_guard::utils::reader::{ReadBuffer, Reader};
use cfn_guard::utils::writer::{WriteBuffer, Writer};
use cfn_guard::{run_checks, verif_hooks, Error, ValidateInput};
use clap::Parser;
use serde_json::{json, Value as J};

fn err_variant(e: &Error) -> &'static str {
    match e {
        Error::JsonError(_) => "JsonError",
        Error::YamlError(_) => "YamlError",
        Error::FormatError(_) => "FormatError",
        Error::IoError(_) => "IoError",
        Error::ParseError(_) => "ParseError",
        Error::RegexError(_) => "RegexError",
        Error::MissingProperty(_) => "MissingProperty",
        Error::MissingValue(_) => "MissingValue",
        Error::RetrievalError(_) => "RetrievalError",
        Error::MissingVariable(_) => "MissingVariable",
        Error::MultipleValues(_) => "MultipleValues",
        Error::IncompatibleRetrievalError(_) => "IncompatibleRetrievalError",
        Error::IncompatibleError(_) => "IncompatibleError",
        Error::NotComparable(_) => "NotComparable",
        Error::ConversionError(_) => "ConversionError",
        Error::FileNotFoundError(_) => "FileNotFoundError",
        Error::Errors(_) => "Errors",
        Error::IllegalArguments(_) => "IllegalArguments",
        Error::XMLError(_) => "XMLError",
        Error::InternalError(_) => "InternalError",
    }
}

fn res_json(r: Result<String, Error>) -> J {
    match r {
        Ok(s) => match serde_json::from_str::<J>(&s) {
            Ok(v) => json!({"ok": v}),
            Err(_) => json!({"ok_text": s}),
        },
        Err(e) => json!({"err": err_variant(&e), "msg": e.to_string()}),
    }
}

fn guarded<F: FnOnce() -> J>(f: F) -> J {
    match catch_unwind(AssertUnwindSafe(f)) {
        Ok(v) => v,
        Err(p) => {
            let msg = if let Some(s) = p.downcast_ref::<&str>() {
                s.to_string()
            } else if let Some(s) = p.downcast_ref::<String>() {
                s.clone()
            } else {
                "panic".to_string()
            };
            // the location recorded by the panic hook (file:line), so that panics can be told apart by SITE
            let at = LAST_PANIC_AT.lock().map(|g| g.clone()).unwrap_or_default();
            if at.is_empty() {
                json!({"panic": msg})
            } else {
                json!({"panic": format!("panicked at {}: {}", at, msg)})
            }
        }
    }
}

static LAST_PANIC_AT: std::sync::Mutex<String> = std::sync::Mutex::new(String::new());

fn op_case(req: &J) -> J {
    let rules = req["rules"].as_str().unwrap_or("");
    let data = req["data"].as_str().unwrap_or("");
    let loader = req["loader"].as_str().unwrap_or("run_checks");
    let ast = guarded(|| match verif_hooks::verif_dump_rules(rules, "r.guard") {
        Ok(Some(s)) => json!({"ok": serde_json::from_str::<J>(&s).unwrap()}),
        Ok(None) => json!({"ok": null}),
        Err(e) => json!({"err": err_variant(&e), "msg": e.to_string()}),
    });
    let doc = guarded(|| res_json(verif_hooks::verif_dump_data(data, loader)));
    let mut out = json!({"ast": ast, "doc": doc});
    if req["verbose"].as_bool().unwrap_or(true) {
        out["verbose"] = guarded(|| {
            res_json(run_checks(
                ValidateInput { content: data, file_name: "d.json" },
                ValidateInput { content: rules, file_name: "r.guard" },
                true,
            ))
        });
    }
    if req["report"].as_bool().unwrap_or(false) {
        out["report"] = guarded(|| {
            res_json(run_checks(
                ValidateInput { content: data, file_name: "d.json" },
                ValidateInput { content: rules, file_name: "r.guard" },
                false,
            ))
        });
    }
    out
}

fn bytes_of(v: &J) -> Vec<u8> {
    match v {
        J::String(s) => s.as_bytes().to_vec(),
        J::Array(a) => a.iter().map(|b| b.as_u64().unwrap_or(0) as u8).collect(),
        J::Object(o) => match o.get("hex").and_then(|h| h.as_str()) {
            Some(h) => (0..h.len() / 2)
                .map(|i| u8::from_str_radix(&h[2 * i..2 * i + 2], 16).unwrap_or(0))
                .collect(),
            None => vec![],
        },
        _ => vec![],
    }
}

static mut COUNTER: u64 = 0;

fn op_cli(req: &J) -> J {
    let n = unsafe {
        COUNTER += 1;
        COUNTER
    };
    let base = std::env::var("HARNESS_TMP").unwrap_or_else(|_| "/tmp".to_string());
    let dir = format!("{}/gh-{}-{}", base, std::process::id(), n);
    let _ = std::fs::remove_dir_all(&dir);
    std::fs::create_dir_all(&dir).unwrap();
    if let Some(files) = req["files"].as_object() {
        for (name, content) in files {
            let p = format!("{}/{}", dir, name);
            if let Some(parent) = std::path::Path::new(&p).parent() {
                let _ = std::fs::create_dir_all(parent);
            }
            std::fs::write(&p, bytes_of(content)).unwrap();
        }
    }
    if let Some(mt) = req["mtimes"].as_object() {
        // name -> seconds offset; applied with `touch -d @t`
        for (name, t) in mt {
            let p = format!("{}/{}", dir, name);
            let _ = std::process::Command::new("touch")
                .arg("-d")
                .arg(format!("@{}", t.as_i64().unwrap_or(0)))
                .arg(&p)
                .status();
        }
    }
    let argv: Vec<String> = std::iter::once("cfn-guard".to_string())
        .chain(
            req["argv"]
                .as_array()
                .map(|a| a.iter().map(|s| s.as_str().unwrap_or("").replace("{DIR}", &dir)).collect::<Vec<_>>())
                .unwrap_or_default(),
        )
        .collect();
    let stdin = bytes_of(&req["stdin"]);
    let out_path = format!("{}/.stdout", dir);
    let err_path = format!("{}/.stderr", dir);
    let result = guarded(|| {
        let args = match CfnGuard::try_parse_from(&argv) {
            Ok(a) => a,
            Err(e) => return json!({"clap": e.kind().to_string(), "code": e.exit_code()}),
        };
        let out = std::fs::OpenOptions::new().create(true).write(true).read(true).truncate(true).open(&out_path).unwrap();
        let err = std::fs::OpenOptions::new().create(true).write(true).read(true).truncate(true).open(&err_path).unwrap();
        let mut writer = Writer::new_with_err(WriteBuffer::File(out), WriteBuffer::File(err)).unwrap();
        let mut reader = Reader::new(ReadBuffer::Cursor(std::io::Cursor::new(stdin.clone())));
        match args.execute(&mut writer, &mut reader) {
            Ok(code) => json!({"code": code}),
            Err(e) => json!({"err": err_variant(&e), "msg": e.to_string(), "code": 255}),
        }
    });
    let stdout = std::fs::read(&out_path).map(|b| String::from_utf8_lossy(&b).to_string()).unwrap_or_default();
    let stderr = std::fs::read(&err_path).map(|b| String::from_utf8_lossy(&b).to_string()).unwrap_or_default();
    let mut extra = serde_json::Map::new();
    if let Some(reads) = req["read"].as_array() {
        for r in reads {
            if let Some(name) = r.as_str() {
                if let Ok(b) = std::fs::read(format!("{}/{}", dir, name)) {
                    extra.insert(name.to_string(), J::String(String::from_utf8_lossy(&b).to_string()));
                }
            }
        }
    }
    let _ = std::fs::remove_dir_all(&dir);
    let strip = |s: String| s.replace(&dir, "{DIR}").replace(dir.trim_start_matches('/'), "{DIR}");
    json!({"result": result, "stdout": strip(stdout), "stderr": strip(stderr), "read": extra})
}

fn op_env(req: &J) -> J {
    let mut out = serde_json::Map::new();
    if let Some(a) = req["regex"].as_array() {
        let mut res = vec![];
        for pair in a {
            let re = pair[0].as_str().unwrap_or("");
            let text = pair[1].as_str().unwrap_or("");
            let r = match fancy_regex::Regex::new(re) {
                Err(_) => json!("compileErr"),
                Ok(rx) => match rx.is_match(text) {
                    Ok(b) => json!(b),
                    Err(_) => json!("matchErr"),
                },
            };
            res.push(json!([re, text, r]));
        }
        out.insert("regex".into(), J::Array(res));
    }
    if let Some(a) = req["conv"].as_array() {
        use cruet::case::{camel, class, kebab, pascal, snake, title, train};
        let fs: [fn(&str) -> String; 7] = [
            camel::to_camel_case, class::to_class_case, kebab::to_kebab_case, pascal::to_pascal_case,
            snake::to_snake_case, title::to_title_case, train::to_train_case,
        ];
        let mut res = vec![];
        for k in a {
            let k = k.as_str().unwrap_or("");
            // some cruet converters panic on odd input; report that as null
            let row: Vec<J> = fs.iter().map(|f| match catch_unwind(|| f(k)) { Ok(s) => json!(s), Err(_) => J::Null }).collect();
            res.push(json!([k, row]));
        }
        out.insert("conv".into(), J::Array(res));
    }
    if let Some(a) = req["f64parse"].as_array() {
        out.insert("f64parse".into(), J::Array(a.iter().map(|s| {
            let s = s.as_str().unwrap_or("");
            json!([s, s.parse::<f64>().ok().map(|f| f.to_bits().to_string())])
        }).collect()));
    }
    if let Some(a) = req["f64show"].as_array() {
        out.insert("f64show".into(), J::Array(a.iter().map(|s| {
            let b: u64 = s.as_str().unwrap_or("0").parse().unwrap_or(0);
            json!([s, f64::from_bits(b).to_string()])
        }).collect()));
    }
    if let Some(a) = req["upper"].as_array() {
        out.insert("upper".into(), J::Array(a.iter().map(|s| { let s = s.as_str().unwrap_or(""); json!([s, s.to_uppercase()]) }).collect()));
    }
    if let Some(a) = req["lower"].as_array() {
        out.insert("lower".into(), J::Array(a.iter().map(|s| { let s = s.as_str().unwrap_or(""); json!([s, s.to_lowercase()]) }).collect()));
    }
    if let Some(a) = req["urldecode"].as_array() {
        out.insert("urldecode".into(), J::Array(a.iter().map(|s| {
            let s = s.as_str().unwrap_or("");
            json!([s, urlencoding::decode(s).ok().map(|c| c.into_owned())])
        }).collect()));
    }
    if let Some(a) = req["regex_replace"].as_array() {
        out.insert("regex_replace".into(), J::Array(a.iter().map(|t| {
            let (s, re, rep) = (t[0].as_str().unwrap_or(""), t[1].as_str().unwrap_or(""), t[2].as_str().unwrap_or(""));
            let r: Option<String> = (|| {
                let rx = fancy_regex::Regex::new(re).ok()?;
                let mut replaced = String::new();
                for cap in rx.captures_iter(s) {
                    cap.ok()?.expand(rep, &mut replaced);
                }
                Some(replaced)
            })();
            json!([s, re, rep, r])
        }).collect()));
    }
    if let Some(a) = req["parse_epoch"].as_array() {
        out.insert("parse_epoch".into(), J::Array(a.iter().map(|s| {
            let s = s.as_str().unwrap_or("");
            json!([s, chrono::DateTime::parse_from_rfc3339(s).ok().map(|d| d.with_timezone(&chrono::Utc).timestamp().to_string())])
        }).collect()));
    }
    if let Some(a) = req["json_parse"].as_array() {
        out.insert("json_parse".into(), J::Array(a.iter().map(|s| {
            let s = s.as_str().unwrap_or("");
            let r = guarded(|| res_json(verif_hooks::verif_dump_data(s, "serde_yaml")));
            json!([s, r])
        }).collect()));
    }
    J::Object(out)
}

fn main() {
    std::panic::set_hook(Box::new(|info| {
        if let (Some(l), Ok(mut g)) = (info.location(), LAST_PANIC_AT.lock()) {
            *g = format!("{}:{}", l.file(), l.line());
        }
    }));
    let stdin = std::io::stdin();
    let stdout = std::io::stdout();
    let mut out = stdout.lock();
    for line in stdin.lock().lines() {
        let line = match line {
            Ok(l) => l,
            Err(_) => break,
        };
        if line.trim().is_empty() {
            continue;
        }
        let req: J = match serde_json::from_str(&line) {
            Ok(v) => v,
            Err(e) => {
                writeln!(out, "{}", json!({"bad_request": e.to_string()})).unwrap();
                continue;
            }
        };
        let mut resp = match req["op"].as_str().unwrap_or("") {
            "case" => op_case(&req),
            "cli" => op_cli(&req),
            "env" => op_env(&req),
            "literal" => guarded(|| res_json(verif_hooks::verif_dump_literal(req["text"].as_str().unwrap_or("")))),
            "data" => guarded(|| res_json(verif_hooks::verif_dump_data(req["data"].as_str().unwrap_or(""), req["loader"].as_str().unwrap_or("run_checks")))),
            _ => json!({"bad_op": req["op"]}),
        };
        resp["id"] = req["id"].clone();
        writeln!(out, "{}", resp).unwrap();
        out.flush().unwrap();
    }
}
