import Guard
import Guard.Judge.C02
import Guard.Spec.Spec
import Guard.Model.Cli
import Guard.Model.Report
import Guard.Model.Merge
import Guard.Model.TestReport
import Guard.Model.Rulegen
import Lean.Data.Json
import Guard.Model.WF
/-
  guard_model — line-protocol driver for the executable model.
  One JSON request per stdin line, one JSON response per stdout line.
  Nothing in here is mentioned by a theorem: this is glue (JSON decoding, table lookups for
  `Env`), tied to the implementation by the correspondence runs.
-/
open Lean Guard

def jstr (j : Json) : String := (j.getStr?).toOption.getD ""
def jfield (j : Json) (k : String) : Json := (j.getObjVal? k).toOption.getD Json.null
def jarr (j : Json) : List Json := ((j.getArr?).toOption.getD #[]).toList
def jbool (j : Json) : Bool := (j.getBool?).toOption.getD false
def jnat (j : Json) : Nat := (j.getNat?).toOption.getD 0
def jint (j : Json) : Int := (j.getInt?).toOption.getD 0
def jisNull (j : Json) : Bool := match j with | .null => true | _ => false
def jstrL (j : Json) : Str := (jstr j).toList
def joptStr (j : Json) : Option Str := if jisNull j then none else some (jstrL j)
def strNat (s : String) : Nat := s.toNat?.getD 0
def strInt (s : String) : Int := s.toInt?.getD 0

def parsePath (j : Json) : Path :=
  match jarr j with
  | [p, l, c] => { ptr := jstrL p, line := jnat l, col := jnat c }
  | _ => Path.root

def firstChar (s : String) : Char := s.toList.headD ' '

partial def parsePV (j : Json) : PV :=
  let p := parsePath (jfield j "p")
  match jstr (jfield j "t") with
  | "null" => .null p
  | "str" => .str p (jstrL (jfield j "v"))
  | "regex" => .regex p (jstrL (jfield j "v"))
  | "bool" => .bool p (jbool (jfield j "v"))
  | "int" => .int p (strInt (jstr (jfield j "v")))
  | "float" => .float p (F64.ofBits (strNat (jstr (jfield j "v"))))
  | "char" => .char p (firstChar (jstr (jfield j "v")))
  | "list" => .list p ((jarr (jfield j "v")).map parsePV)
  | "map" =>
    let keys := (jarr (jfield j "keys")).map fun k => (parsePath (jfield k "p"), jstrL (jfield k "v"))
    .map p keys ((jarr (jfield j "v")).map parsePV)
  | "rangeInt" => .rangeInt p (strInt (jstr (jfield j "lo"))) (strInt (jstr (jfield j "hi"))) (jnat (jfield j "incl"))
  | "rangeFloat" => .rangeFloat p (F64.ofBits (strNat (jstr (jfield j "lo")))) (F64.ofBits (strNat (jstr (jfield j "hi")))) (jnat (jfield j "incl"))
  | "rangeChar" => .rangeChar p (firstChar (jstr (jfield j "lo"))) (firstChar (jstr (jfield j "hi"))) (jnat (jfield j "incl"))
  | _ => .null p

def parseOp (s : String) : CmpOp :=
  match s with
  | "Eq" => .eq | "In" => .in_ | "Gt" => .gt | "Lt" => .lt | "Le" => .le | "Ge" => .ge
  | "Exists" => .exists_ | "Empty" => .empty | "IsString" => .isString | "IsList" => .isList
  | "IsMap" => .isMap | "IsBool" => .isBool | "IsInt" => .isInt | "IsFloat" => .isFloat
  | "IsNull" => .isNull | _ => .eq

def parseCmp (j : Json) : CmpOp × Bool :=
  match jarr j with
  | [o, n] => (parseOp (jstr o), jbool n)
  | _ => (.eq, false)

def parseFn (s : String) : FunctionName :=
  match s with
  | "count" => .count | "join" => .join | "json_parse" => .jsonParse | "now" => .now
  | "parse_boolean" => .parseBoolean | "parse_char" => .parseChar | "parse_epoch" => .parseEpoch
  | "parse_float" => .parseFloat | "parse_int" => .parseInt | "parse_string" => .parseString
  | "regex_replace" => .regexReplace | "substring" => .substring | "to_lower" => .toLower
  | "to_upper" => .toUpper | "url_decode" => .urlDecode | _ => .count

mutual
partial def parsePart (j : Json) : QueryPart :=
  match jstr (jfield j "t") with
  | "this" => .this
  | "key" => .key (jstrL (jfield j "k"))
  | "keys" =>
    let (o, n) := parseCmp (jfield j "cmp")
    .mapKeyFilter (joptStr (jfield j "name")) o n (parseLetValue (jfield j "with"))
  | "allValues" => .allValues (joptStr (jfield j "name"))
  | "allIndices" => .allIndices (joptStr (jfield j "name"))
  | "index" => .index (jint (jfield j "i"))
  | "filter" => .filter (joptStr (jfield j "name")) (parseCnf (jfield j "cnf"))
  | _ => .this
partial def parseLetValue (j : Json) : LetValue :=
  match jstr (jfield j "t") with
  | "value" => .value (parsePV (jfield j "v"))
  | "access" =>
    let q := jfield j "q"
    .access ((jarr (jfield q "parts")).map parsePart) (jbool (jfield q "all"))
  | "func" =>
    let f := jfield j "f"
    .func (parseFn (jstr (jfield f "name"))) ((jarr (jfield f "params")).map parseLetValue)
  | _ => .access [] true
partial def parseCnf (j : Json) : Cnf := (jarr j).map fun line => (jarr line).map parseClause
partial def parseLets (j : Json) : List LetExpr :=
  (jarr j).map fun l => LetExpr.mk (jstrL (jfield l "var")) (parseLetValue (jfield l "value"))
partial def parseClause (j : Json) : Clause :=
  match jstr (jfield j "t") with
  | "clause" =>
    let q := jfield j "q"
    let (o, n) := parseCmp (jfield j "cmp")
    let w := jfield j "with"
    .access (jbool (jfield j "neg")) ((jarr (jfield q "parts")).map parsePart) (jbool (jfield q "all")) o n
      (if jisNull w then none else some (parseLetValue w)) (joptStr (jfield j "msg"))
  | "named" => .named (jstrL (jfield j "rule")) (jbool (jfield j "neg")) (joptStr (jfield j "msg"))
  | "call" => .call (jstrL (jfield j "rule")) (jbool (jfield j "neg")) (joptStr (jfield j "msg"))
      ((jarr (jfield j "params")).map parseLetValue)
  | "block" =>
    let q := jfield j "q"
    let b := jfield j "block"
    .block ((jarr (jfield q "parts")).map parsePart) (jbool (jfield q "all")) (jbool (jfield j "notEmpty"))
      (parseLets (jfield b "lets")) (parseCnf (jfield b "cnf"))
  | "when" =>
    let b := jfield j "block"
    .whenBlock (parseCnf (jfield j "conds")) (parseLets (jfield b "lets")) (parseCnf (jfield b "cnf"))
  | "type" =>
    let b := jfield j "block"
    let c := jfield j "conds"
    .typeBlock (jstrL (jfield j "name")) (if jisNull c then none else some (parseCnf c))
      (parseLets (jfield b "lets")) (parseCnf (jfield b "cnf")) ((jarr (jfield j "parts")).map parsePart)
  | _ => .named [] false none
end

def parseRule (j : Json) : Rule :=
  let b := jfield j "block"
  let c := jfield j "conds"
  { name := jstrL (jfield j "name"), conds := if jisNull c then none else some (parseCnf c),
    lets := parseLets (jfield b "lets"), cnf := parseCnf (jfield b "cnf") }

def parseRulesFile (j : Json) : RulesFile :=
  { lets := parseLets (jfield j "lets"),
    rules := (jarr (jfield j "rules")).map parseRule,
    prules := (jarr (jfield j "prules")).map fun p =>
      { params := (jarr (jfield p "params")).map jstrL, rule := parseRule (jfield p "rule") } }

/-! Env from tables.  A lookup that misses a table is recorded in `missRef` so the orchestrator
    can discard the case instead of reporting a spurious disagreement. -/

def lookup2 (tbl : List ((String × String) × Json)) (a b : String) : Option Json :=
  (tbl.find? fun ((x, y), _) => x == a && y == b).map (·.2)
def lookup1 (tbl : List (String × Json)) (a : String) : Option Json :=
  (tbl.find? fun (x, _) => x == a).map (·.2)

def tbl1 (j : Json) : List (String × Json) :=
  (jarr j).filterMap fun row => match jarr row with
    | [k, v] => some (jstr k, v)
    | _ => none

partial def plainOfPV : PV → Plain
  | .null _ => .null | .str _ s => .str s | .regex _ s => .regex s | .bool _ b => .bool b
  | .int _ i => .int i | .float _ f => .float f | .char _ c => .char c
  | .list _ xs => .list (xs.map plainOfPV)
  | .map _ ks vs => .map (ks.map (·.2)) (vs.map plainOfPV)
  | .rangeInt _ a b i => .rangeInt a b i | .rangeFloat _ a b i => .rangeFloat a b i
  | .rangeChar _ a b i => .rangeChar a b i

def mkEnv (j : Json) : Env :=
  let regexT : List ((String × String) × Json) := (jarr (jfield j "regex")).filterMap fun row =>
    match jarr row with
    | [re, text, r] => some ((jstr re, jstr text), r)
    | _ => none
  let convT := tbl1 (jfield j "conv")
  let f64parseT := tbl1 (jfield j "f64parse")
  let f64showT := tbl1 (jfield j "f64show")
  let upperT := tbl1 (jfield j "upper")
  let lowerT := tbl1 (jfield j "lower")
  let urlT := tbl1 (jfield j "urldecode")
  let epochT := tbl1 (jfield j "parse_epoch")
  let jsonT := tbl1 (jfield j "json_parse")
  let rrT : List ((String × String × String) × Json) := (jarr (jfield j "regex_replace")).filterMap fun row =>
    match jarr row with
    | [s, re, rep, r] => some ((jstr s, jstr re, jstr rep), r)
    | _ => none
  let miss : String := "\u0001MISS"
  { regex := fun re s =>
      match lookup2 regexT (String.ofList re) (String.ofList s) with
      | some (.bool b) => .isMatch b
      | some (.str "compileErr") => .compileErr
      | some (.str "matchErr") => .matchErr
      | _ => .matchErr
    caseConv := fun i k =>
      match lookup1 convT (String.ofList k) with
      | some row => match (jarr row)[i]? with
        | some (.str s) => s.toList
        | _ => miss.toList
      | none => miss.toList
    f64Parse := fun s => match lookup1 f64parseT (String.ofList s) with
      | some (.str bits) => some (F64.ofBits (strNat bits))
      | _ => none
    f64Show := fun x => match lookup1 f64showT (toString x.toBits) with
      | some (.str s) => s.toList
      | _ => miss.toList
    upper := fun s => match lookup1 upperT (String.ofList s) with | some (.str r) => r.toList | _ => miss.toList
    lower := fun s => match lookup1 lowerT (String.ofList s) with | some (.str r) => r.toList | _ => miss.toList
    urlDecode := fun s => match lookup1 urlT (String.ofList s) with | some (.str r) => some r.toList | _ => none
    regexReplace := fun s re rep =>
      let hit : Option Json := (rrT.find? fun ((a, b, c), _) => a == String.ofList s && b == String.ofList re && c == String.ofList rep).map (·.2)
      match hit with
      | some (Json.str r) => some r.toList
      | _ => none
    jsonParse := fun s => match lookup1 jsonT (String.ofList s) with
      | some r => let ok := jfield r "ok"; if jisNull ok then none else some (plainOfPV (parsePV ok))
      | none => none
    parseEpoch := fun s => match lookup1 epochT (String.ofList s) with
      | some (.str r) => some (strInt r)
      | _ => none
    now := jint (jfield j "now") }

/-! Output encoding -/

def sOf (s : Str) : Json := Json.str (String.ofList s)

def qrJson : QR → Json
  | .literal v => Json.mkObj [("lit", sOf v.path.ptr)]
  | .resolved v => Json.mkObj [("res", sOf v.path.ptr), ("ty", Json.str v.typeInfo)]
  | .unresolved ur => Json.mkObj [("unres", sOf ur.traversedTo.path.ptr), ("rem", sOf ur.remaining)]

def opName : CmpOp → String
  | .eq => "Eq" | .in_ => "In" | .gt => "Gt" | .lt => "Lt" | .le => "Le" | .ge => "Ge"
  | .exists_ => "Exists" | .empty => "Empty" | .isString => "IsString" | .isList => "IsList"
  | .isMap => "IsMap" | .isBool => "IsBool" | .isInt => "IsInt" | .isFloat => "IsFloat" | .isNull => "IsNull"

def optS (o : Option Str) : Json := match o with | some s => sOf s | none => Json.null

def ccJson : ClauseCheck → Json
  | .success => Json.mkObj [("cc", "Success")]
  | .comparison f t op n m => Json.mkObj [("cc", "Comparison"), ("from", qrJson f),
      ("to", match t with | some q => qrJson q | none => Json.null), ("op", opName op), ("not", n), ("msg", optS m)]
  | .inComparison f t op n m => Json.mkObj [("cc", "InComparison"), ("from", qrJson f),
      ("to", Json.arr (t.map qrJson).toArray), ("op", opName op), ("not", n), ("msg", optS m)]
  | .unary f op n m => Json.mkObj [("cc", "Unary"), ("from", qrJson f), ("op", opName op), ("not", n), ("msg", optS m)]
  | .noValueForEmptyCheck m => Json.mkObj [("cc", "NoValueForEmptyCheck"), ("msg", optS m)]
  | .dependentRule r m => Json.mkObj [("cc", "DependentRule"), ("rule", sOf r), ("msg", optS m)]
  | .missingBlockValue f => Json.mkObj [("cc", "MissingBlockValue"), ("from", qrJson f)]

partial def recJson : Rec → Json
  | .node k ch =>
    let c := Json.arr (ch.map recJson).toArray
    let st (s : Status) : Json := Json.str s.toStr
    match k with
    | .fileCheck s => Json.mkObj [("k", "FileCheck"), ("s", st s), ("c", c)]
    | .ruleCheck n s m => Json.mkObj [("k", "RuleCheck"), ("n", sOf n), ("s", st s), ("msg", optS m), ("c", c)]
    | .ruleCondition s => Json.mkObj [("k", "RuleCondition"), ("s", st s), ("c", c)]
    | .typeCheck n s => Json.mkObj [("k", "TypeCheck"), ("n", sOf n), ("s", st s), ("c", c)]
    | .typeCondition s => Json.mkObj [("k", "TypeCondition"), ("s", st s), ("c", c)]
    | .typeBlock s => Json.mkObj [("k", "TypeBlock"), ("s", st s), ("c", c)]
    | .filter s => Json.mkObj [("k", "Filter"), ("s", st s), ("c", c)]
    | .whenCheck s => Json.mkObj [("k", "WhenCheck"), ("s", st s), ("c", c)]
    | .whenCondition s => Json.mkObj [("k", "WhenCondition"), ("s", st s), ("c", c)]
    | .disjunction s => Json.mkObj [("k", "Disjunction"), ("s", st s), ("c", c)]
    | .blockGuardCheck s => Json.mkObj [("k", "BlockGuardCheck"), ("s", st s), ("c", c)]
    | .guardClauseBlockCheck s => Json.mkObj [("k", "GuardClauseBlockCheck"), ("s", st s), ("c", c)]
    | .clauseValueCheck cc => Json.mkObj [("k", "ClauseValueCheck"), ("v", ccJson cc), ("c", c)]

def siteName (s : PanicSite) : String := reprStr s

def qrPath : QR → Json
  | .literal v | .resolved v => sOf v.path.ptr
  | .unresolved ur => sOf ur.traversedTo.path.ptr

partial def crJson : CR → Json
  | .rule n m cs => Json.mkObj [("Rule", Json.mkObj [("name", sOf n), ("msg", optS m), ("checks", Json.arr (cs.map crJson).toArray)])]
  | .block none => Json.mkObj [("Block", Json.mkObj [("unres", Json.null)])]
  | .block (some c) => Json.mkObj [("Block", Json.mkObj [("unres", match c with | .missingBlockValue f => qrPath f | _ => Json.null)])]
  | .disjunctions cs => Json.mkObj [("Disjunctions", Json.arr (cs.map crJson).toArray)]
  | .clause c =>
    let leaf (k c' : String) (fr : Json) (to : List Json) (m : Option Str) : Json :=
      Json.mkObj [("Clause", Json.mkObj [("k", k), ("c", c'), ("from", fr), ("to", Json.arr to.toArray), ("msg", optS m)])]
    match c with
    | .unary f _ _ m => leaf "Unary" (match f with | .unresolved _ => "UnResolved" | _ => "Resolved") (qrPath f) [] m
    | .noValueForEmptyCheck m => leaf "Unary" "Context" Json.null [] (m.map fun s => s.map fun ch => if ch == '\n' then ';' else ch)
    | .dependentRule r m => leaf "Unary" "Context" (sOf r) [] m
    | .comparison f t _ _ m =>
      (match f, t with
       | .unresolved _, _ => leaf "Binary" "UnResolved" (qrPath f) [] m
       | _, some (.unresolved u) => leaf "Binary" "UnResolved" (qrPath (.unresolved u)) [] m
       | _, some t' => leaf "Binary" "Resolved" (qrPath f) [qrPath t'] m
       | _, none => leaf "Binary" "?" Json.null [] m)
    | .inComparison f t _ _ m =>
      leaf "Binary" "InResolved" (qrPath f) ((t.filter QR.isResolvedOnly).map qrPath) m
    | _ => Json.null

def parseStatus (s : String) : Status :=
  match s with | "PASS" => .pass | "FAIL" => .fail | _ => .skip

/-- canonical tree (as produced by tools/vlib.py for either side) -> `Rec` -/
partial def parseRec (j : Json) : Rec :=
  let ch := (jarr (jfield j "c")).map parseRec
  let s := parseStatus (jstr (jfield j "s"))
  let n := jstrL (jfield j "n")
  let dummy : QR := .resolved (.null Path.root)
  let qrOf (q : Json) : QR :=
    if jisNull q then dummy
    else if !jisNull (jfield q "unres") then
      .unresolved { traversedTo := .null { ptr := jstrL (jfield q "unres") }, remaining := jstrL (jfield q "rem") }
    else .resolved (.null { ptr := jstrL (jfield q "res") })
  let msg := joptStr (jfield j "msg")
  let fromQ := qrOf (jfield j "from")
  let toJ := jfield j "to"
  let toOpt : Option QR := if jisNull toJ then none else some (qrOf toJ)
  let toList : List QR := (jarr toJ).map qrOf
  let k : RecKind := match jstr (jfield j "k") with
    | "FileCheck" => .fileCheck s
    | "RuleCheck" => .ruleCheck n s msg
    | "RuleCondition" => .ruleCondition s
    | "TypeCheck" => .typeCheck n s
    | "TypeCondition" => .typeCondition s
    | "TypeBlock" => .typeBlock s
    | "Filter" => .filter s
    | "WhenCheck" => .whenCheck s
    | "WhenCondition" => .whenCondition s
    | "Disjunction" => .disjunction s
    | "BlockGuardCheck" => .blockGuardCheck s
    | "GuardClauseBlockCheck" => .guardClauseBlockCheck s
    | _ =>
      .clauseValueCheck (match jstr (jfield j "v") with
        | "Success" => .success
        | "Comparison" => .comparison fromQ toOpt .eq false msg
        | "InComparison" => .inComparison fromQ toList .in_ false msg
        | "Unary" => .unary fromQ .exists_ false msg
        | "NoValueForEmptyCheck" => .noValueForEmptyCheck msg
        | "DependentRule" => .dependentRule (jstrL (jfield j "rule")) msg
        | _ => .missingBlockValue fromQ)
  .node k ch

/-- first inconsistent node (pre-order), as a path of child indices -/
partial def firstBad (r : Rec) (path : List Nat) : Option (List Nat) :=
  match r with
  | .node k ch =>
    if !nodeOk k ch then some path.reverse
    else
      let rec go (i : Nat) : List Rec → Option (List Nat)
        | [] => none
        | c :: cs => match firstBad c (i :: path) with
          | some p => some p
          | none => go (i + 1) cs
      go 0 ch

def handle (j : Json) : Json :=
  let id := jfield j "id"
  match jstr (jfield j "op") with
  | "eval" =>
    let env := mkEnv (jfield j "env")
    let file := parseRulesFile (jfield j "ast")
    let doc := parsePV (jfield j "doc")
    let fuel := let f := jnat (jfield j "fuel"); if f == 0 then 100000 else f
    let wf := Json.bool file.wf
    match runFile env fuel file doc with
    | .ok (s, t) =>
      Json.mkObj [("id", id), ("wf", wf), ("status", Json.str s.toStr),
        ("rules", Json.arr ((ruleStatuses t).map fun (n, s) => Json.arr #[sOf n, Json.str s.toStr]).toArray),
        ("tree", recJson t)]
    | .err e => Json.mkObj [("id", id), ("wf", wf), ("err", Json.str e.toStr)]
    | .panic s => Json.mkObj [("id", id), ("wf", wf), ("panic", Json.str (siteName s))]
    | .outOfFuel => Json.mkObj [("id", id), ("wf", wf), ("outOfFuel", true)]
  | "spec" =>
    let env := mkEnv (jfield j "env")
    let file := parseRulesFile (jfield j "ast")
    let doc := parsePV (jfield j "doc")
    match Spec.runFile env 4000 file doc with
    | .ok (rs, s) =>
      Json.mkObj [("id", id), ("spec", "ok"), ("status", Json.str s.toStr),
        ("rules", Json.arr (rs.map fun (n, s) => Json.arr #[sOf n, Json.str s.toStr]).toArray)]
    | .undefined => Json.mkObj [("id", id), ("spec", "undefined")]
    | .outside => Json.mkObj [("id", id), ("spec", "outside")]
    | .fuel => Json.mkObj [("id", id), ("spec", "fuel")]
  | "exit" =>
    -- exit-code folds of the Cli model
    let stOf (j : Json) : Option Status := if jisNull j then none else some (parseStatus (jstr j))
    let ruleFile (j : Json) : Cli.RuleFile := match jstr (jfield j "k") with
      | "unreadable" => .unreadable
      | "parseError" => .parseError
      | "empty" => .empty
      | _ => .evaluated ((jarr (jfield j "cols")).map stOf)
    let testFile (j : Json) : Cli.TestFile := match jstr (jfield j "k") with
      | "unparsable" => .unparsable
      | _ => .specs ((jarr (jfield j "mismatch")).map jbool)
    let testRules (j : Json) : Cli.TestRules := match jstr (jfield j "k") with
      | "bad" => .bad
      | "empty" => .empty
      | _ => .ok ((jarr (jfield j "files")).map testFile)
    let code : Int := match jstr (jfield j "cmd") with
      | "validate" =>
        let m : Cli.Mode := match jstr (jfield j "mode") with
          | "structured" => .structured | "junit" => .junit | _ => .plain
        Cli.mainExit (Cli.validateExit m ((jarr (jfield j "files")).map ruleFile))
      | "test-single-plain" => Cli.testSinglePlain (testRules (jfield j "rules"))
      | "test-single-structured" => Cli.testSingleStructured (testRules (jfield j "rules"))
      | "test-dir-plain" => Cli.testDirPlain Cli.T_OK ((jarr (jfield j "rules")).map testRules)
      | "test-dir-structured" => Cli.testDirStructured Cli.T_OK ((jarr (jfield j "rules")).map testRules)
      | _ => -1
    Json.mkObj [("id", id), ("exit", toJson code)]
  | "report" =>
    -- the structured report the model derives from a (canonical, detailed) record tree
    -- several trees (several rules files against one data file) are combined like
    -- `CommonStructuredReporter::report` does, starting from the default report
    let trees := (jarr (jfield j "trees")).map parseRec
    let reps := trees.map fileReport
    let folded : Option FileReport := reps.foldl (fun acc r => match acc, r with
      | some a, some b => some (a.combine b)
      | _, _ => none) (some FileReport.empty)
    match folded with
    | some r => Json.mkObj [("id", id), ("status", Json.str r.status.toStr),
        ("compliant", Json.arr (r.compliant.map sOf).toArray),
        ("not_applicable", Json.arr (r.notApplicable.map sOf).toArray),
        ("not_compliant", Json.arr (r.notCompliant.map crJson).toArray)]
    | none => Json.mkObj [("id", id), ("report", Json.null)]
  | "merge_eval" =>
    -- validate with input-parameter files: merge (parameters left to right, then the data file), evaluate
    let env := mkEnv (jfield j "env")
    let file := parseRulesFile (jfield j "ast")
    let data := parsePV (jfield j "doc")
    let params := (jarr (jfield j "params")).map parsePV
    let docO : Outcome PV := mergedDocument params data
    match docO with
    | .ok doc =>
      match runFile env 100000 file doc with
      | .ok (s, t) => Json.mkObj [("id", id), ("status", Json.str s.toStr),
          ("rules", Json.arr ((ruleStatuses t).map fun (n, s) => Json.arr #[sOf n, Json.str s.toStr]).toArray)]
      | .err e => Json.mkObj [("id", id), ("err", Json.str e.toStr)]
      | .panic s => Json.mkObj [("id", id), ("panic", Json.str (siteName s))]
      | .outOfFuel => Json.mkObj [("id", id), ("outOfFuel", true)]
    | .err e => Json.mkObj [("id", id), ("merge_err", Json.str e.toStr)]
    | _ => Json.mkObj [("id", id), ("merge_err", "panic")]
  | "test_classify" =>
    let pairs (j : Json) : List (Str × Status) := (jarr j).filterMap fun row => match jarr row with
      | [n, s] => some (jstrL n, parseStatus (jstr s))
      | _ => none
    let groups := groupByName (pairs (jfield j "statuses"))
    let outs := classify (pairs (jfield j "expectations")) groups
    let stJ (s : Status) : Json := Json.str s.toStr
    Json.mkObj [("id", id), ("outcomes", Json.arr (outs.map fun o => match o with
      | .passed n s => Json.mkObj [("k", "passed"), ("name", sOf n), ("evaluated", stJ s)]
      | .failed n e ev => Json.mkObj [("k", "failed"), ("name", sOf n), ("expected", stJ e), ("evaluated", Json.arr (ev.map stJ).toArray)]
      | .noExpectation n => Json.mkObj [("k", "skipped"), ("name", sOf n)]).toArray)]
  | "rulegen" =>
    let rs : List Rulegen.Resource := (jarr (jfield j "resources")).map fun r =>
      { type := jstr (jfield r "type"),
        props := (jarr (jfield r "props")).filterMap fun pv => match jarr pv with
          | [p, v] => some (jstr p, jstr v)
          | _ => none }
    let m := Rulegen.genRules rs
    Json.mkObj [("id", id), ("map", Json.arr (m.map fun (t, pm) =>
      Json.arr #[Json.str t, Json.arr (pm.map fun (p, vs) => Json.arr #[Json.str p, Json.arr (vs.map Json.str).toArray]).toArray]).toArray)]
  | "consistent" =>
    let t := parseRec (jfield j "tree")
    let ok := Consistent t
    Json.mkObj [("id", id), ("consistent", ok), ("size", t.size),
      ("bad", match (if ok then none else firstBad t []) with
        | some p => Json.arr (p.map fun (n : Nat) => toJson n).toArray
        | none => Json.null)]
  | other => Json.mkObj [("id", id), ("bad_op", Json.str other)]

partial def loop (h : IO.FS.Stream) (out : IO.FS.Stream) : IO Unit := do
  let line ← h.getLine
  if line.isEmpty then return ()
  if line.trimAscii.toString.isEmpty then loop h out else
  match Json.parse line with
  | .ok j => out.putStrLn (handle j).compress
  | .error e => out.putStrLn (Json.mkObj [("bad_request", Json.str e)]).compress
  out.flush
  loop h out

def main : IO Unit := do
  loop (← IO.getStdin) (← IO.getStdout)
