import Guard.Spec.Spec
import Guard.Model.Eval
import Guard.Lemmas.Order
/-
  C01 — rule verdicts equal the documented semantics.

  `Guard.Spec` is the independent reading of the documentation; `Guard.Model` mirrors the code.
  This file proves, layer by layer and for ALL values, that the two coincide where the
  documentation speaks:
    * unresolved left-hand sides FAIL every binary comparison under both polarities, satisfy
      `empty` and `!exists`; an empty selection makes the clause SKIP                    (Ops)
    * one scalar value against one scalar literal: the model's comparison layer yields exactly the
      checks of the Spec, for the four ordering operators and for `==`/`!=`            (Ops = Spec)
    * the aggregators of the model are the quantifiers / folds of the Spec             (Eval = Spec)
  The end-to-end statement `Impl.runFile = Spec.runFile` on the whole core fragment is kept below as
  `C01_refines_spec_statement`; what is PROVED of it is the layer lemmas, and it is CHECKED on every
  generated case by the Spec judge (implementation vs Spec) and the correspondence (implementation
  vs model).
-/
set_option linter.unusedSimpArgs false
namespace Guard.C01
open Guard

/-- the per-value outcomes (`true` = the value check passed) a comparison result stands for -/
def verOutcomes : VER → List Bool
  | .lhsUnresolved _ => [false]
  | .cmp (.rhsUnresolved _ _) => [false]
  | .cmp (.notComparable _ _) => [false]
  | .cmp (.success (.queryIn _ lhs _)) => lhs.map fun _ => true
  | .cmp (.success _) => [true]
  | .cmp (.fail (.queryIn diff _ _)) => diff.map fun _ => false
  | .cmp (.fail _) => [false]

/-- `reportVER` (the records/outcomes `binary_operation` emits) agrees with `verOutcomes` -/
theorem reportVER_outcomes (op : CmpOp) (n : Bool) (m : Option Str) (v : VER) :
    (reportVER op n m v).map (fun t => t.2.2) = verOutcomes v := by
  cases v with
  | lhsUnresolved u => rfl
  | cmp r =>
    cases r with
    | success c => cases c <;> simp [reportVER, verOutcomes, List.map_map, Function.comp_def]
    | fail c => cases c <;> simp [reportVER, verOutcomes, List.map_map, Function.comp_def]
    | notComparable a b => rfl
    | rhsUnresolved u l => rfl

/-! ### unresolved paths -/

def allUnresolved (qs : List QR) : Prop := ∀ q ∈ qs, ∃ u, q = .unresolved u

theorem flattened_unresolved {qs : List QR} (h : allUnresolved qs) : flattenedVals qs = [] := by
  induction qs with
  | nil => rfl
  | cons q qs ih =>
    obtain ⟨u, hu⟩ := h q (List.mem_cons_self)
    subst hu
    simp [flattenedVals, ih (fun q' hq' => h q' (List.mem_cons_of_mem _ hq'))]

theorem selected_unresolved {qs : List QR} (h : allUnresolved qs) : selectedVals qs = [] := by
  induction qs with
  | nil => rfl
  | cons q qs ih =>
    obtain ⟨u, hu⟩ := h q (List.mem_cons_self)
    subst hu
    simp [selectedVals, ih (fun q' hq' => h q' (List.mem_cons_of_mem _ hq'))]

theorem unresolvedOf_length {qs : List QR} (h : allUnresolved qs) : (unresolvedOf qs).length = qs.length := by
  induction qs with
  | nil => rfl
  | cons q qs ih =>
    obtain ⟨u, hu⟩ := h q (List.mem_cons_self)
    subst hu
    simp [unresolvedOf, ih (fun q' hq' => h q' (List.mem_cons_of_mem _ hq'))]

/-- **Unresolved paths count as FAIL for the ordering comparisons, under both polarities**: when
    every left-hand result is unresolved, `<`, `<=`, `>`, `>=` against any literal produce one
    failing check per result and nothing else. -/
theorem C01_unresolved_fail_ordering (env : Env) (op : CmpOp) (opNot : Bool) (lhs : List QR) (lit : PV)
    (hop : op ∈ [CmpOp.lt, .le, .gt, .ge]) (hne : lhs ≠ []) (h : allUnresolved lhs) :
    ∃ rs, cmpCompare env op opNot lhs [.literal lit] = .ok (.result rs) ∧
      rs.flatMap verOutcomes = lhs.map (fun _ => false) := by
  have hl : lhs.isEmpty = false := by cases lhs <;> simp_all
  have key : ∀ c, commonCompare c lhs [.literal lit] = .ok (.result ((unresolvedOf lhs).map VER.lhsUnresolved)) := by
    intro c
    simp [commonCompare, flattened_unresolved h, unresolvedOf, mapMOutcome]
  have hflip : ∀ us : List UnResolved,
      mapMOutcome (flipVER env op lhs.length 1) (us.map VER.lhsUnresolved) = .ok (us.map VER.lhsUnresolved) := by
    intro us; induction us with
    | nil => rfl
    | cons u us ih => simp [mapMOutcome, flipVER, ih]
  have hout : ∀ us : List UnResolved, (us.map VER.lhsUnresolved).flatMap verOutcomes = us.map (fun _ => false) := by
    intro us; induction us with
    | nil => rfl
    | cons u us ih => simp [verOutcomes, ih]
  have hlen := unresolvedOf_length h
  have hfin : (unresolvedOf lhs).map (fun _ => false) = lhs.map (fun _ => false) := by
    apply List.ext_getElem <;> simp [hlen]
  simp only [List.mem_cons, List.mem_nil_iff, or_false] at hop
  refine ⟨(unresolvedOf lhs).map VER.lhsUnresolved, ?_, by rw [hout, hfin]⟩
  rcases hop with rfl | rfl | rfl | rfl <;> cases opNot <;>
    simp [cmpCompare, opCompare, hl, key, hflip]

/-- **Unresolved paths satisfy `empty` and `!exists`** (and fail `exists`, `!empty` and every
    `is_*` test). -/
theorem C01_unresolved_unary (u : UnResolved) :
    unaryCheck .empty false false (.unresolved u) = .ok true ∧
    unaryCheck .exists_ true false (.unresolved u) = .ok true ∧
    unaryCheck .exists_ false false (.unresolved u) = .ok false ∧
    unaryCheck .empty true false (.unresolved u) = .ok false ∧
    (∀ op ∈ [CmpOp.isString, .isList, .isMap, .isBool, .isInt, .isFloat, .isNull],
        unaryCheck op false false (.unresolved u) = .ok false) := by
  refine ⟨rfl, rfl, rfl, rfl, ?_⟩
  intro op hop
  simp only [List.mem_cons, List.mem_nil_iff, or_false] at hop
  rcases hop with rfl | rfl | rfl | rfl | rfl | rfl | rfl <;> rfl

/-- … and the Spec says the same about a missing value. -/
theorem C01_spec_missing_unary :
    Spec.unaryHolds .empty .missing = .ok true ∧ Spec.unaryHolds .exists_ .missing = .ok false := ⟨rfl, rfl⟩

/-- **An empty selection makes the clause SKIP**: the comparison layer answers `Skip` whenever
    either side selected nothing (only filters can do that), for every operator and polarity. -/
theorem C01_empty_selection_skip (env : Env) (op : CmpOp) (opNot : Bool) (rhs : List QR) :
    cmpCompare env op opNot [] rhs = .ok .skip := by
  simp [cmpCompare, opCompare]

/-- `empty` on a number or on null is undefined in both the model and the Spec (an error). -/
theorem C01_empty_on_number_undefined (p : Path) (i : Int) :
    unaryCheck .empty false false (.resolved (.int p i)) = .err .IncompatibleError ∧
    Spec.unaryHolds .empty (.val (.int p i)) = .undefined := ⟨rfl, rfl⟩

/-! ### one scalar against one scalar literal: Ops = Spec -/

/-- scalars of the document/literal language that are not lists or maps -/
def plainScalar : PV → Bool
  | .null _ | .bool _ _ | .int _ _ | .float _ _ | .str _ _ => true
  | _ => false

theorem order_eq_compareValues (x y : PV) (hx : plainScalar x = true) (hy : plainScalar y = true) :
    (∀ o, Spec.order x y = some o → compareValues x y = .ok o) ∧
    (Spec.order x y = none → compareValues x y = .err .NotComparable) := by
  cases x <;> simp [plainScalar] at hx <;> cases y <;> simp [plainScalar] at hy <;>
    simp [Spec.order, compareValues, F64.partialCmp]
  case float.float p a q b =>
    by_cases h : a.isNaN = true ∨ b.isNaN = true
    · rcases h with h | h <;> simp [h]
    · have ha : a.isNaN = false := by cases hh : a.isNaN <;> simp_all
      have hb : b.isNaN = false := by cases hh : b.isNaN <;> simp_all
      simp [ha, hb]

/-- truth value of an ordering operator on a three-way comparison result -/
def opTest (op : CmpOp) (o : Ordering) : Bool :=
  match op with
  | .lt => o == .lt | .le => o != .gt | .gt => o == .gt | _ => o != .lt

/-- **Ordering operators, one scalar value vs one scalar literal**: the model produces exactly one
    value check and it passes iff the Spec's check passes — for `<`, `<=`, `>`, `>=`, both
    polarities, all ints / floats / strings / nulls / bools (incomparable pairs FAIL both ways). -/
theorem C01_scalar_ordering_refines (env : Env) (op : CmpOp) (negated : Bool) (x y : PV)
    (hop : op ∈ [CmpOp.lt, .le, .gt, .ge]) (hx : plainScalar x = true) (hy : plainScalar y = true) :
    ∃ v, cmpCompare env op negated [.resolved x] [.literal y] = .ok (.result [v]) ∧
      Spec.binaryChecks env op negated x y = .ok (verOutcomes v) := by
  have nlx : ∀ z : PV, plainScalar z = true → flattenedVals [.resolved z] = [z] ∧ flattenedVals [.literal z] = [z] ∧ Spec.flat1 z = [z] := by
    intro z hz; cases z <;> simp [plainScalar] at hz <;> simp [flattenedVals, Spec.flat1]
  obtain ⟨hfx, -, hsx⟩ := nlx x hx
  obtain ⟨-, hfy, hsy⟩ := nlx y hy
  obtain ⟨hsome, hnone⟩ := order_eq_compareValues x y hx hy
  have key : ∀ (c : PV → PV → Outcome Bool),
      commonCompare c [.resolved x] [.literal y] =
        (match matchValue c x y with
         | .ok v => .ok (.result [v]) | .err e => .err e | .panic s => .panic s | .outOfFuel => .outOfFuel) := by
    intro c
    simp only [commonCompare, hfx, hfy, unresolvedOf, List.map_nil, List.flatMap_nil, List.nil_append, mapMOutcome]
    cases matchValue c x y <;> simp [mapMOutcome]
  simp only [List.mem_cons, List.mem_nil_iff, or_false] at hop
  cases ho : Spec.order x y with
  | none =>
    have hc := hnone ho
    refine ⟨.cmp (.notComparable x y), ?_, ?_⟩
    · rcases hop with rfl | rfl | rfl | rfl <;> cases negated <;>
        simp [cmpCompare, opCompare, key, matchValue, compareLt, compareLe, compareGt, compareGe, cmpWith, hc,
          mapMOutcome, flipVER]
    · rcases hop with rfl | rfl | rfl | rfl <;>
        simp [Spec.binaryChecks, hsx, hsy, ho, Spec.chk, verOutcomes]
  | some o =>
    have hc := hsome o ho
    -- the operator's truth value on this ordering, then the polarity
    refine ⟨if (opTest op o != negated) then verSuccess x y else verFail x y, ?_, ?_⟩
    · rcases hop with rfl | rfl | rfl | rfl <;> cases negated <;> cases o <;>
        simp only [opTest, cmpCompare, opCompare, key, matchValue, compareLt, compareLe, compareGt,
          compareGe, cmpWith, hc, List.isEmpty_cons, Bool.or_self, Bool.false_eq_true, ↓reduceIte] <;> rfl
    · rcases hop with rfl | rfl | rfl | rfl <;> cases negated <;> cases o <;>
        simp only [opTest, Spec.binaryChecks, hsx, hsy, ho, Spec.chk, List.flatMap_cons, List.flatMap_nil,
          List.map_cons, List.map_nil, Option.map_some, List.append_nil] <;> rfl

/-! ### aggregation: Eval = Spec -/

/-- the clause quantifier of the model is the Spec's (`all`: every check, `some`: at least one) -/
theorem C01_quantifier_refines (all : Bool) (checks : List Bool) :
    clauseStatus all checks = Spec.quant all checks := by
  have h1 : checks.any (· == false) = !checks.all id := by
    induction checks with
    | nil => rfl
    | cons a as ih => simp only [List.any_cons, List.all_cons, id, ih]; cases a <;> simp
  have h2 : checks.any (· == true) = checks.any id := by
    clear h1
    induction checks with
    | nil => rfl
    | cons a as ih => simp only [List.any_cons, id, ih]; cases a <;> simp
  cases all
  · simp only [clauseStatus, Spec.quant, h2]; simp
  · simp only [clauseStatus, Spec.quant, h1]; cases checks.all id <;> simp

theorem any_beq_eq_contains (sts : List Status) (x : Status) : sts.any (· == x) = sts.contains x := by
  induction sts with
  | nil => rfl
  | cons a as ih =>
    rw [List.any_cons, List.contains_cons, ih]
    by_cases h : a = x
    · subst h; simp
    · have h1 : (a == x) = false := by simpa using h
      have h2 : (x == a) = false := by simpa using (fun e : x = a => h e.symm)
      rw [h1, h2]

/-- the body / file fold of the model is the Spec's three-valued fold -/
theorem C01_fold_refines (sts : List Status) : bodyStatus sts = Spec.fold3 sts := by
  simp only [bodyStatus, Spec.fold3, any_beq_eq_contains]

/-- `some` blocks -/
theorem C01_some_block_refines (sts : List Status) :
    someStatus sts = (if sts.contains .pass then .pass else if sts.contains .fail then .fail else .skip) := by
  simp only [someStatus, any_beq_eq_contains]

/-- named-rule clauses -/
theorem C01_named_refines (neg : Bool) (s : Status) :
    namedStatus neg s = (if (s == .pass) != neg then .pass else .fail) := by
  cases s <;> cases neg <;> rfl

/-- The end-to-end refinement on the core fragment, as a statement (proved layer-wise above,
    checked on every generated case by the judge; see DESIGN.md §5 C01). -/
def C01_refines_spec_statement : Prop :=
  ∀ (env : Env) (file : RulesFile) (doc : PV) (rs : List (Str × Status)) (s : Status),
    Spec.runFile env 4000 file doc = .ok (rs, s) →
    ∀ fuel t, runFile env fuel file doc = .ok (s, t) → ruleStatuses t = rs

-- Non-vacuity of the hypotheses
example : plainScalar (.int Path.root 5) = true ∧ plainScalar (.str Path.root "a".toList) = true := ⟨rfl, rfl⟩
example : allUnresolved [.unresolved ⟨.null Path.root, []⟩] := by
  intro q hq; simp at hq; exact ⟨_, hq⟩

end Guard.C01
