import Guard.Model.Eval
import Guard.Properties.C06
import Guard.Lemmas.FramesEval
/-
  C12 — evaluations are isolated: each (rules file, data file) pair stands alone.

  In the model a batch is a map of `runFile` over the pairs; `runFile` starts from `St.init rules doc`
  exactly where the Rust loops call `root_scope(..)` (validate.rs:718-725, structured.rs:108-118,
  reporters/mod.rs get_test_case, reporters/test/generic.rs:78-80, structured.rs:236-244), so nothing
  of an earlier pair can be seen by a later one.  The theorems say so; the weight of this property
  is on the tie (batches that share variable, rule and capture names, every order, files / directories
  / payload), which would expose a scope hoisted out of a loop or a cache keyed by name.
-/
set_option linter.unusedSimpArgs false
namespace Guard.C12
open Guard

/-- one pair, evaluated in the course of a batch with whatever state the batch has accumulated:
    the state is not an input -/
def runPair (_leftover : St) (env : Env) (fuel : Nat) (r : RulesFile) (d : PV) : Outcome (Status × Rec) :=
  runFile env fuel r d

def validateBatch (env : Env) (fuel : Nat) (rs : List RulesFile) (ds : List PV) :
    List (List (Outcome (Status × Rec))) :=
  rs.map fun r => ds.map fun d => runFile env fuel r d

/-- leftover state of earlier pairs is irrelevant -/
theorem C12_state_irrelevant (st₁ st₂ : St) (env : Env) (fuel : Nat) (r : RulesFile) (d : PV) :
    runPair st₁ env fuel r d = runPair st₂ env fuel r d := rfl

/-- every pair of a batch has exactly the result of validating that pair alone -/
theorem C12_pairwise (env : Env) (fuel : Nat) (rs : List RulesFile) (ds : List PV) (i j : Nat)
    (hi : i < rs.length) (hj : j < ds.length) :
    ((validateBatch env fuel rs ds)[i]?.bind (·[j]?)) = some (runFile env fuel rs[i] ds[j]) ∧
    validateBatch env fuel [rs[i]] [ds[j]] = [[runFile env fuel rs[i] ds[j]]] := by
  constructor
  · simp [validateBatch, hi, hj]
  · rfl

/-- the order in which files are given or walked permutes the results and changes none -/
theorem C12_order (env : Env) (fuel : Nat) (rs rs' : List RulesFile) (ds : List PV) (h : rs'.Perm rs) :
    (validateBatch env fuel rs' ds).Perm (validateBatch env fuel rs ds) :=
  h.map _

theorem C12_order_data (env : Env) (fuel : Nat) (r : RulesFile) (ds ds' : List PV) (h : ds'.Perm ds) :
    (ds'.map fun d => runFile env fuel r d).Perm (ds.map fun d => runFile env fuel r d) :=
  h.map _

/-- the run reports failure iff some pair does (plain mode; the other modes: C06) -/
theorem C12_fails_iff (files : List Cli.RuleFile) (he : C06.noEvalError files) (hp : C06.allParsed files) :
    Cli.validateExit .plain files = .code 19 ↔ ∃ f ∈ files, f.hasFail = true := by
  constructor
  · intro h
    apply Classical.byContradiction
    intro hn
    have hnf : C06.noFail files := by
      intro g hg; cases hh : g.hasFail
      · rfl
      · exact absurd ⟨g, hg, hh⟩ hn
    have := (C06.C06_validate_zero_plain files he).mpr ⟨hp, hnf⟩
    rw [this] at h
    exact absurd h (by decide)
  · intro h; exact C06.C06_validate_fail_plain files he hp h

/-- **no scope is left behind**: evaluating a whole rules file from ANY state (any scope stack, memo tables,
    records) leaves the scope stack as it found it — same frames, roots, variable tables and parameter
    bindings; so nothing a later evaluation could resolve against is carried over.  Proved through the
    whole fuel-indexed mutual evaluator (`allPres`). -/
theorem C12_scopes_restored (env : Env) (fuel : Nat) (file : RulesFile) (st st' : St) (s : Status)
    (h : evalRulesFile env fuel file st = .ok (s, st')) : FramesSim st.frames st'.frames := by
  have hp : Pres (evalRulesFile env fuel file) := by
    unfold evalRulesFile
    exact pres_withRec (pres_bind (pres_mapM (fun r => (allPres env fuel).rule r) _) (fun _ => pres_pure _))
  exact hp st s st' h

/-- every rule evaluation, taken alone, restores the stack and the current root -/
theorem C12_rule_leaves_no_scope (env : Env) (fuel : Nat) (r : Rule) (st st' : St) (s : Status)
    (h : evalRule env fuel r st = .ok (s, st')) :
    FramesSim st.frames st'.frames ∧ rootOfFrames st'.frames = rootOfFrames st.frames :=
  have hs := (allPres env fuel).rule r st s st' h
  ⟨hs, hs.root.symm⟩

/-- a whole-file evaluation started by `root_scope` ends with exactly the one root block scope it started with -/
theorem C12_init_stack (env : Env) (fuel : Nat) (file : RulesFile) (doc : PV) (st' : St) (s : Status)
    (h : evalRulesFile env fuel file (St.init file doc) = .ok (s, st')) :
    ∃ b, st'.frames = [.block b] ∧ b.root = doc := by
  have hs := C12_scopes_restored env fuel file _ st' s h
  simp only [St.init] at hs
  obtain ⟨g, gs, e, hg, hr⟩ := FramesSim.cons_inv hs
  cases gs with
  | cons _ _ => simp [FramesSim] at hr
  | nil =>
    cases g with
    | block b =>
      refine ⟨b, e, ?_⟩
      simp only [Frame.sim] at hg
      rw [← hg.1]
      -- the root of `extractVariables lets doc` is `doc`
      have : ∀ (lets : List LetExpr) (b0 : BlockFrame), (lets.foldl (fun b l =>
          match l.value with
          | .value v => { b with lits := alInsert l.var v b.lits }
          | .access q a => { b with queries := alInsert l.var (q, a) b.queries }
          | .func n ps => { b with funs := alInsert l.var (n, ps) b.funs }) b0).root = b0.root := by
        intro lets
        induction lets with
        | nil => intro b0; rfl
        | cons l ls ih =>
          intro b0
          simp only [List.foldl_cons]
          rw [ih]
          cases l.value <;> rfl
      exact this _ _
    | value r => simp [Frame.sim] at hg
    | params ps => simp [Frame.sim] at hg

end Guard.C12
