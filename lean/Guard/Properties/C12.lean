import Guard.Model.Eval
import Guard.Properties.C06
/-
  C12 — evaluations are isolated: each (rules file, data file) pair stands alone.

  In the model a batch is a map of `runFile` over the pairs; `runFile` starts from `St.init rules doc`
  exactly where the Rust loops call `root_scope(..)` (validate.rs:718-725, structured.rs:108-118,
  reporters/mod.rs get_test_case, reporters/test/generic.rs:78-80, structured.rs:236-244), so nothing
  of an earlier pair can be seen by a later one.  The theorems say so; the weight of this property
  is on the tie (batches that share variable, rule and capture names, every order, files / directories
  / payload), which would expose a scope hoisted out of a loop or a cache keyed by name.
-/
set_option linter.unusedSimpArgs false
namespace Guard.C12
open Guard

/-- one pair, evaluated in the course of a batch with whatever state the batch has accumulated:
    the state is not an input -/
def runPair (_leftover : St) (env : Env) (fuel : Nat) (r : RulesFile) (d : PV) : Outcome (Status × Rec) :=
  runFile env fuel r d

def validateBatch (env : Env) (fuel : Nat) (rs : List RulesFile) (ds : List PV) :
    List (List (Outcome (Status × Rec))) :=
  rs.map fun r => ds.map fun d => runFile env fuel r d

/-- leftover state of earlier pairs is irrelevant -/
theorem C12_state_irrelevant (st₁ st₂ : St) (env : Env) (fuel : Nat) (r : RulesFile) (d : PV) :
    runPair st₁ env fuel r d = runPair st₂ env fuel r d := rfl

/-- every pair of a batch has exactly the result of validating that pair alone -/
theorem C12_pairwise (env : Env) (fuel : Nat) (rs : List RulesFile) (ds : List PV) (i j : Nat)
    (hi : i < rs.length) (hj : j < ds.length) :
    ((validateBatch env fuel rs ds)[i]?.bind (·[j]?)) = some (runFile env fuel rs[i] ds[j]) ∧
    validateBatch env fuel [rs[i]] [ds[j]] = [[runFile env fuel rs[i] ds[j]]] := by
  constructor
  · simp [validateBatch, hi, hj]
  · rfl

/-- the order in which files are given or walked permutes the results and changes none -/
theorem C12_order (env : Env) (fuel : Nat) (rs rs' : List RulesFile) (ds : List PV) (h : rs'.Perm rs) :
    (validateBatch env fuel rs' ds).Perm (validateBatch env fuel rs ds) :=
  h.map _

theorem C12_order_data (env : Env) (fuel : Nat) (r : RulesFile) (ds ds' : List PV) (h : ds'.Perm ds) :
    (ds'.map fun d => runFile env fuel r d).Perm (ds.map fun d => runFile env fuel r d) :=
  h.map _

/-- the run reports failure iff some pair does (plain mode; the other modes: C06) -/
theorem C12_fails_iff (files : List Cli.RuleFile) (he : C06.noEvalError files) (hp : C06.allParsed files) :
    Cli.validateExit .plain files = .code 19 ↔ ∃ f ∈ files, f.hasFail = true := by
  constructor
  · intro h
    apply Classical.byContradiction
    intro hn
    have hnf : C06.noFail files := by
      intro g hg; cases hh : g.hasFail
      · rfl
      · exact absurd ⟨g, hg, hh⟩ hn
    have := (C06.C06_validate_zero_plain files he).mpr ⟨hp, hnf⟩
    rw [this] at h
    exact absurd h (by decide)
  · intro h; exact C06.C06_validate_fail_plain files he hp h

end Guard.C12
