import Guard.Gen.Sites
import Guard.Gen.Functions
import Guard.Properties.SitesBaseline
import Guard.Properties.C11
import Guard.Properties.C18
import Guard.Lemmas.FramesEval
/-
  C08 — no input crashes the tool; bad input is reported as an error.

  * The model is TOTAL: every function of `Guard.Model` is a total Lean function (no `partial`,
    structural recursion on fuel); a Rust panic inside a modelled function is an explicit
    `Outcome.panic site`, a stack overflow is `outOfFuel`.
  * `C08_panic_sites_covered` — a GENERATED obligation: every panic-capable construct
    (`unwrap`, `expect`, `unreachable!`, `panic!`, `unimplemented!`, `todo!`, slicing, indexing,
    narrowing casts, `exit`) found in the current source, per function, is in the reviewed baseline.
    A change that adds one makes this false.
  * Reachability lemmas for modelled sites: under what the parser guarantees the site is not reached.
  * Partial: the nom grammar and libyaml on arbitrary bytes are outside the model; the malformed-input
    stream runs every mutated input through validate / test / parse-tree / rulegen / run_checks and
    classifies exit status and signals (testing, labelled as such).
-/
set_option linter.unusedSimpArgs false
namespace Guard.C08
open Guard

def baseKey (s : String × String × String × Nat × String) : String × String × String × Nat := (s.1, s.2.1, s.2.2.1, s.2.2.2.1)

/-- every panic-capable site of the current source is a reviewed one -/
theorem C08_panic_sites_covered :
    (Gen.panicSites.all fun s => (Sites.panicBaseline.map baseKey).contains s) = true := by
  decide +kernel

/-- function arities in the source are what the argument indexing of the model assumes -/
theorem C08_function_arities :
    Gen.functions.map (fun f => (f.1, f.2.2)) =
      [("count", 1), ("join", 2), ("json_parse", 1), ("now", 0), ("parse_boolean", 1), ("parse_char", 1),
       ("parse_epoch", 1), ("parse_float", 1), ("parse_int", 1), ("parse_string", 1), ("regex_replace", 3),
       ("substring", 3), ("to_lower", 1), ("to_upper", 1), ("url_decode", 1)] := by
  decide

def arity : FunctionName → Nat
  | .count | .jsonParse | .parseBoolean | .parseChar | .parseEpoch | .parseFloat | .parseInt | .parseString
  | .toLower | .toUpper | .urlDecode => 1
  | .join => 2
  | .regexReplace | .substring => 3
  | .now => 0

theorem perValue_ne_panic (site : PanicSite) (f : PV → Outcome (Option PV)) (hf : ∀ v, f v ≠ .panic site) :
    ∀ a, perValue f a ≠ .panic site := by
  intro a
  induction a with
  | nil => simp [perValue]
  | cons q qs ih =>
    unfold perValue
    cases q with
    | unresolved u =>
      simp only
      cases h : perValue f qs <;> simp_all
    | literal v =>
      simp only
      have := hf v
      cases h1 : f v <;> simp_all
      cases h : perValue f qs <;> simp_all
    | resolved v =>
      simp only
      have := hf v
      cases h1 : f v <;> simp_all
      cases h : perValue f qs <;> simp_all

theorem joinGo_ne_panic (site : PanicSite) : ∀ a, joinFn.go a ≠ .panic site := by
  intro a
  induction a with
  | nil => simp [joinFn.go]
  | cons q qs ih =>
    unfold joinFn.go
    split
    · cases h : joinFn.go qs <;> simp_all
    · cases h : joinFn.go qs <;> simp_all
    · simp

theorem joinFn_ne_panic (site : PanicSite) (a : List QR) (d : Str) : joinFn a d ≠ .panic site := by
  unfold joinFn
  have := joinGo_ne_panic site a
  cases h : joinFn.go a <;> simp_all

theorem bind_ne_panic {α β} (site : PanicSite) (x : Outcome α) (f : α → Outcome β)
    (hx : x ≠ .panic site) (hf : ∀ a, f a ≠ .panic site) : (x >>= f) ≠ .panic site := by
  cases x with
  | ok a => exact hf a
  | err e => intro h; cases h
  | panic s => intro h; apply hx; cases h; rfl
  | outOfFuel => intro h; cases h

/-- **with the arity the parser enforces, a function call never indexes out of bounds** — whatever
    the argument result sets are, including EMPTY ones (fix 57f0017) -/
theorem C08_call_no_index_panic (env : Env) (name : FunctionName) (args : List (List QR))
    (h : args.length = arity name) : callFunction env name args ≠ .panic .functionArgIndex := by
  cases name <;> simp only [arity] at h
  case now => simp [callFunction]
  case count =>
    match args, h with
    | [a], _ => simp [callFunction]
  case join =>
    match args, h with
    | [a, b], _ =>
      cases b with
      | nil => intro h; simp [callFunction, Bind.bind, Outcome.bind] at h
      | cons d ds =>
        simp only [callFunction, List.getElem?_cons_zero, List.getElem?_cons_succ, C18.ok_bind]
        apply bind_ne_panic
        · split <;> simp
        · intro dl
          apply bind_ne_panic
          · exact joinFn_ne_panic _ _ _
          · intro r h; cases h
  case substring =>
    match args, h with
    | [a, b, c], _ =>
      cases b with
      | nil => intro h; simp [callFunction, Bind.bind, Outcome.bind] at h
      | cons d ds =>
        cases c with
        | nil => intro h; simp [callFunction, Bind.bind, Outcome.bind] at h
        | cons e es =>
          simp only [callFunction, List.getElem?_cons_zero, List.getElem?_cons_succ, C18.ok_bind]
          split
          · apply perValue_ne_panic
            intro v; split <;> simp
          · simp
  case regexReplace =>
    match args, h with
    | [a, b, c], _ =>
      simp only [callFunction, List.getElem?_cons_zero, List.getElem?_cons_succ, C18.ok_bind]
      apply bind_ne_panic
      · cases b with
        | nil => simp
        | cons d ds => simp only; split <;> simp_all
      · intro re
        apply bind_ne_panic
        · cases c with
          | nil => simp
          | cons d ds => simp only; split <;> simp_all
        · intro rep
          apply perValue_ne_panic
          intro v; split
          · split <;> simp
          · simp
  all_goals
    match args, h with
    | [a], _ =>
      simp only [callFunction, List.getElem?_cons_zero, C18.ok_bind]
      apply perValue_ne_panic
      intro v
      repeat' split
      all_goals simp

/-- **the scope-stack panic of `resolve_variable` is unreachable**: the model's `finish` step (the Rust code
    re-borrows the block scope it started in) pattern-matches the stack after the variable's query ran; by
    the stack discipline proved for the whole evaluator that match always succeeds, for every program,
    document, state and fuel. -/
theorem C08_variable_finish_never_fails (env : Env) (fuel : Nat) (q : List QueryPart) (root : PV) (nb : BlockFrame)
    (rest : List Frame) (st1 st' : St) (result : List QR) (h1 : st1.frames = Frame.block nb :: rest)
    (h : queryRetrieval env fuel 0 q root none st1 = .ok (result, st')) :
    ∃ b' rest', st'.frames = Frame.block b' :: rest' :=
  let ⟨b', rest', e, _, _⟩ := finish_shape env fuel q root nb rest st1 st' result h1 h
  ⟨b', rest', e⟩

/-- `resolver.root()` cannot fail after an evaluation step: the stack a step leaves has the root it started with -/
theorem C08_root_survives (env : Env) (fuel : Nat) (c : Clause) (st st' : St) (s : Status) (r : PV)
    (hr : rootOfFrames st.frames = some r) (h : evalClause env fuel c st = .ok (s, st')) :
    currentRoot st' = .ok (r, st') := by
  have hs := (allPres env fuel).clause c st s st' h
  unfold currentRoot
  rw [← hs.root, hr]

end Guard.C08
