import Guard.Model.Eval
import Guard.Lemmas.Monad
import Std.Data.String.ToNat
/-
  C10 — reported paths, values and positions point into the input document.

  Modelled: the `ptr` component of `Path` (the slash-separated pointer) as attached by the loader
  (`PV.ofPlain`, path_value.rs:359-478) and carried by the retrieval of the evaluator model.
  NOT modelled: the line/column component (libyaml marks); the judge checks those against the
  data file text (testing, labelled as such) — so C10 is `partial` for positions.

  * `Reach doc segs v`: `v` sits in `doc` at the pointer segments `segs` (struct key / decimal list
    index per segment); `resolve` is the executable pointer resolution and implies `Reach`;
  * `C10_load_paths`: every value that sits at `segs` in a loaded document carries exactly the
    pointer `/seg₁/seg₂/…` — for every document, of any size and depth;
  * `C10_plain_query_sound`: for every query made of keys, indices, `[*]`, `.*` and `this` (no
    variables, no filters), every fuel, scope state and case-conversion mode, every result of
    the evaluator's `queryRetrieval` — resolved or unresolved — is a value IN the document, hence
    (with `C10_load_paths`) its reported path resolves to it; literals are never produced;
  * `C10_retrieveIndex`, `C10_missing_key`: an unresolved step stops AT an in-document value and
    the next segment does not exist there.
-/
set_option linter.unusedSimpArgs false
set_option linter.unusedVariables false
namespace Guard.C10
open Guard

/-! ### pointers -/

/-- one pointer segment: a key of a struct, or the decimal index of a list element -/
def StepR (v : PV) (s : Str) (w : PV) : Prop :=
  match v with
  | .map _ ks vs => ∃ p, ((p, s), w) ∈ ks.zip vs
  | .list _ xs => ∃ i : Nat, (toString i).toList = s ∧ xs[i]? = some w
  | _ => False

def Reach : PV → List Str → PV → Prop
  | doc, [], v => v = doc
  | doc, s :: ss, v => ∃ w, StepR doc s w ∧ Reach w ss v

def ptrOf (base : Str) (segs : List Str) : Str := segs.foldl (fun acc s => acc ++ '/' :: s) base

theorem ptrOf_cons (base : Str) (s : Str) (ss : List Str) : ptrOf base (s :: ss) = ptrOf (base ++ '/' :: s) ss := rfl

/-- executable pointer resolution (first entry of a key, like `map.values.get`) -/
def nthBySeg : List PV → Nat → Str → Option PV
  | [], _, _ => none
  | x :: rest, i, seg => if (toString i).toList = seg then some x else nthBySeg rest (i + 1) seg

def stepSeg (v : PV) (seg : Str) : Option PV :=
  match v with
  | .map _ ks vs => PV.lookupKV ks vs seg
  | .list _ xs => nthBySeg xs 0 seg
  | _ => none

def resolve (v : PV) : List Str → Option PV
  | [] => some v
  | s :: ss => match stepSeg v s with
    | some w => resolve w ss
    | none => none

theorem nthBySeg_some (xs : List PV) (i : Nat) (seg : Str) (w : PV) :
    nthBySeg xs i seg = some w → ∃ j, (toString (i + j)).toList = seg ∧ xs[j]? = some w := by
  induction xs generalizing i with
  | nil => simp [nthBySeg]
  | cons x rest ih =>
    simp only [nthBySeg]
    split
    · rename_i hs
      intro h; exact ⟨0, by simpa using hs, by simpa using h⟩
    · intro h
      obtain ⟨j, hj, e⟩ := ih (i + 1) h
      exact ⟨j + 1, by rw [← hj]; congr 2; omega, by simpa using e⟩

theorem lookupKV_mem (ks : List (Path × Str)) (vs : List PV) (k : Str) (w : PV) :
    PV.lookupKV ks vs k = some w → ∃ p, ((p, k), w) ∈ ks.zip vs := by
  induction ks generalizing vs with
  | nil => simp [PV.lookupKV]
  | cons pk ks ih =>
    obtain ⟨p, k'⟩ := pk
    cases vs with
    | nil => simp [PV.lookupKV]
    | cons v vs =>
      simp only [PV.lookupKV]
      split
      · rename_i hk
        intro h; simp at h
        exact ⟨p, by simp [hk, h]⟩
      · intro h
        obtain ⟨q, hq⟩ := ih vs h
        exact ⟨q, by simp [hq]⟩

theorem stepSeg_StepR {v w : PV} {s : Str} (h : stepSeg v s = some w) : StepR v s w := by
  cases v <;> simp only [stepSeg] at h <;> try cases h
  case list p xs =>
    obtain ⟨j, hj, e⟩ := nthBySeg_some xs 0 s w h
    exact ⟨j, by simpa using hj, e⟩
  case map p ks vs => exact lookupKV_mem ks vs s w h

/-- what the executable resolution finds sits there -/
theorem resolve_reach (doc : PV) (segs : List Str) (v : PV) (h : resolve doc segs = some v) : Reach doc segs v := by
  induction segs generalizing doc with
  | nil => simp [resolve] at h; exact h.symm
  | cons s ss ih =>
    simp only [resolve] at h
    split at h
    · rename_i w hw; exact ⟨w, stepSeg_StepR hw, ih w h⟩
    · cases h

/-! ### load paths -/

theorem zip_ofPlainVals (ks : List Str) (vs : List Plain) (p : Path) (q : Path) (key : Str) (w : PV) :
    ((q, key), w) ∈ (ks.map fun k => (p.extendStr k, k)).zip (PV.ofPlainVals ks vs p) →
    ∃ x, x ∈ vs ∧ w = PV.ofPlain x (p.extendStr key) := by
  induction ks generalizing vs with
  | nil => simp
  | cons k ks ih =>
    cases vs with
    | nil => simp [PV.ofPlainVals]
    | cons x xs =>
      simp only [List.map_cons, PV.ofPlainVals, List.zip_cons_cons, List.mem_cons, Prod.mk.injEq]
      rintro (⟨⟨_, hk⟩, hw⟩ | h)
      · exact ⟨x, by simp, by rw [hw, hk]⟩
      · obtain ⟨y, hy, e⟩ := ih xs h
        exact ⟨y, by simp [hy], e⟩

theorem getElem_ofPlainList (xs : List Plain) (p : Path) (i j : Nat) (w : PV) :
    (PV.ofPlainList xs p i)[j]? = some w → ∃ x, x ∈ xs ∧ w = PV.ofPlain x (p.extendNat (i + j)) := by
  induction xs generalizing i j with
  | nil => simp [PV.ofPlainList]
  | cons x xs ih =>
    cases j with
    | zero =>
      simp only [PV.ofPlainList, List.getElem?_cons_zero, Option.some.injEq, Nat.add_zero]
      intro h; exact ⟨x, by simp, h.symm⟩
    | succ j =>
      simp only [PV.ofPlainList, List.getElem?_cons_succ]
      intro h
      obtain ⟨y, hy, e⟩ := ih (i + 1) j h
      refine ⟨y, by simp [hy], ?_⟩
      rw [e]; congr 2; omega

theorem ofPlain_path (x : Plain) (p : Path) : (PV.ofPlain x p).path = p := by
  cases x <;> simp [PV.ofPlain, PV.path]

/-- **load paths**: whatever sits at `segs` in a loaded document carries the pointer
    `base/seg₁/seg₂/…` — the path recorded on a value leads, in the document, to that value. -/
theorem C10_load_paths (x : Plain) : ∀ (p : Path) (segs : List Str) (v : PV),
    Reach (PV.ofPlain x p) segs v → v.path.ptr = ptrOf p.ptr segs := by
  intro p segs v h
  cases segs with
  | nil =>
    simp only [Reach] at h
    rw [h, ofPlain_path]; rfl
  | cons s ss =>
    obtain ⟨w, hw, hr⟩ := h
    cases x with
    | list xs =>
      simp only [PV.ofPlain, StepR] at hw
      obtain ⟨i, hs, hi⟩ := hw
      obtain ⟨y, hy, e⟩ := getElem_ofPlainList xs p 0 i w hi
      have hlt : sizeOf y < sizeOf (Plain.list xs) := by
        have := List.sizeOf_lt_of_mem hy
        simp only [Plain.list.sizeOf_spec]; omega
      rw [e] at hr
      have := C10_load_paths y (p.extendNat (0 + i)) ss v hr
      rw [this, ptrOf_cons, ← hs]; simp [Path.extendNat, Path.extendStr]
    | map ks vs =>
      simp only [PV.ofPlain, StepR] at hw
      obtain ⟨q, hq⟩ := hw
      obtain ⟨y, hy, e⟩ := zip_ofPlainVals ks vs p q s w hq
      have hlt : sizeOf y < sizeOf (Plain.map ks vs) := by
        have := List.sizeOf_lt_of_mem hy
        simp only [Plain.map.sizeOf_spec]; omega
      rw [e] at hr
      have := C10_load_paths y (p.extendStr s) ss v hr
      rw [this, ptrOf_cons]; simp [Path.extendStr]
    | _ => simp [PV.ofPlain, StepR] at hw
termination_by sizeOf x

/-! ### the retrieval of the evaluator stays inside the document -/

/-- `v` is a value OF the document: it sits at some pointer -/
def InDoc (doc v : PV) : Prop := ∃ segs, Reach doc segs v

theorem reach_append (doc : PV) (a b : List Str) (v w : PV) (h : Reach doc a v) (hb : Reach v b w) :
    Reach doc (a ++ b) w := by
  induction a generalizing doc with
  | nil => simp only [Reach] at h; subst h; simpa using hb
  | cons s ss ih =>
    obtain ⟨u, hu, hr⟩ := h
    exact ⟨u, hu, ih u hr⟩

theorem InDoc.refl (doc : PV) : InDoc doc doc := ⟨[], rfl⟩

theorem InDoc.step {doc v w : PV} {s : Str} (h : InDoc doc v) (hs : StepR v s w) : InDoc doc w := by
  obtain ⟨segs, e⟩ := h
  exact ⟨segs ++ [s], reach_append doc segs [s] v w e ⟨w, hs, rfl⟩⟩

/-- struct lookup (`.key`, key filters): the value found is the document value one key further -/
theorem C10_key_step {doc : PV} {p : Path} {ks : List (Path × Str)} {vs : List PV} {k : Str} {w : PV}
    (h : InDoc doc (.map p ks vs)) (hk : PV.lookupKV ks vs k = some w) : InDoc doc w :=
  h.step (s := k) (lookupKV_mem ks vs k w hk)

/-- every value of a struct (`.*`, `[*]` on structs, `accumulate_map`) -/
theorem C10_value_step {doc : PV} {p : Path} {ks : List (Path × Str)} {vs : List PV} {q : Path} {k : Str} {w : PV}
    (h : InDoc doc (.map p ks vs)) (hm : ((q, k), w) ∈ ks.zip vs) : InDoc doc w :=
  h.step (s := k) ⟨q, hm⟩

/-- list elements (`[i]`, `[*]`, filters over lists): element `i` is the document value at `/i` -/
theorem C10_elem_step {doc : PV} {p : Path} {xs : List PV} {i : Nat} {w : PV}
    (h : InDoc doc (.list p xs)) (hi : xs[i]? = some w) : InDoc doc w :=
  h.step (s := (toString i).toList) ⟨i, rfl, hi⟩

theorem C10_mem_step {doc : PV} {p : Path} {xs : List PV} {w : PV}
    (h : InDoc doc (.list p xs)) (hm : w ∈ xs) : InDoc doc w := by
  obtain ⟨i, hi, e⟩ := List.getElem_of_mem hm
  exact C10_elem_step h (by rw [List.getElem?_eq_getElem hi, e])

/-- `retrieve_index`: the result is the element of the document, or it stops AT the list and the
    index does not exist in it -/
theorem C10_retrieveIndex {doc : PV} {p : Path} {xs : List PV} (idx : Int) (q : List QueryPart)
    (h : InDoc doc (.list p xs)) :
    (∃ w, retrieveIndex (.list p xs) idx xs q = .resolved w ∧ InDoc doc w ∧ xs[idx.natAbs]? = some w) ∨
    (∃ u, retrieveIndex (.list p xs) idx xs q = .unresolved u ∧ u.traversedTo = .list p xs ∧ xs[idx.natAbs]? = none) := by
  cases e : xs[idx.natAbs]? with
  | some w => exact .inl ⟨w, by simp [retrieveIndex, e], C10_elem_step h e, rfl⟩
  | none => exact .inr ⟨_, by simp [retrieveIndex, e, unresolvedAt]; rfl, rfl, rfl⟩

/-- a key that is not in the struct: the result stops at the struct, which is in the document,
    and the next segment does not resolve -/
theorem C10_missing_key {doc : PV} {p : Path} {ks : List (Path × Str)} {vs : List PV} (k : Str)
    (h : InDoc doc (.map p ks vs)) (hk : PV.lookupKV ks vs k = none) :
    InDoc doc (.map p ks vs) ∧ stepSeg (.map p ks vs) k = none := ⟨h, by simpa [stepSeg] using hk⟩

/-- everything in a loaded document carries its own pointer -/
theorem C10_reported_path_resolves (x : Plain) (v : PV) (h : InDoc (PV.ofPlain x Path.root) v) :
    ∃ segs, Reach (PV.ofPlain x Path.root) segs v ∧ v.path.ptr = ptrOf [] segs := by
  obtain ⟨segs, e⟩ := h
  exact ⟨segs, e, C10_load_paths x Path.root segs v e⟩

/-! ### whole queries: keys, indices, `[*]`, `.*`, `this` -/

/-- the query parts of a variable-free, filter-free query -/
def plainPart : QueryPart → Bool
  | .this => true
  | .key k => !(QueryPart.key k).isVariable
  | .index _ => true
  | .allIndices none => true
  | .allValues none => true
  | _ => false

def QROk (doc : PV) : QR → Prop
  | .resolved v => InDoc doc v
  | .unresolved u => InDoc doc u.traversedTo
  | .literal _ => False

theorem leaf_pure {doc : PV} {x : QR} {st st' : St} {res : List QR}
    (h : (pure [x] : M (List QR)) st = .ok (res, st')) (hx : QROk doc x) : ∀ r ∈ res, QROk doc r := by
  obtain ⟨rfl, _⟩ := M.pure_ok h
  simpa using hx

theorem withValueScope_ok {α} {root : PV} {act : M α} {st st' : St} {r : α}
    (h : withValueScope root act st = .ok (r, st')) : ∃ s1 s2, act s1 = .ok (r, s2) := by
  unfold withValueScope at h
  obtain ⟨_, s1, _, h2⟩ := M.bind_ok h
  obtain ⟨r', s2, h3, h4⟩ := M.bind_ok h2
  obtain ⟨_, s3, _, h6⟩ := M.bind_ok h4
  obtain ⟨rfl, _⟩ := M.pure_ok h6
  exact ⟨s1, s2, h3⟩

theorem accumulateMap_ok {P : QR → Prop} {parent : PV} {ks : List (Path × Str)} {vs : List PV} {qi : Nat}
    {query : List QueryPart} {func : PV → PV → M (List QR)} {st st' : St} {res : List QR}
    (hparent : P (unresolvedAt parent (query.drop qi)))
    (hf : ∀ q k each, ((q, k), each) ∈ ks.zip vs → ∀ s r s', func (PV.str q k) each s = .ok (r, s') → ∀ x ∈ r, P x)
    (h : accumulateMap parent ks vs qi query func st = .ok (res, st')) : ∀ r ∈ res, P r := by
  unfold accumulateMap at h
  split at h
  · obtain ⟨rfl, _⟩ := M.pure_ok h; simpa using hparent
  · obtain ⟨rows, s1, h1, h2⟩ := M.bind_ok h
    obtain ⟨rfl, _⟩ := M.pure_ok h2
    refine M.mapM_flatten_all P _ (ks.zip vs) ?_ st rows s1 h1
    rintro ⟨⟨q, k⟩, each⟩ hm s r s' hr
    obtain ⟨s2, s3, hr'⟩ := withValueScope_ok hr
    exact hf q k each hm s2 r s3 hr'

theorem plain_sound (env : Env) (doc : PV) : ∀ fuel,
  (∀ qi query current conv st res st', query.all plainPart = true → InDoc doc current →
     queryRetrieval env fuel qi query current conv st = .ok (res, st') → ∀ r ∈ res, QROk doc r) ∧
  (∀ parent qi query elements conv st res st', query.all plainPart = true → InDoc doc parent → (∀ e ∈ elements, InDoc doc e) →
     accumulate env fuel parent qi query elements conv st = .ok (res, st') → ∀ r ∈ res, QROk doc r) := by
  intro fuel
  induction fuel with
  | zero =>
    constructor
    · intro qi query current conv st res st' _ _ h; simp [queryRetrieval, outOfFuel] at h
    · intro parent qi query elements conv st res st' _ _ _ h; simp [accumulate, outOfFuel] at h
  | succ fuel ih =>
    obtain ⟨ihQ, ihA⟩ := ih
    constructor
    · intro qi query current conv st res st' hp hc h
      simp only [queryRetrieval] at h
      cases hq : query[qi]? with
      | none =>
        rw [hq] at h; simp only at h
        exact leaf_pure h hc
      | some part =>
        rw [hq] at h; simp only at h
        have hpp : plainPart part = true := List.all_eq_true.mp hp part (List.mem_of_getElem? hq)
        have hv : part.isVariable = false := by
          cases part <;> simp_all [plainPart, QueryPart.isVariable, QueryPart.variable]
        simp only [hv, Bool.and_false, Bool.false_eq_true, ↓reduceIte] at h
        cases part with
        | this => exact ihQ _ _ _ _ _ _ _ hp hc h
        | key key =>
          simp only at h
          cases hk : parseI32 key with
          | some idx =>
            rw [hk] at h; simp only at h
            cases current with
            | list p xs =>
              simp only at h
              rcases C10_retrieveIndex idx query hc with ⟨w, e, hw, _⟩ | ⟨u, e, hu, _⟩
              · rw [e] at h; exact ihQ _ _ _ _ _ _ _ hp hw h
              · rw [e] at h; simp only at h
                exact leaf_pure h (by simp [QROk, hu]; exact hc)
            | _ => exact leaf_pure h hc
          | none =>
            rw [hk] at h; simp only at h
            cases current with
            | map p ks vs =>
              simp only [hv, Bool.false_eq_true, ↓reduceIte] at h
              cases h1 : PV.lookupKV ks vs key with
              | some val => rw [h1] at h; exact ihQ _ _ _ _ _ _ _ hp (C10_key_step hc h1) h
              | none =>
                rw [h1] at h; simp only at h
                cases conv with
                | some c =>
                  simp only at h
                  cases h2 : PV.lookupKV ks vs (env.caseConv c key) with
                  | some val => rw [h2] at h; exact ihQ _ _ _ _ _ _ _ hp (C10_key_step hc h2) h
                  | none => rw [h2] at h; exact leaf_pure h hc
                | none =>
                  simp only at h
                  cases h3 : (List.range 7).find? (fun c => (PV.lookupKV ks vs (env.caseConv c key)).isSome) with
                  | some c =>
                    rw [h3] at h; simp only at h
                    cases h2 : PV.lookupKV ks vs (env.caseConv c key) with
                    | some val => rw [h2] at h; exact ihQ _ _ _ _ _ _ _ hp (C10_key_step hc h2) h
                    | none => rw [h2] at h; exact leaf_pure h hc
                  | none => rw [h3] at h; exact leaf_pure h hc
            | _ => exact leaf_pure h hc
        | index index =>
          simp only at h
          cases current with
          | list p xs =>
            simp only at h
            rcases C10_retrieveIndex index query hc with ⟨w, e, hw, _⟩ | ⟨u, e, hu, _⟩
            · rw [e] at h; exact ihQ _ _ _ _ _ _ _ hp hw h
            · rw [e] at h; simp only at h
              exact leaf_pure h (by simp [QROk, hu]; exact hc)
          | _ => exact leaf_pure h hc
        | allIndices name =>
          cases name with
          | some n => simp [plainPart] at hpp
          | none =>
            simp only at h
            cases current with
            | list p xs => exact ihA _ _ _ _ _ _ _ _ hp hc (fun e he => C10_mem_step hc he) h
            | map p ks vs => exact ihQ _ _ _ _ _ _ _ hp hc h
            | _ => exact ihQ _ _ _ _ _ _ _ hp hc h
        | allValues name =>
          cases name with
          | some n => simp [plainPart] at hpp
          | none =>
            simp only at h
            cases current with
            | list p xs => exact ihA _ _ _ _ _ _ _ _ hp hc (fun e he => C10_mem_step hc he) h
            | map p ks vs =>
              simp only at h
              refine accumulateMap_ok (P := QROk doc) hc ?_ h
              intro q k each hm s r s' hr
              exact ihQ _ _ _ _ _ _ _ hp (C10_value_step hc hm) hr
            | _ => exact ihQ _ _ _ _ _ _ _ hp hc h
        | mapKeyFilter _ _ _ _ => simp [plainPart] at hpp
        | filter _ _ => simp [plainPart] at hpp
    · intro parent qi query elements conv st res st' hp hc he h
      simp only [accumulate] at h
      split at h
      · exact leaf_pure h hc
      · obtain ⟨rows, s1, h1, h2⟩ := M.bind_ok h
        obtain ⟨rfl, _⟩ := M.pure_ok h2
        refine M.mapM_flatten_all (QROk doc) _ elements ?_ st rows s1 h1
        intro a ha s r s' hr
        exact ihQ _ _ _ _ _ _ _ hp (he a ha) hr

/-- variable-free query parts: the plain ones, `[*]` / `.*` with a key-capture name, and FILTERS with any
    content (the filter's clauses may use variables, functions, anything: they only select) -/
def vfPart : QueryPart → Bool
  | .this => true
  | .key k => !(QueryPart.key k).isVariable
  | .index _ => true
  | .allIndices _ => true
  | .allValues _ => true
  | .filter _ _ => true
  | .mapKeyFilter _ _ _ _ => false

theorem vfPart_not_var {p : QueryPart} (h : vfPart p = true) : p.isVariable = false := by
  cases p <;> simp_all [vfPart, QueryPart.isVariable, QueryPart.variable]

set_option maxHeartbeats 1600000 in
theorem vf_sound (env : Env) (doc : PV) : ∀ fuel,
  (∀ qi query current conv st res st', query.all vfPart = true → InDoc doc current →
     queryRetrieval env fuel qi query current conv st = .ok (res, st') → ∀ r ∈ res, QROk doc r) ∧
  (∀ parent qi query elements conv st res st', query.all vfPart = true → InDoc doc parent → (∀ e ∈ elements, InDoc doc e) →
     accumulate env fuel parent qi query elements conv st = .ok (res, st') → ∀ r ∈ res, QROk doc r) ∧
  (∀ cnf name index query key value conv st res st', query.all vfPart = true → InDoc doc value →
     checkAndDelegate env fuel cnf name index query key value conv st = .ok (res, st') → ∀ r ∈ res, QROk doc r) := by
  intro fuel
  induction fuel with
  | zero =>
    refine ⟨?_, ?_, ?_⟩
    · intro qi query current conv st res st' _ _ h; simp [queryRetrieval, outOfFuel] at h
    · intro parent qi query elements conv st res st' _ _ _ h; simp [accumulate, outOfFuel] at h
    · intro cnf name index query key value conv st res st' _ _ h; simp [checkAndDelegate, outOfFuel] at h
  | succ fuel ih =>
    obtain ⟨ihQ, ihA, ihC⟩ := ih
    refine ⟨?_, ?_, ?_⟩
    · intro qi query current conv st res st' hp hc h
      simp only [queryRetrieval] at h
      cases hq : query[qi]? with
      | none =>
        rw [hq] at h; simp only at h
        exact leaf_pure h hc
      | some part =>
        rw [hq] at h; simp only at h
        have hpp : vfPart part = true := List.all_eq_true.mp hp part (List.mem_of_getElem? hq)
        have hv : part.isVariable = false := vfPart_not_var hpp
        simp only [hv, Bool.and_false, Bool.false_eq_true, ↓reduceIte] at h
        cases part with
        | this => exact ihQ _ _ _ _ _ _ _ hp hc h
        | key key =>
          simp only at h
          cases hk : parseI32 key with
          | some idx =>
            rw [hk] at h; simp only at h
            cases current with
            | list p xs =>
              simp only at h
              rcases C10_retrieveIndex idx query hc with ⟨w, e, hw, _⟩ | ⟨u, e, hu, _⟩
              · rw [e] at h; exact ihQ _ _ _ _ _ _ _ hp hw h
              · rw [e] at h; simp only at h
                exact leaf_pure h (by simp [QROk, hu]; exact hc)
            | _ => exact leaf_pure h hc
          | none =>
            rw [hk] at h; simp only at h
            cases current with
            | map p ks vs =>
              simp only [hv, Bool.false_eq_true, ↓reduceIte] at h
              cases h1 : PV.lookupKV ks vs key with
              | some val => rw [h1] at h; exact ihQ _ _ _ _ _ _ _ hp (C10_key_step hc h1) h
              | none =>
                rw [h1] at h; simp only at h
                cases conv with
                | some c =>
                  simp only at h
                  cases h2 : PV.lookupKV ks vs (env.caseConv c key) with
                  | some val => rw [h2] at h; exact ihQ _ _ _ _ _ _ _ hp (C10_key_step hc h2) h
                  | none => rw [h2] at h; exact leaf_pure h hc
                | none =>
                  simp only at h
                  cases h3 : (List.range 7).find? (fun c => (PV.lookupKV ks vs (env.caseConv c key)).isSome) with
                  | some c =>
                    rw [h3] at h; simp only at h
                    cases h2 : PV.lookupKV ks vs (env.caseConv c key) with
                    | some val => rw [h2] at h; exact ihQ _ _ _ _ _ _ _ hp (C10_key_step hc h2) h
                    | none => rw [h2] at h; exact leaf_pure h hc
                  | none => rw [h3] at h; exact leaf_pure h hc
            | _ => exact leaf_pure h hc
        | index index =>
          simp only at h
          cases current with
          | list p xs =>
            simp only at h
            rcases C10_retrieveIndex index query hc with ⟨w, e, hw, _⟩ | ⟨u, e, hu, _⟩
            · rw [e] at h; exact ihQ _ _ _ _ _ _ _ hp hw h
            · rw [e] at h; simp only at h
              exact leaf_pure h (by simp [QROk, hu]; exact hc)
          | _ => exact leaf_pure h hc
        | allIndices name =>
          cases name with
          | some n =>
            simp only at h
            cases current with
            | list p xs => exact ihA _ _ _ _ _ _ _ _ hp hc (fun e he => C10_mem_step hc he) h
            | map p ks vs =>
              simp only at h
              refine accumulateMap_ok (P := QROk doc) hc ?_ h
              intro q k each hm s r s' hr
              obtain ⟨_, s1, _, h2⟩ := M.bind_ok hr
              exact ihQ _ _ _ _ _ _ _ hp (C10_value_step hc hm) h2
            | _ => exact ihQ _ _ _ _ _ _ _ hp hc h
          | none =>
            simp only at h
            cases current with
            | list p xs => exact ihA _ _ _ _ _ _ _ _ hp hc (fun e he => C10_mem_step hc he) h
            | map p ks vs => exact ihQ _ _ _ _ _ _ _ hp hc h
            | _ => exact ihQ _ _ _ _ _ _ _ hp hc h
        | allValues name =>
          simp only at h
          cases current with
          | list p xs => exact ihA _ _ _ _ _ _ _ _ hp hc (fun e he => C10_mem_step hc he) h
          | map p ks vs =>
            simp only at h
            refine accumulateMap_ok (P := QROk doc) hc ?_ h
            intro q k each hm s r s' hr
            cases name with
            | some n =>
              obtain ⟨_, s1, _, h2⟩ := M.bind_ok hr
              exact ihQ _ _ _ _ _ _ _ hp (C10_value_step hc hm) h2
            | none => exact ihQ _ _ _ _ _ _ _ hp (C10_value_step hc hm) hr
          | _ => exact ihQ _ _ _ _ _ _ _ hp hc h
        | mapKeyFilter _ _ _ _ => simp [vfPart] at hpp
        | filter name cnf =>
          simp only at h
          cases current with
          | map p ks vs =>
            simp only at h
            by_cases hq0 : (qi == 0) = true
            · simp only [hq0, ↓reduceIte] at h; cases h
            · simp only [hq0, Bool.false_eq_true, ↓reduceIte] at h
              have hother : withValueScope (PV.map p ks vs)
                  (checkAndDelegate env fuel cnf none (qi + 1) query (PV.map p ks vs) (PV.map p ks vs) conv) st = .ok (res, st') →
                  ∀ r ∈ res, QROk doc r := by
                intro h
                obtain ⟨s1, s2, h'⟩ := withValueScope_ok h
                exact ihC _ _ _ _ _ _ _ _ _ _ hp hc h'
              cases hprev : query[qi - 1]? with
              | none => rw [hprev] at h; exact hother h
              | some pp =>
                rw [hprev] at h
                cases pp with
                | key kk =>
                  simp only at h
                  by_cases hve : (!vs.isEmpty) = true
                  · simp only [hve, ↓reduceIte] at h
                    refine accumulateMap_ok (P := QROk doc) hc ?_ h
                    intro q k each hm s r s' hr
                    exact ihC _ _ _ _ _ _ _ _ _ _ hp (C10_value_step hc hm) hr
                  · simp only [hve, Bool.false_eq_true, ↓reduceIte] at h
                    obtain ⟨rfl, _⟩ := M.pure_ok h
                    intro r hr; simp at hr
                | this => exact hother h
                | index _ => exact hother h
                | allIndices _ => exact hother h
                | allValues _ => exact hother h
                | filter _ _ => exact hother h
                | mapKeyFilter _ _ _ _ => exact hother h
          | list p xs =>
            simp only at h
            obtain ⟨rows, s1, h1, h2⟩ := M.bind_ok h
            obtain ⟨rfl, _⟩ := M.pure_ok h2
            refine M.mapM_flatten_all (QROk doc) _ xs ?_ st rows s1 h1
            intro a ha s r s' hr
            obtain ⟨status, s2, _, h4⟩ := M.bind_ok hr
            cases status with
            | pass => exact ihQ _ _ _ _ _ _ _ hp (C10_mem_step hc ha) h4
            | fail => obtain ⟨rfl, _⟩ := M.pure_ok h4; intro r hr; simp at hr
            | skip => obtain ⟨rfl, _⟩ := M.pure_ok h4; intro r hr; simp at hr
          | _ =>
            simp only at h
            by_cases hq0 : (qi == 0) = true
            · simp only [hq0, ↓reduceIte] at h; cases h
            · simp only [hq0, Bool.false_eq_true, ↓reduceIte] at h
              cases hprev : query[qi - 1]? with
              | none => rw [hprev] at h; exact leaf_pure h hc
              | some pp =>
                rw [hprev] at h
                cases pp with
                | allIndices _ =>
                  simp only at h
                  obtain ⟨status, s2, _, h4⟩ := M.bind_ok h
                  cases status with
                  | pass => exact ihQ _ _ _ _ _ _ _ hp hc h4
                  | fail => obtain ⟨rfl, _⟩ := M.pure_ok h4; intro r hr; simp at hr
                  | skip => obtain ⟨rfl, _⟩ := M.pure_ok h4; intro r hr; simp at hr
                | this => exact leaf_pure h hc
                | key _ => exact leaf_pure h hc
                | index _ => exact leaf_pure h hc
                | allValues _ => exact leaf_pure h hc
                | filter _ _ => exact leaf_pure h hc
                | mapKeyFilter _ _ _ _ => exact leaf_pure h hc
    · intro parent qi query elements conv st res st' hp hc he h
      simp only [accumulate] at h
      split at h
      · exact leaf_pure h hc
      · obtain ⟨rows, s1, h1, h2⟩ := M.bind_ok h
        obtain ⟨rfl, _⟩ := M.pure_ok h2
        refine M.mapM_flatten_all (QROk doc) _ elements ?_ st rows s1 h1
        intro a ha s r s' hr
        exact ihQ _ _ _ _ _ _ _ hp (he a ha) hr
    · intro cnf name index query key value conv st res st' hp hv h
      simp only [checkAndDelegate] at h
      obtain ⟨status, s1, _, h2⟩ := M.bind_ok h
      cases name with
      | none =>
        cases status with
        | pass => exact ihQ _ _ _ _ _ _ _ hp hv h2
        | fail => obtain ⟨rfl, _⟩ := M.pure_ok h2; intro r hr; simp at hr
        | skip => obtain ⟨rfl, _⟩ := M.pure_ok h2; intro r hr; simp at hr
      | some n =>
        cases status with
        | pass =>
          simp only [beq_self_eq_true, ↓reduceIte] at h2
          obtain ⟨_, s2, _, h4⟩ := M.bind_ok h2
          exact ihQ _ _ _ _ _ _ _ hp hv h4
        | fail =>
          have : (Status.fail == Status.pass) = false := rfl
          simp only [this, Bool.false_eq_true, ↓reduceIte] at h2
          obtain ⟨rfl, _⟩ := M.pure_ok h2; intro r hr; simp at hr
        | skip =>
          have : (Status.skip == Status.pass) = false := rfl
          simp only [this, Bool.false_eq_true, ↓reduceIte] at h2
          obtain ⟨rfl, _⟩ := M.pure_ok h2; intro r hr; simp at hr

/-- **plain queries are sound**: whatever `queryRetrieval` returns for a query made of keys,
    indices, `[*]`, `.*` and `this` on a loaded document — for every fuel, scope state and
    case-conversion mode — each resolved value and each value an unresolved result stopped at
    sits in the document at the pointer it carries; no literal is produced. -/
theorem C10_plain_query_sound (env : Env) (x : Plain) (fuel : Nat) (query : List QueryPart)
    (hq : query.all plainPart = true) (conv : Option Nat) (st st' : St) (res : List QR)
    (h : queryRetrieval env fuel 0 query (PV.ofPlain x Path.root) conv st = .ok (res, st')) :
    ∀ r ∈ res, match r with
      | .resolved v => ∃ segs, Reach (PV.ofPlain x Path.root) segs v ∧ v.path.ptr = ptrOf [] segs
      | .unresolved u => ∃ segs, Reach (PV.ofPlain x Path.root) segs u.traversedTo ∧ u.traversedTo.path.ptr = ptrOf [] segs
      | .literal _ => False := by
  intro r hr
  have := (plain_sound env (PV.ofPlain x Path.root) fuel).1 0 query _ conv st res st' hq (InDoc.refl _) h r hr
  cases r with
  | resolved v => exact C10_reported_path_resolves x v this
  | unresolved u => exact C10_reported_path_resolves x u.traversedTo this
  | literal v => exact this

/-- **queries with filters are sound**: whatever `queryRetrieval` returns for a query made of keys, indices,
    `[*]`, `.*` (with or without key capture), `this` and FILTERS OF ANY CONTENT on a loaded document — for every
    fuel, scope state, rules file and case-conversion mode — is a value of the document carrying the pointer that
    reaches it, or an unresolved result that stopped at such a value.  (A filter only selects among the values it
    is applied to; whatever its clauses evaluate, nothing they produce leaks into the result.) -/
theorem C10_filter_query_sound (env : Env) (x : Plain) (fuel : Nat) (query : List QueryPart)
    (hq : query.all vfPart = true) (conv : Option Nat) (st st' : St) (res : List QR)
    (h : queryRetrieval env fuel 0 query (PV.ofPlain x Path.root) conv st = .ok (res, st')) :
    ∀ r ∈ res, match r with
      | .resolved v => ∃ segs, Reach (PV.ofPlain x Path.root) segs v ∧ v.path.ptr = ptrOf [] segs
      | .unresolved u => ∃ segs, Reach (PV.ofPlain x Path.root) segs u.traversedTo ∧ u.traversedTo.path.ptr = ptrOf [] segs
      | .literal _ => False := by
  intro r hr
  have := (vf_sound env (PV.ofPlain x Path.root) fuel).1 0 query _ conv st res st' hq (InDoc.refl _) h r hr
  cases r with
  | resolved v => exact C10_reported_path_resolves x v this
  | unresolved u => exact C10_reported_path_resolves x u.traversedTo this
  | literal v => exact this

example (c : Cnf) : [QueryPart.key "Resources".toList, .allValues none, .filter none c, .key "Properties".toList].all vfPart = true := by
  simp [vfPart, QueryPart.isVariable, QueryPart.variable]

example : [QueryPart.key "a".toList, .allIndices none, .index 1, .allValues none, .this].all plainPart = true := by decide

/-- non-vacuity: a concrete document, a pointer and the value it reaches -/
example : resolve (PV.ofPlain (.map ["a".toList] [.list [.int 7, .str "x".toList]]) Path.root) ["a".toList, "1".toList]
    = some (.str { ptr := "/a/1".toList } "x".toList) := by
  have e : Nat.toDigits 10 1 = ['1'] := by decide
  simp [resolve, stepSeg, PV.ofPlain, PV.ofPlainVals, PV.ofPlainList, PV.lookupKV, nthBySeg, Path.extendStr, Path.extendNat, Path.root, e]

/-! ### a pointer names one place: different segment lists give different pointers -/

def flatSegs (segs : List Str) : Str := segs.flatMap fun s => '/' :: s

theorem ptrOf_eq_flat (base : Str) (segs : List Str) : ptrOf base segs = base ++ flatSegs segs := by
  induction segs generalizing base with
  | nil => simp [ptrOf, flatSegs]
  | cons s ss ih => rw [ptrOf_cons, ih]; simp [flatSegs, List.append_assoc]

/-- a tail that is empty or starts with the separator -/
def SepTail (x : Str) : Prop := x = [] ∨ ∃ r, x = '/' :: r

theorem flatSegs_sepTail (segs : List Str) : SepTail (flatSegs segs) := by
  cases segs with
  | nil => exact Or.inl rfl
  | cons s ss => exact Or.inr ⟨s ++ flatSegs ss, by simp [flatSegs]⟩

theorem seg_split (s t x y : Str) (hs : '/' ∉ s) (ht : '/' ∉ t) (hx : SepTail x) (hy : SepTail y)
    (h : s ++ x = t ++ y) : s = t ∧ x = y := by
  induction s generalizing t with
  | nil =>
    cases t with
    | nil => exact ⟨rfl, by simpa using h⟩
    | cons d t' =>
      exfalso
      simp only [List.nil_append, List.cons_append] at h
      rcases hx with rfl | ⟨r, rfl⟩
      · cases h
      · injection h with h1 _
        exact ht (by rw [← h1]; simp)
  | cons c s' ih =>
    cases t with
    | nil =>
      exfalso
      simp only [List.nil_append, List.cons_append] at h
      rcases hy with rfl | ⟨r, rfl⟩
      · cases h
      · injection h with h1 _
        exact hs (by rw [h1]; simp)
    | cons d t' =>
      simp only [List.cons_append] at h
      injection h with h1 h2
      subst h1
      obtain ⟨e1, e2⟩ := ih t' (fun hm => hs (List.mem_cons_of_mem _ hm)) (fun hm => ht (List.mem_cons_of_mem _ hm)) h2
      exact ⟨by rw [e1], e2⟩

theorem flatSegs_injective (a b : List Str) (ha : ∀ s ∈ a, '/' ∉ s) (hb : ∀ s ∈ b, '/' ∉ s)
    (h : flatSegs a = flatSegs b) : a = b := by
  induction a generalizing b with
  | nil =>
    cases b with
    | nil => rfl
    | cons t ts => simp [flatSegs] at h
  | cons s ss ih =>
    cases b with
    | nil => simp [flatSegs] at h
    | cons t ts =>
      have h' : s ++ flatSegs ss = t ++ flatSegs ts := by
        simpa [flatSegs] using h
      obtain ⟨e1, e2⟩ := seg_split s t _ _ (ha s (by simp)) (hb t (by simp)) (flatSegs_sepTail ss) (flatSegs_sepTail ts) h'
      rw [e1, ih ts (fun x hx => ha x (List.mem_cons_of_mem _ hx)) (fun x hx => hb x (List.mem_cons_of_mem _ hx)) e2]

/-- **a reported pointer identifies one place**: two segment lists (keys without `/`, the empty key included, and
    decimal indices) that yield the same pointer are the same list - so `/limits//size` (below the empty key) and
    `/limits/size` can never be confused -/
theorem C10_pointer_identifies_place (a b : List Str) (ha : ∀ s ∈ a, '/' ∉ s) (hb : ∀ s ∈ b, '/' ∉ s)
    (h : ptrOf [] a = ptrOf [] b) : a = b := by
  rw [ptrOf_eq_flat, ptrOf_eq_flat] at h
  exact flatSegs_injective a b ha hb (by simpa using h)

example : ptrOf [] ["limits".toList, [], "size".toList] ≠ ptrOf [] ["limits".toList, "size".toList] := by decide

end Guard.C10
