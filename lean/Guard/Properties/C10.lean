import Guard.Model.Eval
import Std.Data.String.ToNat
/-
  C10 — reported paths, values and positions point into the input document.

  Modelled: the `ptr` component of `Path` (the slash-separated pointer) as attached by the loader
  (`PV.ofPlain`, path_value.rs:359-478) and carried by the retrieval steps of the evaluator.
  NOT modelled: the line/column component (libyaml marks); the judge checks those against the
  data file text (testing, labelled as such) — so C10 is `partial` for positions.

  * `resolve doc segs` is JSON-pointer resolution, one segment at a time;
  * `C10_load_paths`: every value reachable in a loaded document by the segments `segs` carries
    exactly the pointer `/seg₁/seg₂/…` — for every document, of any size and depth;
  * `C10_key_step`, `C10_index_step`, `C10_values_step`: the retrieval steps of the evaluator
    (map lookup, `retrieve_index`, `[*]` / `.*`) return values that resolve one segment further,
    so (by induction on the query) everything a function-free, variable-free query returns
    resolves in the document: `C10_plain_query_sound`;
  * `C10_unresolved_reached`: an unresolved result names the value it stopped at, that value
    resolves in the document, and the next segment does not.
-/
set_option linter.unusedSimpArgs false
set_option linter.unusedVariables false
namespace Guard.C10
open Guard

/-- the element whose decimal index (counting from `i`) is spelled `seg` -/
def nthBySeg : List PV → Nat → Str → Option PV
  | [], _, _ => none
  | x :: rest, i, seg => if (toString i).toList = seg then some x else nthBySeg rest (i + 1) seg

/-- one pointer segment: a key of a struct, or the decimal index of a list element -/
def stepSeg (v : PV) (seg : Str) : Option PV :=
  match v with
  | .map _ ks vs => PV.lookupKV ks vs seg
  | .list _ xs => nthBySeg xs 0 seg
  | _ => none

theorem nthBySeg_some (xs : List PV) (i : Nat) (seg : Str) (w : PV) :
    nthBySeg xs i seg = some w → ∃ j, (toString (i + j)).toList = seg ∧ xs[j]? = some w := by
  induction xs generalizing i with
  | nil => simp [nthBySeg]
  | cons x rest ih =>
    simp only [nthBySeg]
    split
    · rename_i hs
      intro h; exact ⟨0, by simpa using hs, by simpa using h⟩
    · intro h
      obtain ⟨j, hj, e⟩ := ih (i + 1) h
      exact ⟨j + 1, by rw [← hj]; congr 2; omega, by simpa using e⟩

theorem natStr_inj {a b : Nat} (h : (toString a).toList = (toString b).toList) : a = b := by
  have : toString a = toString b := String.toList_inj.mp h
  exact Nat.repr_inj.mp this

theorem nthBySeg_index (xs : List PV) (i j : Nat) (w : PV) (h : xs[j]? = some w) :
    nthBySeg xs i (toString (i + j)).toList = some w := by
  induction xs generalizing i j with
  | nil => simp at h
  | cons x rest ih =>
    cases j with
    | zero => simp at h; simp [nthBySeg, h]
    | succ j =>
      simp only [List.getElem?_cons_succ] at h
      simp only [nthBySeg]
      split
      · rename_i hs
        have := natStr_inj hs
        omega
      · have := ih (i + 1) j h
        rw [← this]; congr 3; omega

def resolve (v : PV) : List Str → Option PV
  | [] => some v
  | s :: ss => match stepSeg v s with
    | some w => resolve w ss
    | none => none

def ptrOf (base : Str) (segs : List Str) : Str := segs.foldl (fun acc s => acc ++ '/' :: s) base

theorem ptrOf_cons (base : Str) (s : Str) (ss : List Str) : ptrOf base (s :: ss) = ptrOf (base ++ '/' :: s) ss := rfl

theorem lookup_ofPlainVals (ks : List Str) (vs : List Plain) (p : Path) (key : Str) (w : PV) :
    PV.lookupKV (ks.map fun k => (p.extendStr k, k)) (PV.ofPlainVals ks vs p) key = some w →
    ∃ x, x ∈ vs ∧ w = PV.ofPlain x (p.extendStr key) := by
  induction ks generalizing vs with
  | nil => simp [PV.lookupKV]
  | cons k ks ih =>
    cases vs with
    | nil => simp [PV.ofPlainVals, PV.lookupKV]
    | cons x xs =>
      simp only [List.map_cons, PV.ofPlainVals, PV.lookupKV]
      split
      · rename_i hk
        intro h
        refine ⟨x, by simp, ?_⟩
        simp at h; rw [← h, hk]
      · intro h
        obtain ⟨y, hy, e⟩ := ih xs h
        exact ⟨y, by simp [hy], e⟩

theorem getElem_ofPlainList (xs : List Plain) (p : Path) (i j : Nat) (w : PV) :
    (PV.ofPlainList xs p i)[j]? = some w → ∃ x, x ∈ xs ∧ w = PV.ofPlain x (p.extendNat (i + j)) := by
  induction xs generalizing i j with
  | nil => simp [PV.ofPlainList]
  | cons x xs ih =>
    cases j with
    | zero =>
      simp only [PV.ofPlainList, List.getElem?_cons_zero, Option.some.injEq, Nat.add_zero]
      intro h; exact ⟨x, by simp, h.symm⟩
    | succ j =>
      simp only [PV.ofPlainList, List.getElem?_cons_succ]
      intro h
      obtain ⟨y, hy, e⟩ := ih (i + 1) j h
      refine ⟨y, by simp [hy], ?_⟩
      rw [e]; congr 2; omega

theorem ofPlain_path (x : Plain) (p : Path) : (PV.ofPlain x p).path = p := by
  cases x <;> simp [PV.ofPlain, PV.path]

/-- **load paths**: whatever is reachable in a loaded document by `segs` carries the pointer
    `base/seg₁/seg₂/…` — the path recorded on a value resolves, in the document, to that value. -/
theorem C10_load_paths (x : Plain) : ∀ (p : Path) (segs : List Str) (v : PV),
    resolve (PV.ofPlain x p) segs = some v → v.path.ptr = ptrOf p.ptr segs := by
  intro p segs v h
  cases segs with
  | nil =>
    simp only [resolve, Option.some.injEq] at h
    rw [← h, ofPlain_path]; rfl
  | cons s ss =>
    simp only [resolve] at h
    cases x with
    | list xs =>
      simp only [PV.ofPlain, stepSeg] at h
      split at h
      · rename_i w hw
        obtain ⟨i, hs, hi⟩ := nthBySeg_some _ 0 s w hw
        obtain ⟨y, hy, e⟩ := getElem_ofPlainList xs p 0 i w hi
        have hlt : sizeOf y < sizeOf (Plain.list xs) := by
          have := List.sizeOf_lt_of_mem hy
          simp only [Plain.list.sizeOf_spec]; omega
        rw [e] at h
        have := C10_load_paths y (p.extendNat (0 + i)) ss v h
        rw [this, ptrOf_cons, ← hs]; simp [Path.extendNat, Path.extendStr]
      · cases h
    | map ks vs =>
      simp only [PV.ofPlain, stepSeg] at h
      split at h
      · rename_i w hw
        obtain ⟨y, hy, e⟩ := lookup_ofPlainVals ks vs p s w hw
        have hlt : sizeOf y < sizeOf (Plain.map ks vs) := by
          have := List.sizeOf_lt_of_mem hy
          simp only [Plain.map.sizeOf_spec]; omega
        rw [e] at h
        have := C10_load_paths y (p.extendStr s) ss v h
        rw [this, ptrOf_cons]; simp [Path.extendStr]
      · cases h
    | _ => simp [PV.ofPlain, stepSeg] at h
termination_by sizeOf x

/-- the document root: pointers start at the empty string -/
theorem C10_load_paths_root (x : Plain) (segs : List Str) (v : PV)
    (h : resolve (PV.ofPlain x Path.root) segs = some v) : v.path.ptr = ptrOf [] segs :=
  C10_load_paths x Path.root segs v h

/-! ### the retrieval steps of the evaluator stay inside the document -/

/-- `v` is a value OF the document: some pointer resolves to it -/
def InDoc (doc v : PV) : Prop := ∃ segs, resolve doc segs = some v

theorem resolve_append (doc : PV) (a b : List Str) (v : PV) (h : resolve doc a = some v) :
    resolve doc (a ++ b) = resolve v b := by
  induction a generalizing doc with
  | nil => simp [resolve] at h; simp [h]
  | cons s ss ih =>
    simp only [resolve, List.cons_append] at h ⊢
    split at h
    · rename_i w hw; exact ih w h
    · cases h

theorem InDoc.refl (doc : PV) : InDoc doc doc := ⟨[], rfl⟩

theorem InDoc.step {doc v w : PV} {s : Str} (h : InDoc doc v) (hs : stepSeg v s = some w) : InDoc doc w := by
  obtain ⟨segs, e⟩ := h
  refine ⟨segs ++ [s], ?_⟩
  rw [resolve_append doc segs [s] v e]; simp only [resolve, hs]

/-- map lookup (`.key`, `.*`, key filters): the value found is the document value one key further -/
theorem C10_key_step {doc : PV} {p : Path} {ks : List (Path × Str)} {vs : List PV} {k : Str} {w : PV}
    (h : InDoc doc (.map p ks vs)) (hk : PV.lookupKV ks vs k = some w) : InDoc doc w :=
  h.step (s := k) (by simpa [stepSeg] using hk)

/-- list elements (`[i]`, `[*]`, filters over lists): element `i` is the document value at `/i` -/
theorem C10_elem_step {doc : PV} {p : Path} {xs : List PV} {i : Nat} {w : PV}
    (h : InDoc doc (.list p xs)) (hi : xs[i]? = some w) : InDoc doc w :=
  h.step (s := (toString i).toList) (by simpa [stepSeg] using nthBySeg_index xs 0 i w hi)

/-- every value of a struct is in the document (`.*`, `[*]` on structs, `accumulate_map`) -/
theorem lookup_of_zip_mem : ∀ (ks : List (Path × Str)) (vs : List PV) (pk : Path × Str) (w : PV),
    (pk, w) ∈ ks.zip vs → ∃ w', PV.lookupKV ks vs pk.2 = some w'
  | [], _, _, _, h => by simp at h
  | _ :: _, [], _, _, h => by simp at h
  | (p, k) :: ks, v :: vs, pk, w, h => by
    simp only [PV.lookupKV]
    split
    · exact ⟨v, rfl⟩
    · simp only [List.zip_cons_cons, List.mem_cons, Prod.mk.injEq] at h
      rename_i hne
      rcases h with ⟨h1, _⟩ | h
      · exact absurd (by rw [h1]) hne
      · exact lookup_of_zip_mem ks vs pk w h

/-- `retrieve_index`: the result is the element of the document, or it stops AT the list and the
    index does not exist in it -/
theorem C10_retrieveIndex {doc : PV} {p : Path} {xs : List PV} (idx : Int) (q : List QueryPart)
    (h : InDoc doc (.list p xs)) :
    (∃ w, retrieveIndex (.list p xs) idx xs q = .resolved w ∧ InDoc doc w ∧ xs[idx.natAbs]? = some w) ∨
    (∃ u, retrieveIndex (.list p xs) idx xs q = .unresolved u ∧ u.traversedTo = .list p xs ∧ xs[idx.natAbs]? = none) := by
  cases e : xs[idx.natAbs]? with
  | some w => exact .inl ⟨w, by simp [retrieveIndex, e], C10_elem_step h e, rfl⟩
  | none => exact .inr ⟨_, by simp [retrieveIndex, e, unresolvedAt]; rfl, rfl, rfl⟩

/-- an unresolved result names the value it stopped at -/
theorem C10_unresolved_reached (current : PV) (q : List QueryPart) :
    ∃ u, unresolvedAt current q = .unresolved u ∧ u.traversedTo = current := ⟨_, rfl, rfl⟩

/-- a key that is not in the struct: the result stops at the struct, which is in the document,
    and the next segment does not resolve -/
theorem C10_missing_key {doc : PV} {p : Path} {ks : List (Path × Str)} {vs : List PV} (k : Str)
    (h : InDoc doc (.map p ks vs)) (hk : PV.lookupKV ks vs k = none) :
    InDoc doc (.map p ks vs) ∧ stepSeg (.map p ks vs) k = none := ⟨h, by simpa [stepSeg] using hk⟩

/-- everything that resolves in a loaded document carries its own pointer: the reported
    `path` of an in-document value resolves to that value -/
theorem C10_reported_path_resolves (x : Plain) (v : PV) (h : InDoc (PV.ofPlain x Path.root) v) :
    ∃ segs, resolve (PV.ofPlain x Path.root) segs = some v ∧ v.path.ptr = ptrOf [] segs := by
  obtain ⟨segs, e⟩ := h
  exact ⟨segs, e, C10_load_paths_root x segs v e⟩

/-- non-vacuity: a concrete document, a pointer and the value it reaches -/
example : resolve (PV.ofPlain (.map ["a".toList] [.list [.int 7, .str "x".toList]]) Path.root) ["a".toList, "1".toList]
    = some (.str { ptr := "/a/1".toList } "x".toList) := by
  have e : Nat.toDigits 10 1 = ['1'] := by decide
  simp [resolve, stepSeg, PV.ofPlain, PV.ofPlainVals, PV.ofPlainList, PV.lookupKV, nthBySeg, Path.extendStr, Path.extendNat, Path.root, e]

end Guard.C10
