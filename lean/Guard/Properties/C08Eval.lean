import Guard.Lemmas.NoPanic
/-
  C08 (evaluator part) — "every rule program accepted by the parser evaluated on every document … terminates
  without panic": the `unreachable!()` / `unwrap()` / indexing sites of the evaluator and of the comparison layer,
  as theorems about the model for EVERY program, document, environment, state and fuel.

  * `C08_evaluator_never_panics`: on a well-formed rules file (`RulesFile.wf`, the shape invariants of parser output,
    evaluated by the driver on every AST the harness sends: the `wf` field of the correspondence) an evaluation can
    only "panic" at two residue sites, neither of them an `unreachable!()`: `map.values.get(key).unwrap()` in the
    `keys` filter (guarded by the map representation invariant keys.len = values.len, which the model's `PV` does not
    carry) and the model-only float-oracle site.  In particular the scope-stack pattern matches, `resolver.root()`,
    `query[query_index - 1]`, `lhs_query[len - 1]`, `args[i]`, the unary/binary operator dispatch arms and the
    `ListIn` negation arms are never reached.
  * `C08_comparison_layer_never_panics`: `(CmpOperator, bool)::compare` never panics, for ANY two result sets.
  * termination is not part of these statements: the model is fuel-indexed and running out of fuel stands for
    unbounded recursion (known finding F-C08-1 is exactly such a case).
-/
namespace Guard.C08Eval
open Guard

/-- **no panic on parser output** (see the header) -/
theorem C08_evaluator_never_panics (env : Env) (fuel : Nat) (file : RulesFile) (doc : PV) (hw : file.wf = true)
    (s : PanicSite) (h : runFile env fuel file doc = .panic s) : s = .mapKeyMissing ∨ s = .floatOfInt :=
  runFile_panics_only env fuel file doc hw s h

/-- … in particular none of the `unreachable!()` arms, indexing sites or scope-stack matches -/
theorem C08_no_unreachable (env : Env) (fuel : Nat) (file : RulesFile) (doc : PV) (hw : file.wf = true) :
    runFile env fuel file doc ≠ .panic .other ∧ runFile env fuel file doc ≠ .panic .unaryOnBinary ∧
    runFile env fuel file doc ≠ .panic .filterFirst ∧ runFile env fuel file doc ≠ .panic .emptyQuery ∧
    runFile env fuel file doc ≠ .panic .functionArgIndex ∧ runFile env fuel file doc ≠ .panic .listInNotList ∧
    runFile env fuel file doc ≠ .panic .regexUnwrap ∧ runFile env fuel file doc ≠ .panic .matchValueUnreachable ∧
    runFile env fuel file doc ≠ .panic .clauseStatusSkip ∧ runFile env fuel file doc ≠ .panic .mapKeyFilterResult := by
  refine ⟨?_, ?_, ?_, ?_, ?_, ?_, ?_, ?_, ?_, ?_⟩ <;>
    (intro h; rcases runFile_panics_only env fuel file doc hw _ h with h' | h' <;> cases h')

/-- the comparison layer never panics: any operator, polarity, result sets, environment -/
theorem C08_comparison_layer_never_panics (env : Env) (op : CmpOp) (opNot : Bool) (lhs rhs : List QR) (s : PanicSite) :
    cmpCompare env op opNot lhs rhs ≠ .panic s :=
  cmpCompare_np env op opNot lhs rhs s

/-- `PartialEq for PathAwareValue` (used by `Vec::contains`) always answers (fix 6b03de4) -/
theorem C08_partial_eq_total (env : Env) (a b : PV) : looseEq env a b ≠ none := looseEq_ne_none env a b

/-- a unary operator's check never reaches the `(Eq | Gt | ..) => unreachable!()` arm -/
theorem C08_unary_dispatch (op : CmpOp) (hop : op.isUnary = true) (opNot inverse : Bool) (v : QR) (s : PanicSite) :
    unaryCheck op opNot inverse v ≠ .panic s := unaryCheck_np op hop opNot inverse v s

/-- a built-in function called with its arity can only hit the model-only float-oracle site -/
theorem C08_function_call_sites (env : Env) (name : FunctionName) (args : List (List QR)) (ha : args.length = name.arity)
    (s : PanicSite) (h : callFunction env name args = .panic s) : s = .floatOfInt := by
  by_cases hs : s = .floatOfInt
  · exact hs
  · exact absurd h (callFunction_arity env name args s ha hs)

/-- the residue site `map.values.get(key).unwrap()`: in a map whose keys and values are aligned (what every loader
    builds) each of its keys is found - the lookup can only fail on a `PV` that no loader produces -/
theorem C08_map_lookup_total : ∀ (ks : List (Path × Str)) (vs : List PV), ks.length ≤ vs.length →
    ∀ p k, (p, k) ∈ ks → (PV.lookupKV ks vs k).isSome = true
  | [], _, _, p, k, h => by cases h
  | (p0, k0) :: ks, [], hl, _, _, _ => by simp at hl
  | (p0, k0) :: ks, v :: vs, hl, p, k, h => by
    unfold PV.lookupKV
    by_cases hk : k0 = k
    · simp [hk]
    · simp only [hk, ↓reduceIte]
      rcases List.mem_cons.mp h with h | h
      · cases h; exact absurd rfl hk
      · exact C08_map_lookup_total ks vs (by simpa using hl) p k h

/-- non-vacuity: a concrete rules file with a filter, a `keys` filter, a function call, a unary and a binary clause
    satisfies the hypothesis -/
example : (RulesFile.wf
    { lets := [.mk "v".toList (.func .count [.access [.key "a".toList, .allValues none] true])],
      rules := [{ name := "r".toList, conds := none, lets := [],
                  cnf := [[.access false [.key "a".toList, .filter none [[.access false [.key "b".toList] true .eq false (some (.value (.int Path.root 1))) none]]] true .empty true none none],
                          [.access false [.key "m".toList, .mapKeyFilter none .eq false (.value (.str Path.root "k".toList))] true .exists_ false none none]] }],
      prules := [] }) = true := by decide

/-- … and the predicate does reject what the parser never produces: a query that starts with a filter -/
example : (RulesFile.wf
    { lets := [], prules := [],
      rules := [{ name := "r".toList, conds := none, lets := [],
                  cnf := [[.access false [.filter none []] true .exists_ false none none]] }] }) = false := by decide

end Guard.C08Eval
