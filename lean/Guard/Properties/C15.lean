import Guard.Properties.C04
import Guard.Lemmas.FramesEval
/-
  C15 — variables and parameterised rules are transparent abstractions.

  Proved here, on the evaluator model, for every scope state:
    * a literal variable resolves to exactly its literal, without touching the state — so a
      clause comparing against `%v` computes with the same right-hand side as the clause written
      with the literal in place                                                (`C15_literal_*`)
    * a memoised variable returns what was stored and leaves the state unchanged: every later
      reference sees the value the first one computed                          (`C15_memo_hit`)
    * value scopes and parameter contexts are transparent for names they do not bind; an inner
      block's literal shadows outer definitions                                (`C15_*_transparent`, `C15_shadow`)
    * a parameter resolves to the argument's result set                        (`C15_param`)
  The general substitution statement (a QUERY variable ≡ its query written in place, at file,
  rule and block scope, for every program) is NOT proved: it needs the memo-soundness invariant
  over the whole fuel-indexed evaluator (DESIGN §5 C01 stage 4).  It is checked on every generated
  abstraction site by the judge (implementation verdicts of program vs abstracted program), so the
  claim for C15 is partial in exactly that sense.
-/
set_option linter.unusedSimpArgs false
namespace Guard.C15
open Guard

/-- a literal `let` in the innermost block scope resolves to that literal; state untouched -/
theorem C15_literal_variable (env : Env) (fuel : Nat) (name : Str) (v : PV) (b : BlockFrame)
    (rest : List Frame) (st : St) (hf : st.frames = .block b :: rest) (hl : alLookup name b.lits = some v) :
    resolveVariable env (fuel + 1) name st = .ok ([.literal v], st) := by
  simp [resolveVariable, hf, hl]

/-- every later reference to a resolved variable sees the stored value; state untouched -/
theorem C15_memo_hit (env : Env) (fuel : Nat) (name : Str) (vals : List QR) (b : BlockFrame)
    (rest : List Frame) (st : St) (hf : st.frames = .block b :: rest)
    (hl : alLookup name b.lits = none) (hm : alLookup name b.memo = some vals) :
    resolveVariable env (fuel + 1) name st = .ok (vals, st) := by
  simp [resolveVariable, hf, hl, hm]

/-- an inner literal definition shadows whatever the outer scopes define -/
theorem C15_shadow (env : Env) (fuel : Nat) (name : Str) (v : PV) (b : BlockFrame)
    (outer outer' : List Frame) (st st' : St)
    (hf : st.frames = .block b :: outer) (hf' : st'.frames = .block b :: outer')
    (hl : alLookup name b.lits = some v) :
    (resolveVariable env (fuel + 1) name st).isOk = true ∧
    (∃ r, resolveVariable env (fuel + 1) name st = .ok (r, st) ∧ resolveVariable env (fuel + 1) name st' = .ok (r, st')) := by
  rw [C15_literal_variable env fuel name v b outer st hf hl, C15_literal_variable env fuel name v b outer' st' hf' hl]
  exact ⟨rfl, _, rfl, rfl⟩

/-- a value scope binds nothing: resolution is delegated to the enclosing scopes and the scope
    is put back -/
theorem C15_value_scope_transparent (env : Env) (fuel : Nat) (name : Str) (root : PV)
    (f : Frame) (rest : List Frame) (st : St) (hf : st.frames = .value root :: f :: rest)
    (r : List QR) (st' : St)
    (h : resolveVariable env fuel name { st with frames := f :: rest } = .ok (r, st')) :
    resolveVariable env (fuel + 1) name st = .ok (r, { st' with frames := .value root :: st'.frames }) := by
  simp [resolveVariable, hf, h]

/-- a parameter of a parameterised rule resolves to the argument's result set -/
theorem C15_param (env : Env) (fuel : Nat) (name : Str) (ps : List (Str × List QR)) (vals : List QR)
    (rest : List Frame) (st : St) (hf : st.frames = .params ps :: rest) (hp : alLookup name ps = some vals) :
    resolveVariable env (fuel + 1) name st = .ok (vals, st) := by
  simp [resolveVariable, hf, hp]

/-- … and a parameter context is transparent for every other name -/
theorem C15_param_transparent (env : Env) (fuel : Nat) (name : Str) (ps : List (Str × List QR))
    (f : Frame) (rest : List Frame) (st : St) (hf : st.frames = .params ps :: f :: rest)
    (hp : alLookup name ps = none) (r : List QR) (st' : St)
    (h : resolveVariable env fuel name { st with frames := f :: rest } = .ok (r, st')) :
    resolveVariable env (fuel + 1) name st = .ok (r, { st' with frames := .params ps :: st'.frames }) := by
  simp [resolveVariable, hf, hp, h]

/-- an unbound name is an evaluation error (never a silently empty value) -/
theorem C15_unbound_is_error (env : Env) (fuel : Nat) (name : Str) (b : BlockFrame) (st : St)
    (hf : st.frames = [.block b]) (h1 : alLookup name b.lits = none) (h2 : alLookup name b.memo = none)
    (h3 : alLookup name b.funs = none) (h4 : alLookup name b.queries = none) :
    resolveVariable env (fuel + 1) name st = .err .MissingValue := by
  simp [resolveVariable, hf, h1, h2, h3, h4]

/-- the documented exception: the emptiness test on a bare variable tests the result SET —
    it holds of the empty set and, on a non-empty set, member-wise "is null or unresolved" -/
theorem C15_empty_exception (opNot inverse : Bool) :
    emptyExprNoValue false false = true ∧ emptyExprNoValue true false = false ∧
    (∀ v, emptyExprCheck false false (.resolved v) = v.isNull) ∧
    (∀ u, emptyExprCheck false false (.unresolved u) = true) ∧
    emptyExprNoValue opNot inverse = ((true != opNot) != inverse) := by
  refine ⟨rfl, rfl, ?_, ?_, rfl⟩
  · intro v; simp [emptyExprCheck]
  · intro u; simp [emptyExprCheck]

/-- **evaluation does not disturb the scopes a variable is resolved against**: whatever clause is
    evaluated, in whatever state, afterwards the scope stack has the same frames: the same roots, the
    same variable definitions (`let` tables) and the same parameter bindings — only memo tables grew.
    (All 17 functions of the evaluator: `allPres`.) -/
theorem C15_scopes_stable (env : Env) (fuel : Nat) (c : Clause) (st st' : St) (s : Status)
    (h : evalClause env fuel c st = .ok (s, st')) :
    FramesSim st.frames st'.frames ∧ rootOfFrames st'.frames = rootOfFrames st.frames :=
  have hs := (allPres env fuel).clause c st s st' h
  ⟨hs, hs.root.symm⟩

/-- resolving a variable leaves the scopes as they were: later references are resolved against the same
    definitions -/
theorem C15_resolution_keeps_definitions (env : Env) (fuel : Nat) (name : Str) (st st' : St) (r : List QR)
    (h : resolveVariable env fuel name st = .ok (r, st')) : FramesSim st.frames st'.frames :=
  (allPres env fuel).rvar name st r st' h

/-- a block scope's variable tables are unchanged by anything evaluated inside it -/
theorem C15_let_tables_unchanged (env : Env) (fuel : Nat) (cnf : Cnf) (b : BlockFrame) (rest : List Frame) (st st' : St)
    (s : Status) (hf : st.frames = .block b :: rest) (h : evalCnf env fuel cnf st = .ok (s, st')) :
    ∃ b' rest', st'.frames = .block b' :: rest' ∧ b'.root = b.root ∧ b'.lits = b.lits ∧ b'.queries = b.queries ∧
      b'.funs = b.funs := by
  have hs := (allPres env fuel).cnf cnf st s st' h
  rw [hf] at hs
  obtain ⟨g, gs, e, hg, _⟩ := FramesSim.cons_inv hs
  cases g with
  | block b' =>
    simp only [Frame.sim] at hg
    exact ⟨b', gs, e, hg.1.symm, hg.2.1.symm, hg.2.2.1.symm, hg.2.2.2.symm⟩
  | value r => simp [Frame.sim] at hg
  | params ps => simp [Frame.sim] at hg

/-! ### A variable at the head of a query -/

/-- where retrieval continues after a variable head: the `[*]` the parser inserts after a variable is skipped -/
def afterVariable (rest : List QueryPart) : Nat :=
  match rest with
  | .allIndices _ :: _ => 2
  | _ => 1

theorem C15_variable_head_each_value (env : Env) (fuel : Nat) (name : Str) (rest : List QueryPart)
    (current : PV) (conv : Option Nat) :
    queryRetrieval env (fuel + 1) 0 (.key ('%' :: name) :: rest) current conv =
      (do
        let retrieved ← resolveVariable env fuel name
        let rows ← retrieved.mapM fun each =>
          match each with
          | .unresolved ur => pure [QR.unresolved ur]
          | .literal v | .resolved v =>
            if afterVariable rest < rest.length + 1 then
              withValueScope v (queryRetrieval env fuel (afterVariable rest) (.key ('%' :: name) :: rest) v conv)
            else pure [each]
        pure rows.flatten) := by
  simp only [queryRetrieval]
  have key : ∀ (f g : QR → M (List QR)), (∀ e, f e = g e) →
      (do let retrieved ← resolveVariable env fuel name
          let rows ← retrieved.mapM f
          pure rows.flatten) =
      (do let retrieved ← resolveVariable env fuel name
          let rows ← retrieved.mapM g
          pure rows.flatten) := by
    intro f g h
    have : f = g := funext h
    rw [this]
  cases rest with
  | nil =>
    simp only [QueryPart.isVariable, QueryPart.variable, afterVariable, Option.isSome_some, beq_self_eq_true, Bool.and_self,
      ↓reduceIte, Option.getD_some, List.length_cons, List.length_nil]
    apply key
    intro e; cases e <;> simp
  | cons p ps =>
    cases p <;>
    · simp only [QueryPart.isVariable, QueryPart.variable, afterVariable, Option.isSome_some, beq_self_eq_true, Bool.and_self,
        ↓reduceIte, Option.getD_some, List.length_cons]
      apply key
      intro e; cases e <;> simp

/-- **a literal variable at the head of a query is transparent**: `%v.rest` evaluates exactly like `rest` evaluated
    on the literal itself (inside a value scope rooted at it) - for every continuation of the query, every state whose
    innermost block defines `v` as a literal, every fuel -/
theorem C15_literal_head_in_place (env : Env) (fuel : Nat) (name : Str) (p : QueryPart) (ps : List QueryPart)
    (hp : ∀ b, p ≠ .allIndices b) (v : PV) (b : BlockFrame) (fr : List Frame) (current : PV) (conv : Option Nat)
    (st : St) (hf : st.frames = .block b :: fr) (hl : alLookup name b.lits = some v) :
    queryRetrieval env (fuel + 2) 0 (.key ('%' :: name) :: p :: ps) current conv st =
      (withValueScope v (queryRetrieval env (fuel + 1) 1 (.key ('%' :: name) :: p :: ps) v conv)) st := by
  rw [C15_variable_head_each_value]
  have ha : afterVariable (p :: ps) = 1 := by
    cases p <;> simp [afterVariable] <;> exact absurd rfl (hp _)
  simp only [bind, StateT.bind, C15_literal_variable env fuel name v b fr st hf hl, ha]
  simp only [List.mapM_cons, List.mapM_nil, bind, StateT.bind, pure, StateT.pure, List.length_cons]
  have : 1 < ps.length + 1 + 1 := by omega
  simp only [this, ↓reduceIte]
  simp only [Outcome.bind]
  simp only [List.mapM_cons, List.mapM_nil, bind, StateT.bind, pure, StateT.pure]
  cases withValueScope v (queryRetrieval env (fuel + 1) 1 (.key ('%' :: name) :: p :: ps) v conv) st <;>
    simp [Outcome.bind]

-- Non-vacuity: a block scope that defines `v` as a literal
example : ∃ b : BlockFrame, alLookup "v".toList b.lits = some (PV.int Path.root 1) :=
  ⟨{ root := PV.int Path.root 0, lits := [("v".toList, PV.int Path.root 1)], queries := [], funs := [], memo := [], inProgress := [] }, rfl⟩

end Guard.C15
