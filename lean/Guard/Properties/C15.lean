import Guard.Properties.C04
import Guard.Lemmas.FramesEval
/-
  C15 — variables and parameterised rules are transparent abstractions.

  Proved here, on the evaluator model, for every scope state:
    * a literal variable resolves to exactly its literal, without touching the state — so a
      clause comparing against `%v` computes with the same right-hand side as the clause written
      with the literal in place                                                (`C15_literal_*`)
    * a memoised variable returns what was stored and leaves the state unchanged: every later
      reference sees the value the first one computed                          (`C15_memo_hit`)
    * value scopes and parameter contexts are transparent for names they do not bind; an inner
      block's literal shadows outer definitions                                (`C15_*_transparent`, `C15_shadow`)
    * a parameter resolves to the argument's result set                        (`C15_param`)
  The general substitution statement (a QUERY variable ≡ its query written in place, at file,
  rule and block scope, for every program) is NOT proved: it needs the memo-soundness invariant
  over the whole fuel-indexed evaluator (DESIGN §5 C01 stage 4).  It is checked on every generated
  abstraction site by the judge (implementation verdicts of program vs abstracted program), so the
  claim for C15 is partial in exactly that sense.
-/
set_option linter.unusedSimpArgs false
namespace Guard.C15
open Guard

/-- a literal `let` in the innermost block scope resolves to that literal; state untouched -/
theorem C15_literal_variable (env : Env) (fuel : Nat) (name : Str) (v : PV) (b : BlockFrame)
    (rest : List Frame) (st : St) (hf : st.frames = .block b :: rest) (hl : alLookup name b.lits = some v) :
    resolveVariable env (fuel + 1) name st = .ok ([.literal v], st) := by
  simp [resolveVariable, hf, hl]

/-- every later reference to a resolved variable sees the stored value; state untouched -/
theorem C15_memo_hit (env : Env) (fuel : Nat) (name : Str) (vals : List QR) (b : BlockFrame)
    (rest : List Frame) (st : St) (hf : st.frames = .block b :: rest)
    (hl : alLookup name b.lits = none) (hm : alLookup name b.memo = some vals) :
    resolveVariable env (fuel + 1) name st = .ok (vals, st) := by
  simp [resolveVariable, hf, hl, hm]

/-- an inner literal definition shadows whatever the outer scopes define -/
theorem C15_shadow (env : Env) (fuel : Nat) (name : Str) (v : PV) (b : BlockFrame)
    (outer outer' : List Frame) (st st' : St)
    (hf : st.frames = .block b :: outer) (hf' : st'.frames = .block b :: outer')
    (hl : alLookup name b.lits = some v) :
    (resolveVariable env (fuel + 1) name st).isOk = true ∧
    (∃ r, resolveVariable env (fuel + 1) name st = .ok (r, st) ∧ resolveVariable env (fuel + 1) name st' = .ok (r, st')) := by
  rw [C15_literal_variable env fuel name v b outer st hf hl, C15_literal_variable env fuel name v b outer' st' hf' hl]
  exact ⟨rfl, _, rfl, rfl⟩

/-- a value scope binds nothing: resolution is delegated to the enclosing scopes and the scope
    is put back -/
theorem C15_value_scope_transparent (env : Env) (fuel : Nat) (name : Str) (root : PV)
    (f : Frame) (rest : List Frame) (st : St) (hf : st.frames = .value root :: f :: rest)
    (r : List QR) (st' : St)
    (h : resolveVariable env fuel name { st with frames := f :: rest } = .ok (r, st')) :
    resolveVariable env (fuel + 1) name st = .ok (r, { st' with frames := .value root :: st'.frames }) := by
  simp [resolveVariable, hf, h]

/-- a parameter of a parameterised rule resolves to the argument's result set -/
theorem C15_param (env : Env) (fuel : Nat) (name : Str) (ps : List (Str × List QR)) (vals : List QR)
    (rest : List Frame) (st : St) (hf : st.frames = .params ps :: rest) (hp : alLookup name ps = some vals) :
    resolveVariable env (fuel + 1) name st = .ok (vals, st) := by
  simp [resolveVariable, hf, hp]

/-- … and a parameter context is transparent for every other name -/
theorem C15_param_transparent (env : Env) (fuel : Nat) (name : Str) (ps : List (Str × List QR))
    (f : Frame) (rest : List Frame) (st : St) (hf : st.frames = .params ps :: f :: rest)
    (hp : alLookup name ps = none) (r : List QR) (st' : St)
    (h : resolveVariable env fuel name { st with frames := f :: rest } = .ok (r, st')) :
    resolveVariable env (fuel + 1) name st = .ok (r, { st' with frames := .params ps :: st'.frames }) := by
  simp [resolveVariable, hf, hp, h]

/-- an unbound name is an evaluation error (never a silently empty value) -/
theorem C15_unbound_is_error (env : Env) (fuel : Nat) (name : Str) (b : BlockFrame) (st : St)
    (hf : st.frames = [.block b]) (h1 : alLookup name b.lits = none) (h2 : alLookup name b.memo = none)
    (h3 : alLookup name b.funs = none) (h4 : alLookup name b.queries = none) :
    resolveVariable env (fuel + 1) name st = .err .MissingValue := by
  simp [resolveVariable, hf, h1, h2, h3, h4]

/-- the documented exception: the emptiness test on a bare variable tests the result SET —
    it holds of the empty set and, on a non-empty set, member-wise "is null or unresolved" -/
theorem C15_empty_exception (opNot inverse : Bool) :
    emptyExprNoValue false false = true ∧ emptyExprNoValue true false = false ∧
    (∀ v, emptyExprCheck false false (.resolved v) = v.isNull) ∧
    (∀ u, emptyExprCheck false false (.unresolved u) = true) ∧
    emptyExprNoValue opNot inverse = ((true != opNot) != inverse) := by
  refine ⟨rfl, rfl, ?_, ?_, rfl⟩
  · intro v; simp [emptyExprCheck]
  · intro u; simp [emptyExprCheck]

/-- **evaluation does not disturb the scopes a variable is resolved against**: whatever clause is
    evaluated, in whatever state, afterwards the scope stack has the same frames: the same roots, the
    same variable definitions (`let` tables) and the same parameter bindings — only memo tables grew.
    (All 17 functions of the evaluator: `allPres`.) -/
theorem C15_scopes_stable (env : Env) (fuel : Nat) (c : Clause) (st st' : St) (s : Status)
    (h : evalClause env fuel c st = .ok (s, st')) :
    FramesSim st.frames st'.frames ∧ rootOfFrames st'.frames = rootOfFrames st.frames :=
  have hs := (allPres env fuel).clause c st s st' h
  ⟨hs, hs.root.symm⟩

/-- resolving a variable leaves the scopes as they were: later references are resolved against the same
    definitions -/
theorem C15_resolution_keeps_definitions (env : Env) (fuel : Nat) (name : Str) (st st' : St) (r : List QR)
    (h : resolveVariable env fuel name st = .ok (r, st')) : FramesSim st.frames st'.frames :=
  (allPres env fuel).rvar name st r st' h

/-- a block scope's variable tables are unchanged by anything evaluated inside it -/
theorem C15_let_tables_unchanged (env : Env) (fuel : Nat) (cnf : Cnf) (b : BlockFrame) (rest : List Frame) (st st' : St)
    (s : Status) (hf : st.frames = .block b :: rest) (h : evalCnf env fuel cnf st = .ok (s, st')) :
    ∃ b' rest', st'.frames = .block b' :: rest' ∧ b'.root = b.root ∧ b'.lits = b.lits ∧ b'.queries = b.queries ∧
      b'.funs = b.funs := by
  have hs := (allPres env fuel).cnf cnf st s st' h
  rw [hf] at hs
  obtain ⟨g, gs, e, hg, _⟩ := FramesSim.cons_inv hs
  cases g with
  | block b' =>
    simp only [Frame.sim] at hg
    exact ⟨b', gs, e, hg.1.symm, hg.2.1.symm, hg.2.2.1.symm, hg.2.2.2.symm⟩
  | value r => simp [Frame.sim] at hg
  | params ps => simp [Frame.sim] at hg

end Guard.C15
