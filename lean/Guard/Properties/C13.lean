import Guard.Lemmas.Order
/-
  C13 — comparison operators form a coherent algebra over values.
  Theorems about `compareValues`, `compareEq`, `compareLt/Le/Gt/Ge`, `isWithin*`
  (the Lean mirror of path_value.rs:1047-1192, values.rs:266-278), for ALL values.
  The clause-level statements (through `Ops`) are in C13Ops.lean.
-/
namespace Guard.C13
open Guard

/-- Two scalars of the same ordered type: ints, non-NaN floats, strings, chars. -/
def sameOrdered : PV → PV → Bool
  | .int _ _, .int _ _ => true
  | .float _ x, .float _ y => !x.isNaN && !y.isNaN
  | .str _ _, .str _ _ => true
  | .char _ _, .char _ _ => true
  | _, _ => false

/-- On same-ordered-type scalars the three-way comparison is defined. -/
theorem C13_ordering_defined (a b : PV) (h : sameOrdered a b = true) :
    ∃ o, compareValues a b = .ok o := by
  cases a <;> cases b <;> simp [sameOrdered] at h <;> simp [compareValues]
  case float.float p x q y =>
    simp [F64.partialCmp, h.1, h.2]

/-- `==` on same-ordered-type scalars is "the three-way comparison says equal". -/
theorem C13_eq_is_ordering_eq (env : Env) (a b : PV) (h : sameOrdered a b = true) (o : Ordering)
    (ho : compareValues a b = .ok o) : compareEq env a b = .ok (o == .eq) := by
  cases a <;> cases b <;> simp [sameOrdered] at h
  case int.int => simp [compareEq, ho]
  case float.float => simp [compareEq, ho]
  case char.char => simp [compareEq, ho]
  case str.str p s q t =>
    simp [compareValues] at ho; subst ho
    simp only [compareEq]
    by_cases hst : s = t
    · subst hst; simp [Str.cmp_eq.mpr rfl]
    · have : Str.cmp s t ≠ .eq := fun hc => hst (Str.cmp_eq.mp hc)
      cases hc : Str.cmp s t <;> simp_all

/-- **Trichotomy**: exactly one of `<`, `==`, `>` holds, the other two are (defined and) false. -/
theorem C13_trichotomy (env : Env) (a b : PV) (h : sameOrdered a b = true) :
    (compareLt a b = .ok true ∧ compareEq env a b = .ok false ∧ compareGt a b = .ok false) ∨
    (compareLt a b = .ok false ∧ compareEq env a b = .ok true ∧ compareGt a b = .ok false) ∨
    (compareLt a b = .ok false ∧ compareEq env a b = .ok false ∧ compareGt a b = .ok true) := by
  obtain ⟨o, ho⟩ := C13_ordering_defined a b h
  have he := C13_eq_is_ordering_eq env a b h o ho
  simp only [compareLt, compareGt, cmpWith, ho, he]
  cases o <;> simp

/-- `<=` holds iff `<` or `==`; `>=` iff `>` or `==`. -/
theorem C13_le_ge (env : Env) (a b : PV) (h : sameOrdered a b = true) :
    ∃ lt eq gt : Bool, compareLt a b = .ok lt ∧ compareEq env a b = .ok eq ∧ compareGt a b = .ok gt ∧
      compareLe a b = .ok (lt || eq) ∧ compareGe a b = .ok (gt || eq) := by
  obtain ⟨o, ho⟩ := C13_ordering_defined a b h
  have he := C13_eq_is_ordering_eq env a b h o ho
  refine ⟨o == .lt, o == .eq, o == .gt, ?_⟩
  simp only [compareLt, compareGt, compareLe, compareGe, cmpWith, ho, he]
  cases o <;> simp

/-- The order on integers is the numeric one. -/
theorem C13_int_order (p q : Path) (i j : Int) :
    (compareLt (.int p i) (.int q j) = .ok (decide (i < j))) ∧
    (compareGt (.int p i) (.int q j) = .ok (decide (j < i))) ∧
    (∀ env, compareEq env (.int p i) (.int q j) = .ok (decide (i = j))) := by
  refine ⟨?_, ?_, ?_⟩
  · simp only [compareLt, cmpWith, compareValues]
    rcases Int.lt_trichotomy i j with h | h | h
    · simp [compare_int_lt.mpr h, h]
    · subst h; simp
    · simp [compare_int_gt.mpr h]; omega
  · simp only [compareGt, cmpWith, compareValues]
    rcases Int.lt_trichotomy i j with h | h | h
    · simp [compare_int_lt.mpr h]; omega
    · subst h; simp
    · simp [compare_int_gt.mpr h, h]
  · intro env
    simp only [compareEq, compareValues]
    rcases Int.lt_trichotomy i j with h | h | h
    · simp [compare_int_lt.mpr h]; omega
    · subst h; simp
    · simp [compare_int_gt.mpr h]; omega

/-- The order on non-NaN doubles is the order of their sign-magnitude keys (the IEEE order,
    with `-0.0 = +0.0`); a NaN operand makes the values not comparable. -/
theorem C13_float_order (p q : Path) (x y : F64) :
    (x.isNaN = false → y.isNaN = false →
      compareValues (.float p x) (.float q y) = .ok (compare x.key y.key)) ∧
    (x.isNaN = true ∨ y.isNaN = true →
      compareValues (.float p x) (.float q y) = .err .NotComparable) := by
  constructor
  · intro hx hy; simp [compareValues, F64.partialCmp, hx, hy]
  · intro h; rcases h with h | h <;> simp [compareValues, F64.partialCmp, h]

/-- Both zeros compare equal. -/
theorem C13_float_zeros (p q : Path) (env : Env) :
    compareEq env (.float p ⟨false, 0, 0⟩) (.float q ⟨true, 0, 0⟩) = .ok true := by
  simp [compareEq, compareValues, F64.partialCmp, F64.isNaN, F64.key, F64.mag]

/-- The order on strings is lexicographic by code point; `==` is string equality. -/
theorem C13_string_order (p q : Path) (s t : Str) (env : Env) :
    compareValues (.str p s) (.str q t) = .ok (Str.cmp s t) ∧
    compareEq env (.str p s) (.str q t) = .ok (decide (s = t)) := by
  constructor
  · simp [compareValues]
  · simp only [compareEq]; congr 1; by_cases h : s = t <;> simp [h]

/-- `a < b` iff `b > a` (the order is antisymmetric), for all same-ordered-type scalars. -/
theorem C13_lt_gt_swap (a b : PV) (h : sameOrdered a b = true) :
    compareLt a b = compareGt b a := by
  cases a <;> cases b <;> simp [sameOrdered] at h
  case int.int p i q j =>
    simp only [compareLt, compareGt, cmpWith, compareValues, ← compare_int_swap j i]
    cases compare j i <;> rfl
  case float.float p x q y =>
    simp only [compareLt, compareGt, cmpWith, compareValues, F64.partialCmp, h.1, h.2,
      Bool.or_self, Bool.false_eq_true, ↓reduceIte, ← compare_int_swap y.key x.key]
    cases compare y.key x.key <;> rfl
  case str.str p s q t =>
    simp only [compareLt, compareGt, cmpWith, compareValues, ← Str.cmp_swap t s]
    cases Str.cmp t s <;> rfl
  case char.char p c q d =>
    simp only [compareLt, compareGt, cmpWith, compareValues, ← cmpChar_swap d c]
    cases cmpChar d c <;> rfl

/-- `X in r[lo,hi]`-style ranges: `==` of an int with an int range is exactly the two bound
    comparisons selected by the inclusivity bits (all four bracket forms). -/
theorem C13_range_int (env : Env) (p q : Path) (x lo hi : Int) (incl : Nat) :
    compareEq env (.int p x) (.rangeInt q lo hi incl) =
      .ok ((if incl % 2 = 1 then decide (lo ≤ x) else decide (lo < x)) &&
           (if incl / 2 % 2 = 1 then decide (x ≤ hi) else decide (x < hi))) := by
  simp only [compareEq, isWithinKey]
  by_cases h1 : incl % 2 = 1 <;> by_cases h2 : incl / 2 % 2 = 1 <;> simp [h1, h2]

theorem C13_range_brackets (env : Env) (p q : Path) (x lo hi : Int) :
    compareEq env (.int p x) (.rangeInt q lo hi 3) = .ok (decide (lo ≤ x) && decide (x ≤ hi)) ∧   -- r[lo,hi]
    compareEq env (.int p x) (.rangeInt q lo hi 0) = .ok (decide (lo < x) && decide (x < hi)) ∧   -- r(lo,hi)
    compareEq env (.int p x) (.rangeInt q lo hi 1) = .ok (decide (lo ≤ x) && decide (x < hi)) ∧   -- r[lo,hi)
    compareEq env (.int p x) (.rangeInt q lo hi 2) = .ok (decide (lo < x) && decide (x ≤ hi)) := by -- r(lo,hi]
  refine ⟨?_, ?_, ?_, ?_⟩ <;> rw [C13_range_int] <;> simp

/-- Float ranges: same with the key order; any NaN makes the test false. -/
theorem C13_range_float (env : Env) (p q : Path) (x lo hi : F64) (incl : Nat)
    (hx : x.isNaN = false) (hl : lo.isNaN = false) (hh : hi.isNaN = false) :
    compareEq env (.float p x) (.rangeFloat q lo hi incl) =
      .ok ((if incl % 2 = 1 then decide (lo.key ≤ x.key) else decide (lo.key < x.key)) &&
           (if incl / 2 % 2 = 1 then decide (x.key ≤ hi.key) else decide (x.key < hi.key))) := by
  simp only [compareEq, isWithinF64, isWithinKey, hx, hl, hh]
  by_cases h1 : incl % 2 = 1 <;> by_cases h2 : incl / 2 % 2 = 1 <;> simp [h1, h2]

/-- A regex on the right (or left) of `==` against a string is exactly the regex oracle. -/
theorem C13_regex (env : Env) (p q : Path) (s re : Str) :
    compareEq env (.str p s) (.regex q re) = regexEq env re s ∧
    compareEq env (.regex q re) (.str p s) = regexEq env re s := by
  constructor <;> simp [compareEq]

/-- The coarse type of a value, as far as ordering comparisons are concerned. -/
inductive Kind | null | str | regex | bool | int | float | char | list | map | range
  deriving DecidableEq
def kind : PV → Kind
  | .null _ => .null | .str _ _ => .str | .regex _ _ => .regex | .bool _ _ => .bool
  | .int _ _ => .int | .float _ _ => .float | .char _ _ => .char | .list _ _ => .list
  | .map _ _ _ => .map | .rangeInt .. => .range | .rangeFloat .. => .range | .rangeChar .. => .range

/-- Values of different types are never ordered: `<`, `<=`, `>`, `>=` all answer NotComparable
    (which every caller turns into a FAIL of the check, for both polarities — see C13Ops). -/
theorem C13_different_types_unordered (a b : PV) (h : kind a ≠ kind b) :
    compareLt a b = .err .NotComparable ∧ compareLe a b = .err .NotComparable ∧
    compareGt a b = .err .NotComparable ∧ compareGe a b = .err .NotComparable := by
  have : compareValues a b = .err .NotComparable := by
    cases a <;> cases b <;> simp [kind] at h <;> simp [compareValues]
  simp [compareLt, compareLe, compareGt, compareGe, cmpWith, this]

/-- Unordered types (bool, list, map, null-vs-other) have no `<`/`>` either. -/
theorem C13_unordered_types (a b : PV)
    (h : kind a ∈ [Kind.bool, .list, .map, .regex, .range] ∨ kind b ∈ [Kind.bool, .list, .map, .regex, .range]) :
    compareLt a b = .err .NotComparable ∧ compareGt a b = .err .NotComparable := by
  have : compareValues a b = .err .NotComparable := by
    cases a <;> cases b <;> simp [kind] at h <;> simp [compareValues]
  simp [compareLt, compareGt, cmpWith, this]

/-- `==` between scalars of different (non-regex, non-range) types is NotComparable too. -/
theorem C13_different_types_not_equal (env : Env) (a b : PV) (h : kind a ≠ kind b)
    (ha : kind a ∈ [Kind.null, .str, .bool, .int, .float, .char, .list, .map])
    (hb : kind b ∈ [Kind.null, .str, .bool, .int, .float, .char, .list, .map]) :
    compareEq env a b = .err .NotComparable := by
  cases a <;> cases b <;> simp [kind] at h ha hb <;> simp [compareEq, compareValues]

-- Non-vacuity: the hypotheses are satisfiable by concrete, non-trivial values.
example : sameOrdered (.int Path.root 3) (.int Path.root (-7)) = true := rfl
example : sameOrdered (.float Path.root ⟨false, 1023, 0⟩) (.float Path.root ⟨true, 1024, 5⟩) = true := rfl
example : sameOrdered (.str Path.root "ab".toList) (.str Path.root "abc".toList) = true := rfl
example : kind (.int Path.root 1) ≠ kind (.str Path.root "1".toList) := by decide

end Guard.C13
