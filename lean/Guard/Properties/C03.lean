import Guard.Properties.C13
import Guard.Properties.C02
/-
  C03 — negation is honoured: the prefix `not`/`NOT`/`!` is never ignored and means the same as
  the operator-level negation.
-/
set_option linter.unusedSimpArgs false
namespace Guard.C03
open Guard

/-! ### unary operators (`exists`, `empty`, `is_*`) -/

/-- `not X op` ≡ `X !op`, `not X !op` ≡ `X op` (double negation): the value-level check only
    depends on the XOR of the two negations. -/
theorem C03_unary_prefix_eq_operator_not (op : CmpOp) (opNot inverse : Bool) (v : QR) :
    unaryCheck op opNot inverse v = unaryCheck op (opNot != inverse) false v := by
  unfold unaryCheck
  cases unaryBase op v <;> cases opNot <;> cases inverse <;> simp

theorem C03_unary_double_negation (op : CmpOp) (v : QR) :
    unaryCheck op true true v = unaryCheck op false false v := by
  rw [C03_unary_prefix_eq_operator_not]; rfl

/-- the prefix negation is never ignored: it flips every defined unary check -/
theorem C03_unary_flip (op : CmpOp) (opNot : Bool) (v : QR) (b : Bool)
    (h : unaryCheck op opNot false v = .ok b) : unaryCheck op opNot true v = .ok (!b) := by
  unfold unaryCheck at *
  cases hb : unaryBase op v <;> simp [hb] at h ⊢
  subst h; cases opNot <;> simp

/-- same for the `empty` test on filter results / bare variables -/
theorem C03_empty_expr_prefix_eq_operator_not (opNot inverse : Bool) (v : QR) :
    emptyExprCheck opNot inverse v = emptyExprCheck (opNot != inverse) false v ∧
    emptyExprNoValue opNot inverse = emptyExprNoValue (opNot != inverse) false := by
  unfold emptyExprCheck emptyExprNoValue
  cases opNot <;> cases inverse <;> cases v <;> simp

theorem C03_empty_expr_flip (opNot : Bool) (v : QR) :
    emptyExprCheck opNot true v = !emptyExprCheck opNot false v ∧
    emptyExprNoValue opNot true = !emptyExprNoValue opNot false := by
  unfold emptyExprCheck emptyExprNoValue
  cases opNot <;> cases v <;> simp

/-! ### binary operators: the whole clause, as a state transformer -/

/-- `not X == v` ≡ `X != v`, `not X in L` ≡ `X not in L`, `not X > v` ≡ `X not > v`, … and
    `not X != v` ≡ `X == v`: for every query, right-hand side, scope state and fuel the two
    clauses are THE SAME computation (same status, same records, same errors). -/
theorem C03_binary_prefix_eq_operator_not (env : Env) (fuel : Nat) (q : List QueryPart) (all : Bool)
    (op : CmpOp) (opNot : Bool) (w : Option LetValue) (msg : Option Str) (hop : op.isUnary = false) :
    evalClause env fuel (.access true q all op opNot w msg) =
    evalClause env fuel (.access false q all op (!opNot) w msg) := by
  cases fuel with
  | zero => simp [evalClause]
  | succ n =>
    simp only [evalClause, hop]
    cases opNot <;> simp

/-! ### a single comparable value: the negated clause is PASS exactly when the clause is FAIL -/

/-- One resolved, non-list value against one non-list literal, ordering operators:
    exactly one value check is produced and the operator-level `not` flips it, unless the
    two values are not comparable (then both polarities FAIL — C13). -/
theorem C03_single_value_flip (env : Env) (op : CmpOp) (x y : PV) (hop : op ∈ [CmpOp.lt, .le, .gt, .ge])
    (hx : x.isList = false) (hy : y.isList = false) :
    ∃ cmp : PV → PV → Outcome Bool,
      (match cmp x y with
       | .ok b =>
         cmpCompare env op false [.resolved x] [.literal y] = .ok (.result [if b then verSuccess x y else verFail x y]) ∧
         cmpCompare env op true [.resolved x] [.literal y] = .ok (.result [if b then verFail x y else verSuccess x y])
       | .err .NotComparable =>
         cmpCompare env op false [.resolved x] [.literal y] = .ok (.result [.cmp (.notComparable x y)]) ∧
         cmpCompare env op true [.resolved x] [.literal y] = .ok (.result [.cmp (.notComparable x y)])
       | _ => True) := by
  have flat : ∀ v : PV, v.isList = false → flattenedVals [.resolved v] = [v] ∧ flattenedVals [.literal v] = [v] := by
    intro v hv; cases v <;> simp [PV.isList] at hv <;> simp [flattenedVals]
  have key : ∀ (c : PV → PV → Outcome Bool),
      commonCompare c [.resolved x] [.literal y] =
        (match matchValue c x y with
         | .ok v => .ok (.result [v]) | .err e => .err e | .panic s => .panic s | .outOfFuel => .outOfFuel) := by
    intro c
    simp only [commonCompare, (flat x hx).1, (flat y hy).2, unresolvedOf, List.map_nil, List.flatMap_nil,
      List.nil_append, mapMOutcome]
    cases matchValue c x y <;> simp [mapMOutcome]
  simp only [List.mem_cons, List.mem_nil_iff, or_false] at hop
  rcases hop with rfl | rfl | rfl | rfl
  all_goals first
    | (refine ⟨compareLt, ?_⟩
       simp only [cmpCompare, opCompare, List.isEmpty_cons, Bool.or_self, Bool.false_eq_true, ↓reduceIte, key]
       cases h : compareLt x y with
       | ok b => cases b <;> simp [matchValue, h, mapMOutcome, flipVER, verSuccess, verFail]
       | err e => cases e <;> simp [matchValue, h, mapMOutcome, flipVER]
       | panic s => trivial
       | outOfFuel => trivial; done)
    | (refine ⟨compareLe, ?_⟩
       simp only [cmpCompare, opCompare, List.isEmpty_cons, Bool.or_self, Bool.false_eq_true, ↓reduceIte, key]
       cases h : compareLe x y with
       | ok b => cases b <;> simp [matchValue, h, mapMOutcome, flipVER, verSuccess, verFail]
       | err e => cases e <;> simp [matchValue, h, mapMOutcome, flipVER]
       | panic s => trivial
       | outOfFuel => trivial; done)
    | (refine ⟨compareGt, ?_⟩
       simp only [cmpCompare, opCompare, List.isEmpty_cons, Bool.or_self, Bool.false_eq_true, ↓reduceIte, key]
       cases h : compareGt x y with
       | ok b => cases b <;> simp [matchValue, h, mapMOutcome, flipVER, verSuccess, verFail]
       | err e => cases e <;> simp [matchValue, h, mapMOutcome, flipVER]
       | panic s => trivial
       | outOfFuel => trivial; done)
    | (refine ⟨compareGe, ?_⟩
       simp only [cmpCompare, opCompare, List.isEmpty_cons, Bool.or_self, Bool.false_eq_true, ↓reduceIte, key]
       cases h : compareGe x y with
       | ok b => cases b <;> simp [matchValue, h, mapMOutcome, flipVER, verSuccess, verFail]
       | err e => cases e <;> simp [matchValue, h, mapMOutcome, flipVER]
       | panic s => trivial
       | outOfFuel => trivial; done)

/-- `not X > v` holds exactly when `X <= v` does (and the three other pairings), on
    same-ordered-type scalars. -/
theorem C03_not_gt_iff_le (a b : PV) (h : C13.sameOrdered a b = true) :
    (∃ r, compareGt a b = .ok r ∧ compareLe a b = .ok (!r)) ∧
    (∃ r, compareLt a b = .ok r ∧ compareGe a b = .ok (!r)) := by
  obtain ⟨o, ho⟩ := C13.C13_ordering_defined a b h
  simp only [compareGt, compareLe, compareLt, compareGe, cmpWith, ho]
  cases o <;> simp

/-- `not R` for a rule name R is PASS exactly when R is not PASS; SKIP never comes out. -/
theorem C03_named (s : Status) :
    (namedStatus true s = .pass ↔ s ≠ .pass) ∧ (namedStatus false s = .pass ↔ s = .pass) := by
  cases s <;> simp [namedStatus]

-- Non-vacuity
example : (CmpOp.eq).isUnary = false := rfl
example : unaryCheck .exists_ false true (.resolved (.null Path.root)) = .ok false := rfl

end Guard.C03
