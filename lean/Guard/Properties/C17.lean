import Guard.Model.Merge
/-
  C17 — input parameters are merged into the data without loss or silent override.
-/
set_option linter.unusedSimpArgs false
namespace Guard.C17
open Guard

def keysOf (ks : List (Path × Str)) : List Str := ks.map (·.2)

theorem hasKey_iff (ks : List (Path × Str)) (k : Str) : hasKey ks k = true ↔ k ∈ keysOf ks := by
  unfold hasKey keysOf
  rw [List.any_eq_true]
  constructor
  · rintro ⟨e, he, h⟩; rw [beq_iff_eq] at h; exact List.mem_map.mpr ⟨e, he, h⟩
  · intro h; obtain ⟨e, he, rfl⟩ := List.mem_map.mp h; exact ⟨e, he, by simp⟩

/-- the loop succeeds iff no incoming key is already present (incoming keys pairwise distinct) -/
theorem mergeEntries_ok_iff (p2 : Path) (ks : List (Path × Str)) (vs : List PV)
    (oks : List (Path × Str)) (ovs : List PV) (hlen : oks.length = ovs.length) :
    (∃ r, mergeEntries p2 ks vs oks ovs = .ok r) ↔
      (∀ k ∈ keysOf oks, k ∉ keysOf ks) ∧ (keysOf oks).Nodup := by
  induction oks generalizing ks vs ovs with
  | nil => simp [mergeEntries, keysOf]
  | cons e rest ih =>
    obtain ⟨pe, k⟩ := e
    cases ovs with
    | nil => simp at hlen
    | cons v ovs' =>
      have hlen' : rest.length = ovs'.length := by simpa using hlen
      simp only [mergeEntries]
      by_cases hk : hasKey ks k = true
      · simp only [hk, ↓reduceIte]
        constructor
        · rintro ⟨r, hr⟩; cases hr
        · rintro ⟨h1, _⟩
          exact absurd ((hasKey_iff ks k).mp hk) (h1 k (by simp [keysOf]))
      · have hk' : hasKey ks k = false := by
          cases hh : hasKey ks k
          · rfl
          · exact absurd hh hk
        have hknot : k ∉ keysOf ks := fun h => hk ((hasKey_iff ks k).mpr h)
        simp only [hk', Bool.false_eq_true, ↓reduceIte]
        rw [ih (ks ++ [(p2.extendStr k, k)]) (vs ++ [v]) ovs' hlen']
        simp only [keysOf, List.map_append, List.map_cons, List.map_nil, List.mem_append, List.mem_cons,
          List.mem_nil_iff, or_false, List.nodup_cons]
        constructor
        · rintro ⟨h1, h2⟩
          refine ⟨?_, ?_, h2⟩
          · intro x hx
            rcases hx with rfl | hx
            · exact hknot
            · exact fun hin => h1 x hx (Or.inl hin)
          · intro hin; exact h1 k hin (Or.inr rfl)
        · rintro ⟨h1, h2, h3⟩
          refine ⟨?_, h3⟩
          intro x hx hor
          rcases hor with hin | rfl
          · exact h1 x (Or.inr hx) hin
          · exact h2 hx

/-- on success the result is the old entries followed by the incoming ones: nothing lost,
    nothing overridden, keys and values stay aligned -/
theorem mergeEntries_result (p2 : Path) (ks : List (Path × Str)) (vs : List PV)
    (oks : List (Path × Str)) (ovs : List PV) (hlen : oks.length = ovs.length)
    (ks' : List (Path × Str)) (vs' : List PV) (h : mergeEntries p2 ks vs oks ovs = .ok (ks', vs')) :
    keysOf ks' = keysOf ks ++ keysOf oks ∧ vs' = vs ++ ovs := by
  induction oks generalizing ks vs ovs with
  | nil =>
    cases ovs <;> simp [mergeEntries] at h <;> obtain ⟨rfl, rfl⟩ := h <;> simp [keysOf] at hlen ⊢
  | cons e rest ih =>
    obtain ⟨pe, k⟩ := e
    cases ovs with
    | nil => simp at hlen
    | cons v ovs' =>
      have hlen' : rest.length = ovs'.length := by simpa using hlen
      simp only [mergeEntries] at h
      by_cases hk : hasKey ks k = true
      · simp [hk] at h
      · have hk' : hasKey ks k = false := by
          cases hh : hasKey ks k
          · rfl
          · exact absurd hh hk
        simp only [hk', Bool.false_eq_true, ↓reduceIte] at h
        obtain ⟨h1, h2⟩ := ih _ _ _ hlen' h
        refine ⟨?_, ?_⟩
        · rw [h1]; simp [keysOf, List.append_assoc]
        · rw [h2]; simp [List.append_assoc]

/-- **merge succeeds iff the top-level key sets are disjoint; otherwise it is an error
    (`MultipleValues`), never a silent choice.** -/
theorem C17_merge_ok_iff (p p2 : Path) (ks oks : List (Path × Str)) (vs ovs : List PV)
    (hlen : oks.length = ovs.length) (hnd : (keysOf oks).Nodup) :
    ((∃ m, PV.merge (.map p ks vs) (.map p2 oks ovs) = .ok m) ↔ ∀ k ∈ keysOf oks, k ∉ keysOf ks) ∧
    ((¬ ∀ k ∈ keysOf oks, k ∉ keysOf ks) → PV.merge (.map p ks vs) (.map p2 oks ovs) = .err .MultipleValues) := by
  have key := mergeEntries_ok_iff p2 ks vs oks ovs hlen
  have errOnly : ∀ ks vs oks ovs, (∀ r, mergeEntries p2 ks vs oks ovs ≠ .ok r) →
      mergeEntries p2 ks vs oks ovs = .err .MultipleValues := by
    intro ks vs oks
    induction oks generalizing ks vs with
    | nil =>
      intro ovs h
      have : mergeEntries p2 ks vs [] ovs = .ok (ks, vs) := by cases ovs <;> simp [mergeEntries]
      exact absurd this (h (ks, vs))
    | cons e rest ih =>
      intro ovs h
      obtain ⟨pe, k⟩ := e
      cases ovs with
      | nil =>
        have : mergeEntries p2 ks vs ((pe, k) :: rest) [] = .ok (ks, vs) := by simp [mergeEntries]
        exact absurd this (h (ks, vs))
      | cons v ovs' =>
        simp only [mergeEntries] at h ⊢
        by_cases hk : hasKey ks k = true
        · simp [hk]
        · have hk' : hasKey ks k = false := by
            cases hh : hasKey ks k
            · rfl
            · exact absurd hh hk
          simp only [hk', Bool.false_eq_true, ↓reduceIte] at h ⊢
          exact ih _ _ _ h
  constructor
  · constructor
    · rintro ⟨m, hm⟩
      simp only [PV.merge] at hm
      cases hme : mergeEntries p2 ks vs oks ovs with
      | ok r => exact (key.mp ⟨r, hme⟩).1
      | err e => simp [hme] at hm
      | panic s => simp [hme] at hm
      | outOfFuel => simp [hme] at hm
    · intro h
      obtain ⟨r, hr⟩ := key.mpr ⟨h, hnd⟩
      exact ⟨.map p r.1 r.2, by simp [PV.merge, hr]⟩
  · intro h
    have : ∀ r, mergeEntries p2 ks vs oks ovs ≠ .ok r := by
      intro r hr
      exact h (key.mp ⟨r, hr⟩).1
    simp [PV.merge, errOnly ks vs oks ovs this]

/-- **the merged document is the disjoint union**: every key of either side is there with its
    value; parameters first, then the data file's keys, each in its own order -/
theorem C17_merge_union (p p2 : Path) (ks oks : List (Path × Str)) (vs ovs : List PV)
    (hlen : oks.length = ovs.length) (m : PV) (h : PV.merge (.map p ks vs) (.map p2 oks ovs) = .ok m) :
    ∃ ks', m = .map p ks' (vs ++ ovs) ∧ keysOf ks' = keysOf ks ++ keysOf oks := by
  simp only [PV.merge] at h
  cases hme : mergeEntries p2 ks vs oks ovs with
  | ok r =>
    obtain ⟨rk, rv⟩ := r
    simp [hme] at h
    obtain ⟨h1, h2⟩ := mergeEntries_result p2 ks vs oks ovs hlen rk rv hme
    exact ⟨rk, by rw [← h, h2], h1⟩
  | err e => simp [hme] at h
  | panic s => simp [hme] at h
  | outOfFuel => simp [hme] at h

/-- keys and values stay aligned (same length) -/
theorem C17_merge_aligned (p p2 : Path) (ks oks : List (Path × Str)) (vs ovs : List PV)
    (ha : ks.length = vs.length) (hlen : oks.length = ovs.length) (m : PV)
    (h : PV.merge (.map p ks vs) (.map p2 oks ovs) = .ok m) :
    ∃ ks' vs', m = .map p ks' vs' ∧ ks'.length = vs'.length := by
  obtain ⟨ks', rfl, hk⟩ := C17_merge_union p p2 ks oks vs ovs hlen m h
  refine ⟨ks', vs ++ ovs, rfl, ?_⟩
  have : (keysOf ks').length = (keysOf ks ++ keysOf oks).length := by rw [hk]
  simpa [keysOf, ha, hlen] using this

/-- a document that is not a struct cannot be merged: an error, not a guess -/
theorem C17_non_struct_is_error (a b : PV) (ha : a.isMap = false ∨ b.isMap = false)
    (hl : ¬ (a.isList = true ∧ b.isList = true)) : PV.merge a b = .err .IncompatibleError := by
  cases a <;> cases b <;> simp [PV.isMap, PV.isList] at ha hl <;> simp [PV.merge]

/-- without parameter files the data file is evaluated as is -/
theorem C17_no_params (d : PV) : effectiveDoc none d = .ok d := rfl

-- Non-vacuity
example : (match PV.merge (.map Path.root [(Path.root, "a".toList)] [.int Path.root 1])
                   (.map Path.root [(Path.root, "a".toList)] [.int Path.root 2]) with
           | .err .MultipleValues => true | _ => false) = true := by
  decide
example : (PV.merge (.map Path.root [(Path.root, "a".toList)] [.int Path.root 1])
                    (.map Path.root [(Path.root, "b".toList)] [.int Path.root 2])).isOk = true := by
  decide

end Guard.C17
