import Guard.Model.Merge
/-
  C17 — input parameters are merged into the data without loss or silent override.
-/
set_option linter.unusedSimpArgs false
namespace Guard.C17
open Guard

def keysOf (ks : List (Path × Str)) : List Str := ks.map (·.2)

theorem hasKey_iff (ks : List (Path × Str)) (k : Str) : hasKey ks k = true ↔ k ∈ keysOf ks := by
  unfold hasKey keysOf
  rw [List.any_eq_true]
  constructor
  · rintro ⟨e, he, h⟩; rw [beq_iff_eq] at h; exact List.mem_map.mpr ⟨e, he, h⟩
  · intro h; obtain ⟨e, he, rfl⟩ := List.mem_map.mp h; exact ⟨e, he, by simp⟩

/-- the loop succeeds iff no incoming key is already present (incoming keys pairwise distinct) -/
theorem mergeEntries_ok_iff (p2 : Path) (ks : List (Path × Str)) (vs : List PV)
    (oks : List (Path × Str)) (ovs : List PV) (hlen : oks.length = ovs.length) :
    (∃ r, mergeEntries p2 ks vs oks ovs = .ok r) ↔
      (∀ k ∈ keysOf oks, k ∉ keysOf ks) ∧ (keysOf oks).Nodup := by
  induction oks generalizing ks vs ovs with
  | nil => simp [mergeEntries, keysOf]
  | cons e rest ih =>
    obtain ⟨pe, k⟩ := e
    cases ovs with
    | nil => simp at hlen
    | cons v ovs' =>
      have hlen' : rest.length = ovs'.length := by simpa using hlen
      simp only [mergeEntries]
      by_cases hk : hasKey ks k = true
      · simp only [hk, ↓reduceIte]
        constructor
        · rintro ⟨r, hr⟩; cases hr
        · rintro ⟨h1, _⟩
          exact absurd ((hasKey_iff ks k).mp hk) (h1 k (by simp [keysOf]))
      · have hk' : hasKey ks k = false := by
          cases hh : hasKey ks k
          · rfl
          · exact absurd hh hk
        have hknot : k ∉ keysOf ks := fun h => hk ((hasKey_iff ks k).mpr h)
        simp only [hk', Bool.false_eq_true, ↓reduceIte]
        rw [ih (ks ++ [(p2.extendStr k, k)]) (vs ++ [v]) ovs' hlen']
        simp only [keysOf, List.map_append, List.map_cons, List.map_nil, List.mem_append, List.mem_cons,
          List.mem_nil_iff, or_false, List.nodup_cons]
        constructor
        · rintro ⟨h1, h2⟩
          refine ⟨?_, ?_, h2⟩
          · intro x hx
            rcases hx with rfl | hx
            · exact hknot
            · exact fun hin => h1 x hx (Or.inl hin)
          · intro hin; exact h1 k hin (Or.inr rfl)
        · rintro ⟨h1, h2, h3⟩
          refine ⟨?_, h3⟩
          intro x hx hor
          rcases hor with hin | rfl
          · exact h1 x (Or.inr hx) hin
          · exact h2 hx

/-- on success the result is the old entries followed by the incoming ones: nothing lost,
    nothing overridden, keys and values stay aligned -/
theorem mergeEntries_result (p2 : Path) (ks : List (Path × Str)) (vs : List PV)
    (oks : List (Path × Str)) (ovs : List PV) (hlen : oks.length = ovs.length)
    (ks' : List (Path × Str)) (vs' : List PV) (h : mergeEntries p2 ks vs oks ovs = .ok (ks', vs')) :
    keysOf ks' = keysOf ks ++ keysOf oks ∧ vs' = vs ++ ovs := by
  induction oks generalizing ks vs ovs with
  | nil =>
    cases ovs <;> simp [mergeEntries] at h <;> obtain ⟨rfl, rfl⟩ := h <;> simp [keysOf] at hlen ⊢
  | cons e rest ih =>
    obtain ⟨pe, k⟩ := e
    cases ovs with
    | nil => simp at hlen
    | cons v ovs' =>
      have hlen' : rest.length = ovs'.length := by simpa using hlen
      simp only [mergeEntries] at h
      by_cases hk : hasKey ks k = true
      · simp [hk] at h
      · have hk' : hasKey ks k = false := by
          cases hh : hasKey ks k
          · rfl
          · exact absurd hh hk
        simp only [hk', Bool.false_eq_true, ↓reduceIte] at h
        obtain ⟨h1, h2⟩ := ih _ _ _ hlen' h
        refine ⟨?_, ?_⟩
        · rw [h1]; simp [keysOf, List.append_assoc]
        · rw [h2]; simp [List.append_assoc]

/-- **merge succeeds iff the top-level key sets are disjoint; otherwise it is an error
    (`MultipleValues`), never a silent choice.** -/
theorem C17_merge_ok_iff (p p2 : Path) (ks oks : List (Path × Str)) (vs ovs : List PV)
    (hlen : oks.length = ovs.length) (hnd : (keysOf oks).Nodup) :
    ((∃ m, PV.merge (.map p ks vs) (.map p2 oks ovs) = .ok m) ↔ ∀ k ∈ keysOf oks, k ∉ keysOf ks) ∧
    ((¬ ∀ k ∈ keysOf oks, k ∉ keysOf ks) → PV.merge (.map p ks vs) (.map p2 oks ovs) = .err .MultipleValues) := by
  have key := mergeEntries_ok_iff p2 ks vs oks ovs hlen
  have errOnly : ∀ ks vs oks ovs, (∀ r, mergeEntries p2 ks vs oks ovs ≠ .ok r) →
      mergeEntries p2 ks vs oks ovs = .err .MultipleValues := by
    intro ks vs oks
    induction oks generalizing ks vs with
    | nil =>
      intro ovs h
      have : mergeEntries p2 ks vs [] ovs = .ok (ks, vs) := by cases ovs <;> simp [mergeEntries]
      exact absurd this (h (ks, vs))
    | cons e rest ih =>
      intro ovs h
      obtain ⟨pe, k⟩ := e
      cases ovs with
      | nil =>
        have : mergeEntries p2 ks vs ((pe, k) :: rest) [] = .ok (ks, vs) := by simp [mergeEntries]
        exact absurd this (h (ks, vs))
      | cons v ovs' =>
        simp only [mergeEntries] at h ⊢
        by_cases hk : hasKey ks k = true
        · simp [hk]
        · have hk' : hasKey ks k = false := by
            cases hh : hasKey ks k
            · rfl
            · exact absurd hh hk
          simp only [hk', Bool.false_eq_true, ↓reduceIte] at h ⊢
          exact ih _ _ _ h
  constructor
  · constructor
    · rintro ⟨m, hm⟩
      simp only [PV.merge] at hm
      cases hme : mergeEntries p2 ks vs oks ovs with
      | ok r => exact (key.mp ⟨r, hme⟩).1
      | err e => simp [hme] at hm
      | panic s => simp [hme] at hm
      | outOfFuel => simp [hme] at hm
    · intro h
      obtain ⟨r, hr⟩ := key.mpr ⟨h, hnd⟩
      exact ⟨.map p r.1 r.2, by simp [PV.merge, hr]⟩
  · intro h
    have : ∀ r, mergeEntries p2 ks vs oks ovs ≠ .ok r := by
      intro r hr
      exact h (key.mp ⟨r, hr⟩).1
    simp [PV.merge, errOnly ks vs oks ovs this]

/-- **the merged document is the disjoint union**: every key of either side is there with its
    value; parameters first, then the data file's keys, each in its own order -/
theorem C17_merge_union (p p2 : Path) (ks oks : List (Path × Str)) (vs ovs : List PV)
    (hlen : oks.length = ovs.length) (m : PV) (h : PV.merge (.map p ks vs) (.map p2 oks ovs) = .ok m) :
    ∃ ks', m = .map p ks' (vs ++ ovs) ∧ keysOf ks' = keysOf ks ++ keysOf oks := by
  simp only [PV.merge] at h
  cases hme : mergeEntries p2 ks vs oks ovs with
  | ok r =>
    obtain ⟨rk, rv⟩ := r
    simp [hme] at h
    obtain ⟨h1, h2⟩ := mergeEntries_result p2 ks vs oks ovs hlen rk rv hme
    exact ⟨rk, by rw [← h, h2], h1⟩
  | err e => simp [hme] at h
  | panic s => simp [hme] at h
  | outOfFuel => simp [hme] at h

/-- keys and values stay aligned (same length) -/
theorem C17_merge_aligned (p p2 : Path) (ks oks : List (Path × Str)) (vs ovs : List PV)
    (ha : ks.length = vs.length) (hlen : oks.length = ovs.length) (m : PV)
    (h : PV.merge (.map p ks vs) (.map p2 oks ovs) = .ok m) :
    ∃ ks' vs', m = .map p ks' vs' ∧ ks'.length = vs'.length := by
  obtain ⟨ks', rfl, hk⟩ := C17_merge_union p p2 ks oks vs ovs hlen m h
  refine ⟨ks', vs ++ ovs, rfl, ?_⟩
  have : (keysOf ks').length = (keysOf ks ++ keysOf oks).length := by rw [hk]
  simpa [keysOf, ha, hlen] using this

/-- a document that is not a struct cannot be merged: an error, not a guess -/
theorem C17_non_struct_is_error (a b : PV) (ha : a.isMap = false ∨ b.isMap = false)
    (hl : ¬ (a.isList = true ∧ b.isList = true)) : PV.merge a b = .err .IncompatibleError := by
  cases a <;> cases b <;> simp [PV.isMap, PV.isList] at ha hl <;> simp [PV.merge]

/-- without parameter files the data file is evaluated as is -/
theorem C17_no_params (d : PV) : effectiveDoc none d = .ok d := rfl

-- Non-vacuity
example : (match PV.merge (.map Path.root [(Path.root, "a".toList)] [.int Path.root 1])
                   (.map Path.root [(Path.root, "a".toList)] [.int Path.root 2]) with
           | .err .MultipleValues => true | _ => false) = true := by
  decide
example : (PV.merge (.map Path.root [(Path.root, "a".toList)] [.int Path.root 1])
                    (.map Path.root [(Path.root, "b".toList)] [.int Path.root 2])).isOk = true := by
  decide

/-! ### Order independence (two sources) -/

/-- the entries of a struct as (key, value) pairs, in document order -/
def entriesOf (ks : List (Path × Str)) (vs : List PV) : List (Str × PV) := (keysOf ks).zip vs

/-- **whether two sources can be merged does not depend on which one comes first** -/
theorem C17_merge_ok_symmetric (p p2 : Path) (ks oks : List (Path × Str)) (vs ovs : List PV)
    (ha : ks.length = vs.length) (hb : oks.length = ovs.length)
    (hna : (keysOf ks).Nodup) (hnb : (keysOf oks).Nodup) :
    (∃ m, PV.merge (.map p ks vs) (.map p2 oks ovs) = .ok m) ↔
    (∃ m, PV.merge (.map p2 oks ovs) (.map p ks vs) = .ok m) := by
  rw [(C17_merge_ok_iff p p2 ks oks vs ovs hb hnb).1, (C17_merge_ok_iff p2 p oks ks ovs vs ha hna).1]
  constructor
  · intro h k hk hk'; exact h k hk' hk
  · intro h k hk hk'; exact h k hk' hk

/-- **and when they can, both orders give the same entries up to their order in the struct**:
    every (key, value) pair of one result is a pair of the other, with the same multiplicity -/
theorem C17_merge_order_independent (p p2 : Path) (ks oks : List (Path × Str)) (vs ovs : List PV)
    (ha : ks.length = vs.length) (hb : oks.length = ovs.length) (m1 m2 : PV)
    (h1 : PV.merge (.map p ks vs) (.map p2 oks ovs) = .ok m1)
    (h2 : PV.merge (.map p2 oks ovs) (.map p ks vs) = .ok m2) :
    ∃ k1 v1 k2 v2 q1 q2, m1 = .map q1 k1 v1 ∧ m2 = .map q2 k2 v2 ∧
      (entriesOf k1 v1).Perm (entriesOf k2 v2) := by
  obtain ⟨k1, rfl, hk1⟩ := C17_merge_union p p2 ks oks vs ovs hb m1 h1
  obtain ⟨k2, rfl, hk2⟩ := C17_merge_union p2 p oks ks ovs vs ha m2 h2
  refine ⟨k1, vs ++ ovs, k2, ovs ++ vs, p, p2, rfl, rfl, ?_⟩
  unfold entriesOf
  rw [hk1, hk2]
  have la : (keysOf ks).length = vs.length := by simpa [keysOf] using ha
  have lb : (keysOf oks).length = ovs.length := by simpa [keysOf] using hb
  rw [List.zip_append la, List.zip_append lb]
  exact List.perm_append_comm

-- Non-vacuity: two disjoint one-key documents merge in both orders
example : (PV.merge (.map Path.root [(Path.root, "b".toList)] [.int Path.root 2])
                    (.map Path.root [(Path.root, "a".toList)] [.int Path.root 1])).isOk = true := by
  decide

/-! ### Order independence (any number of parameter files) -/

/-- a struct document: its path, key entries and values -/
abbrev Doc := Path × List (Path × Str) × List PV
def Doc.toPV (d : Doc) : PV := .map d.1 d.2.1 d.2.2
def Doc.aligned (d : Doc) : Prop := d.2.1.length = d.2.2.length
def allKeys (ds : List Doc) : List Str := ds.flatMap fun d => keysOf d.2.1
def allEntries (ds : List Doc) : List (Str × PV) := ds.flatMap fun d => entriesOf d.2.1 d.2.2

theorem merge_ok_iff' (p p2 : Path) (ks oks : List (Path × Str)) (vs ovs : List PV)
    (hlen : oks.length = ovs.length) :
    (∃ m, PV.merge (.map p ks vs) (.map p2 oks ovs) = .ok m) ↔
      (∀ k ∈ keysOf oks, k ∉ keysOf ks) ∧ (keysOf oks).Nodup := by
  rw [← mergeEntries_ok_iff p2 ks vs oks ovs hlen]
  simp only [PV.merge]
  cases hme : mergeEntries p2 ks vs oks ovs with
  | ok r => exact ⟨fun _ => ⟨r, rfl⟩, fun _ => ⟨_, rfl⟩⟩
  | err e => exact ⟨fun ⟨m, hm⟩ => (by cases hm), fun ⟨r, hr⟩ => (by cases hr)⟩
  | panic s => exact ⟨fun ⟨m, hm⟩ => (by cases hm), fun ⟨r, hr⟩ => (by cases hr)⟩
  | outOfFuel => exact ⟨fun ⟨m, hm⟩ => (by cases hm), fun ⟨r, hr⟩ => (by cases hr)⟩

/-- the left-to-right fold over the parameter files succeeds iff ALL top-level keys are pairwise distinct -/
theorem go_ok_iff (qs : List Doc) (hq : ∀ d ∈ qs, d.aligned) (p : Path) (ks : List (Path × Str)) (vs : List PV)
    (hks : (keysOf ks).Nodup) :
    (∃ m, mergeParams.go (.map p ks vs) (qs.map Doc.toPV) = .ok m) ↔ (keysOf ks ++ allKeys qs).Nodup := by
  induction qs generalizing ks vs with
  | nil => simp [mergeParams.go, allKeys, hks]
  | cons q qs ih =>
    obtain ⟨p2, oks, ovs⟩ := q
    have hlen : oks.length = ovs.length := hq (p2, oks, ovs) (by simp)
    have hq' : ∀ d ∈ qs, d.aligned := fun d hd => hq d (by simp [hd])
    have hmk := merge_ok_iff' p p2 ks oks vs ovs hlen
    have hflat : allKeys ((p2, oks, ovs) :: qs) = keysOf oks ++ allKeys qs := by simp [allKeys]
    rw [hflat]
    simp only [List.map_cons, mergeParams.go, Doc.toPV]
    cases hm : PV.merge (.map p ks vs) (.map p2 oks ovs) with
    | ok m' =>
      obtain ⟨hdis, hnd⟩ := hmk.mp ⟨m', hm⟩
      obtain ⟨k', rfl, hk'⟩ := C17_merge_union p p2 ks oks vs ovs hlen m' hm
      have hk'nd : (keysOf k').Nodup := by
        rw [hk']; exact List.nodup_append.mpr ⟨hks, hnd, fun a ha b hb hab => hdis b hb (hab ▸ ha)⟩
      rw [ih hq' k' (vs ++ ovs) hk'nd, hk', List.append_assoc]
    | err e =>
      constructor
      · rintro ⟨m, hm'⟩; cases hm'
      · intro hn
        rw [← List.append_assoc] at hn
        have h1 := (List.nodup_append.mp hn).1
        obtain ⟨_, hnd, hdis⟩ := List.nodup_append.mp h1
        obtain ⟨m', hm'⟩ := hmk.mpr ⟨fun k hk hk' => hdis k hk' k hk rfl, hnd⟩
        rw [hm] at hm'; cases hm'
    | panic s =>
      constructor
      · rintro ⟨m, hm'⟩; cases hm'
      · intro hn
        rw [← List.append_assoc] at hn
        have h1 := (List.nodup_append.mp hn).1
        obtain ⟨_, hnd, hdis⟩ := List.nodup_append.mp h1
        obtain ⟨m', hm'⟩ := hmk.mpr ⟨fun k hk hk' => hdis k hk' k hk rfl, hnd⟩
        rw [hm] at hm'; cases hm'
    | outOfFuel =>
      constructor
      · rintro ⟨m, hm'⟩; cases hm'
      · intro hn
        rw [← List.append_assoc] at hn
        have h1 := (List.nodup_append.mp hn).1
        obtain ⟨_, hnd, hdis⟩ := List.nodup_append.mp h1
        obtain ⟨m', hm'⟩ := hmk.mpr ⟨fun k hk hk' => hdis k hk' k hk rfl, hnd⟩
        rw [hm] at hm'; cases hm'

/-- on success the result holds the entries of every file, in the order the files were given -/
theorem go_result (qs : List Doc) (hq : ∀ d ∈ qs, d.aligned) (p : Path) (ks : List (Path × Str)) (vs : List PV)
    (ha : ks.length = vs.length) (m : PV)
    (h : mergeParams.go (.map p ks vs) (qs.map Doc.toPV) = .ok m) :
    ∃ k' v', m = .map p k' v' ∧ entriesOf k' v' = entriesOf ks vs ++ allEntries qs := by
  induction qs generalizing ks vs with
  | nil =>
    simp only [List.map_nil, mergeParams.go] at h
    cases h
    exact ⟨ks, vs, rfl, by simp [allEntries]⟩
  | cons q qs ih =>
    obtain ⟨p2, oks, ovs⟩ := q
    have hlen : oks.length = ovs.length := hq (p2, oks, ovs) (by simp)
    have hq' : ∀ d ∈ qs, d.aligned := fun d hd => hq d (by simp [hd])
    simp only [List.map_cons, mergeParams.go, Doc.toPV] at h
    cases hm : PV.merge (.map p ks vs) (.map p2 oks ovs) with
    | ok m' =>
      rw [hm] at h
      obtain ⟨k', rfl, hk'⟩ := C17_merge_union p p2 ks oks vs ovs hlen m' hm
      have ha' : k'.length = (vs ++ ovs).length := by
        have : (keysOf k').length = (keysOf ks ++ keysOf oks).length := by rw [hk']
        simpa [keysOf, ha, hlen] using this
      obtain ⟨k'', v'', rfl, he⟩ := ih hq' k' (vs ++ ovs) ha' h
      refine ⟨k'', v'', rfl, ?_⟩
      rw [he]
      have la : (keysOf ks).length = vs.length := by simpa [keysOf] using ha
      simp only [entriesOf, hk', allEntries, List.flatMap_cons]
      rw [List.zip_append la, List.append_assoc]
    | err e => rw [hm] at h; cases h
    | panic s => rw [hm] at h; cases h
    | outOfFuel => rw [hm] at h; cases h

theorem mergeParams_cons (d : Doc) (ds : List Doc) :
    mergeParams ((d :: ds).map Doc.toPV) =
      (match mergeParams.go d.toPV (ds.map Doc.toPV) with
       | .ok m => .ok (some m) | .err e => .err e | .panic s => .panic s | .outOfFuel => .outOfFuel) := by
  simp only [List.map_cons, mergeParams]; rfl

/-- **the parameter files can be merged iff all their top-level keys are pairwise distinct** (each file being a
    struct with distinct keys, as the loader produces them) -/
theorem C17_params_ok_iff (d : Doc) (ds : List Doc) (hq : ∀ x ∈ d :: ds, x.aligned) (hd : (keysOf d.2.1).Nodup) :
    (∃ m, mergeParams ((d :: ds).map Doc.toPV) = .ok (some m)) ↔ (allKeys (d :: ds)).Nodup := by
  have hflat : allKeys (d :: ds) = keysOf d.2.1 ++ allKeys ds := by simp [allKeys]
  rw [hflat, ← go_ok_iff ds (fun x hx => hq x (by simp [hx])) d.1 d.2.1 d.2.2 hd, mergeParams_cons]
  show _ ↔ ∃ m, mergeParams.go d.toPV (ds.map Doc.toPV) = .ok m
  cases mergeParams.go d.toPV (ds.map Doc.toPV) with
  | ok m => exact ⟨fun _ => ⟨m, rfl⟩, fun _ => ⟨m, rfl⟩⟩
  | err e => exact ⟨fun ⟨m, hm⟩ => (by cases hm), fun ⟨m, hm⟩ => (by cases hm)⟩
  | panic s => exact ⟨fun ⟨m, hm⟩ => (by cases hm), fun ⟨m, hm⟩ => (by cases hm)⟩
  | outOfFuel => exact ⟨fun ⟨m, hm⟩ => (by cases hm), fun ⟨m, hm⟩ => (by cases hm)⟩

/-- **every order of the parameter files is as good as any other**: if the files merge in one order they merge in
    every order, and the merged documents hold the same (key, value) entries (as multisets; only the order of the
    keys inside the struct follows the order of the files) -/
theorem C17_params_order_independent (d : Doc) (ds : List Doc) (d' : Doc) (ds' : List Doc)
    (hperm : (d :: ds).Perm (d' :: ds')) (hq : ∀ x ∈ d :: ds, x.aligned)
    (hnd : ∀ x ∈ d :: ds, (keysOf x.2.1).Nodup) (m : PV)
    (h : mergeParams ((d :: ds).map Doc.toPV) = .ok (some m)) :
    ∃ m', mergeParams ((d' :: ds').map Doc.toPV) = .ok (some m') ∧
      ∃ p k v p' k' v', m = .map p k v ∧ m' = .map p' k' v' ∧ (entriesOf k v).Perm (entriesOf k' v') := by
  have hq' : ∀ x ∈ d' :: ds', x.aligned := fun x hx => hq x (hperm.mem_iff.mpr hx)
  have hd' : (keysOf d'.2.1).Nodup := hnd d' (hperm.mem_iff.mpr (by simp))
  have hok := (C17_params_ok_iff d ds hq (hnd d (by simp))).mp ⟨m, h⟩
  have hkp : (allKeys (d :: ds)).Perm (allKeys (d' :: ds')) := List.Perm.flatMap_right _ hperm
  obtain ⟨m', hm'⟩ := (C17_params_ok_iff d' ds' hq' hd').mpr (hkp.nodup hok)
  refine ⟨m', hm', ?_⟩
  -- both results hold the entries of all their files
  rw [mergeParams_cons] at h hm'
  cases hg : mergeParams.go d.toPV (ds.map Doc.toPV) with
  | ok r =>
    rw [hg] at h
    cases hg' : mergeParams.go d'.toPV (ds'.map Doc.toPV) with
    | ok r' =>
      rw [hg'] at hm'
      simp only [Outcome.ok.injEq, Option.some.injEq] at h hm'
      subst h; subst hm'
      obtain ⟨k, v, rfl, he⟩ := go_result ds (fun x hx => hq x (by simp [hx])) d.1 d.2.1 d.2.2 (hq d (by simp)) r hg
      obtain ⟨k', v', rfl, he'⟩ := go_result ds' (fun x hx => hq' x (by simp [hx])) d'.1 d'.2.1 d'.2.2 (hq' d' (by simp)) r' hg'
      refine ⟨d.1, k, v, d'.1, k', v', rfl, rfl, ?_⟩
      rw [he, he']
      have e1 : entriesOf d.2.1 d.2.2 ++ allEntries ds = allEntries (d :: ds) := by simp [allEntries]
      have e2 : entriesOf d'.2.1 d'.2.2 ++ allEntries ds' = allEntries (d' :: ds') := by simp [allEntries]
      rw [e1, e2]
      exact List.Perm.flatMap_right _ hperm
    | err e => rw [hg'] at hm'; cases hm'
    | panic s => rw [hg'] at hm'; cases hm'
    | outOfFuel => rw [hg'] at hm'; cases hm'
  | err e => rw [hg] at h; cases h
  | panic s => rw [hg] at h; cases h
  | outOfFuel => rw [hg] at h; cases h

-- Non-vacuity: three one-key files, merged in two different orders
example : (mergeParams ([((Path.root, [(Path.root, "a".toList)], [PV.int Path.root 1]) : Doc),
                         (Path.root, [(Path.root, "b".toList)], [PV.int Path.root 2]),
                         (Path.root, [(Path.root, "c".toList)], [PV.int Path.root 3])].map Doc.toPV)).isOk = true := by
  decide

/-! ### The whole pipeline: parameter files, then the data file -/

theorem mergedDocument_cons (d : Doc) (ds : List Doc) (data : Doc) :
    mergedDocument ((d :: ds).map Doc.toPV) data.toPV = mergeParams.go d.toPV ((ds ++ [data]).map Doc.toPV) := by
  have hgo : ∀ (qs : List Doc) (acc : PV),
      mergeParams.go acc ((qs ++ [data]).map Doc.toPV) =
        (match mergeParams.go acc (qs.map Doc.toPV) with
         | .ok m => m.merge data.toPV | .err e => .err e | .panic s => .panic s | .outOfFuel => .outOfFuel) := by
    intro qs
    induction qs with
    | nil =>
      intro acc
      simp only [List.nil_append, List.map_cons, List.map_nil, mergeParams.go]
      cases acc.merge data.toPV <;> rfl
    | cons q qs ih =>
      intro acc
      simp only [List.cons_append, List.map_cons, mergeParams.go]
      cases acc.merge q.toPV with
      | ok m => exact ih m
      | err e => rfl
      | panic s => rfl
      | outOfFuel => rfl
  unfold mergedDocument
  rw [mergeParams_cons, hgo ds d.toPV]
  cases mergeParams.go d.toPV (ds.map Doc.toPV) <;> rfl

/-- **`validate` with parameter files evaluates the disjoint union, or fails**: the parameter files and the data
    file can be combined iff ALL their top-level keys are pairwise distinct; the document the rules then see holds
    exactly the entries of every parameter file followed by those of the data file - nothing lost, nothing overridden -/
theorem C17_merged_document (d : Doc) (ds : List Doc) (data : Doc) (hq : ∀ x ∈ d :: (ds ++ [data]), x.aligned)
    (hd : (keysOf d.2.1).Nodup) :
    ((∃ m, mergedDocument ((d :: ds).map Doc.toPV) data.toPV = .ok m) ↔ (allKeys (d :: (ds ++ [data]))).Nodup) ∧
    (∀ m, mergedDocument ((d :: ds).map Doc.toPV) data.toPV = .ok m →
      ∃ k v, m = .map d.1 k v ∧ entriesOf k v = allEntries (d :: (ds ++ [data]))) := by
  rw [mergedDocument_cons]
  have hq' : ∀ x ∈ ds ++ [data], x.aligned := fun x hx => hq x (List.mem_cons_of_mem _ hx)
  constructor
  · have hflat : allKeys (d :: (ds ++ [data])) = keysOf d.2.1 ++ allKeys (ds ++ [data]) := by simp [allKeys]
    rw [hflat]
    exact go_ok_iff (ds ++ [data]) hq' d.1 d.2.1 d.2.2 hd
  · intro m hm
    obtain ⟨k, v, rfl, he⟩ := go_result (ds ++ [data]) hq' d.1 d.2.1 d.2.2 (hq d (by simp)) m hm
    exact ⟨k, v, rfl, by rw [he]; simp [allEntries]⟩

/-- without parameter files the rules see the data file itself -/
theorem C17_merged_document_no_params (data : PV) : mergedDocument [] data = .ok data := rfl

-- Non-vacuity: two parameter files and a data file with distinct keys
example : (mergedDocument ([((Path.root, [(Path.root, "a".toList)], [PV.int Path.root 1]) : Doc),
                            (Path.root, [(Path.root, "b".toList)], [PV.int Path.root 2])].map Doc.toPV)
            (Doc.toPV (Path.root, [(Path.root, "c".toList)], [PV.int Path.root 3]))).isOk = true := by
  decide
-- .. and a data file that repeats a parameter's key is an error
example : (match mergedDocument ([((Path.root, [(Path.root, "a".toList)], [PV.int Path.root 1]) : Doc)].map Doc.toPV)
            (Doc.toPV (Path.root, [(Path.root, "a".toList)], [PV.int Path.root 1])) with
           | .err .MultipleValues => true | _ => false) = true := by
  decide

end Guard.C17
