import Guard.Properties.C02
import Guard.Lemmas.Monad
/-
  C04 — verdicts do not depend on the order or repetition of clauses and rules.

  What is proved here (for lists of every length): every aggregation the evaluator performs is
  invariant under permutation and duplication of its inputs, and stopping a line at its first PASS
  (the evaluator's short-circuit) yields the same line status as evaluating every alternative, in
  any order.  Together: if the status of each clause is a function of (program, document, scope) —
  i.e. no clause changes what another one sees — the status of every rule and of the file is
  order- and repetition-independent.
  The premise "no clause changes what another one sees" is FALSE of the current code for
  key-capture variables (`Resources[ name | … ]`, `[name]`): `add_variable_capture_key` appends
  to a root-scope list on every evaluation.  That is known finding F-C04-1 (known_findings.json);
  for programs without key captures the premise is checked per case by the judge.
-/
set_option linter.unusedSimpArgs false
namespace Guard.C04
open Guard

/-- the alternatives the evaluator actually evaluates: up to and including the first PASS -/
def evaluatedPrefix : List Status → List Status
  | [] => []
  | s :: rest => if s == .pass then [s] else s :: evaluatedPrefix rest

theorem prefix_no_pass (l : List Status) (h : l.any (· == Status.pass) = false) : evaluatedPrefix l = l := by
  induction l with
  | nil => rfl
  | cons s rest ih =>
    simp only [List.any_cons, Bool.or_eq_false_iff] at h
    simp [evaluatedPrefix, h.1, ih h.2]

theorem prefix_has_pass (l : List Status) (h : l.any (· == Status.pass) = true) :
    (evaluatedPrefix l).any (· == Status.pass) = true := by
  induction l with
  | nil => simp at h
  | cons s rest ih =>
    by_cases hs : (s == Status.pass) = true
    · simp [evaluatedPrefix, hs]
    · have hs' : (s == Status.pass) = false := by
        cases hh : (s == Status.pass)
        · rfl
        · exact absurd hh hs
      simp only [List.any_cons, hs', Bool.false_or] at h
      simp [evaluatedPrefix, hs', ih h]

/-- short-circuit is invisible: the status of a line computed from the evaluated prefix equals
    the status computed from all alternatives -/
theorem C04_short_circuit (sts : List Status) : lineStatus (evaluatedPrefix sts) = lineStatus sts := by
  by_cases h : sts.any (· == Status.pass) = true
  · simp [lineStatus, h, prefix_has_pass sts h]
  · have h' : sts.any (· == Status.pass) = false := by
      cases hh : sts.any (· == Status.pass)
      · rfl
      · exact absurd hh h
    rw [prefix_no_pass sts h']

/-- permuting the alternatives of an `or` line: same line status, with the short-circuit -/
theorem C04_alternatives_perm {l₁ l₂ : List Status} (h : l₁.Perm l₂) :
    lineStatus (evaluatedPrefix l₁) = lineStatus (evaluatedPrefix l₂) := by
  rw [C04_short_circuit, C04_short_circuit]; exact C02.C02_line_perm h

/-- permuting the lines of a rule / block / `when` body, or the rules of a file -/
theorem C04_lines_perm {l₁ l₂ : List Status} (h : l₁.Perm l₂) : bodyStatus l₁ = bodyStatus l₂ :=
  C02.C02_body_perm h

/-- repeating a line (or duplicating a rule under a new name: the file status) -/
theorem C04_line_dup (x : Status) (l : List Status) (h : x ∈ l) : bodyStatus (x :: l) = bodyStatus l :=
  C02.C02_body_dup x l h

/-- repeating an alternative -/
theorem C04_alternative_dup (x : Status) (l : List Status) (h : x ∈ l) :
    lineStatus (evaluatedPrefix (x :: l)) = lineStatus (evaluatedPrefix l) := by
  rw [C04_short_circuit, C04_short_circuit]
  have e : ∀ y, ((x :: l).any (· == y)) = (l.any (· == y)) := by
    intro y
    apply Bool.eq_iff_iff.mpr
    rw [C02.any_eq_mem, C02.any_eq_mem]
    constructor
    · intro hy; rcases List.mem_cons.mp hy with rfl | h'
      · exact h
      · exact h'
    · intro hy; exact List.mem_cons_of_mem _ hy
  simp only [lineStatus, e]

/-- values of a `some` block -/
theorem C04_some_block_perm {l₁ l₂ : List Status} (h : l₁.Perm l₂) : someStatus l₁ = someStatus l₂ :=
  C02.C02_line_perm h

/-- a rule referenced by name has the status of its first non-SKIP definition however often it
    has been asked for: the memo returns what was stored -/
theorem C04_memo_returns_stored (name : Str) (s : Status) (m : List (Str × Status)) :
    alLookup name (alInsert name s m) = some s := by
  induction m with
  | nil => simp [alInsert, alLookup]
  | cons kv rest ih =>
    obtain ⟨k, v⟩ := kv
    by_cases h : k = name
    · simp [alInsert, alLookup, h]
    · simp [alInsert, alLookup, h, ih]

example : evaluatedPrefix [.fail, .pass, .fail] = [.fail, .pass] := rfl

/-- **the evaluator does short-circuit exactly like `evaluatedPrefix`**: the statuses `evalAlternatives` returns for
    a line never contain a PASS before the last position, i.e. they are the evaluated prefix of themselves — for
    every line, program, state and fuel.  (With `C04_short_circuit`: the line status does not depend on where the
    evaluator stopped.) -/
theorem C04_evaluator_short_circuits (env : Env) : ∀ (l : List Clause) (fuel : Nat) (st st' : St) (sts : List Status),
    evalAlternatives env fuel l st = .ok (sts, st') → evaluatedPrefix sts = sts ∧ sts.length ≤ l.length
  | [], fuel, st, st', sts, h => by
    simp only [evalAlternatives] at h
    obtain ⟨rfl, _⟩ := M.pure_ok h
    exact ⟨rfl, Nat.le_refl _⟩
  | c :: rest, 0, st, st', sts, h => by simp [evalAlternatives, outOfFuel] at h
  | c :: rest, fuel + 1, st, st', sts, h => by
    simp only [evalAlternatives] at h
    obtain ⟨s, s1, h1, h2⟩ := M.bind_ok h
    by_cases hs : (s == Status.pass) = true
    · simp only [hs, ↓reduceIte] at h2
      obtain ⟨rfl, _⟩ := M.pure_ok h2
      exact ⟨by simp [evaluatedPrefix, hs], by simp⟩
    · simp only [hs, Bool.false_eq_true, ↓reduceIte] at h2
      obtain ⟨more, s2, h3, h4⟩ := M.bind_ok h2
      obtain ⟨rfl, _⟩ := M.pure_ok h4
      obtain ⟨ih1, ih2⟩ := C04_evaluator_short_circuits env rest fuel s1 s2 more h3
      refine ⟨?_, by simp; omega⟩
      have hs' : (s == Status.pass) = false := by
        cases hh : (s == Status.pass)
        · rfl
        · exact absurd hh hs
      simp [evaluatedPrefix, hs', ih1]

end Guard.C04
