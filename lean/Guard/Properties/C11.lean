import Guard.Model.Loader
/-
  C11 — a document means the same however it is written or loaded.
  Scalar-level and tag-level theorems about the libyaml-path loader model; everything above
  (libyaml's tokenisation, the serde loaders) is tied by the correspondence: every generated document
  is serialised in six ways, loaded by all loaders through the hook, and the typed values compared.
-/
set_option linter.unusedSimpArgs false
namespace Guard.C11
open Guard Guard.Loader

/-- **quoted scalars are strings**, whatever they spell -/
theorem C11_quoted_is_string (env : Env) (style : Style) (txt : Str) (h : style ≠ .plain) :
    typeScalar env style txt = .str txt := by
  simp [typeScalar, h]

/-- typing depends on (style, text) only — not on nesting, position or neighbours -/
theorem C11_context_free (env : Env) (style : Style) (txt : Str) :
    ∀ (_path : Path) (_depth : Nat), typeScalar env style txt = typeScalar env style txt := fun _ _ => rfl

/-- a plain scalar spelling an i64 is that integer (JSON integers in range) -/
theorem C11_json_int (env : Env) (txt : Str) (i : Int) (h : parseI64 txt = some i) :
    typeScalar env .plain txt = .int i := by
  simp [typeScalar, typePlain, h]

/-- a plain word that is neither an integer nor a number for the float oracle is typed by the
    bool / null steps of the cascade -/
theorem plain_word (env : Env) (w : Str) (hi : parseI64 w = none) (hf : env.f64Parse w = none) :
    typeScalar env .plain w =
      (match parseBool w with
       | some b => .bool b
       | none => if lowerAscii w = ['~'] || lowerAscii w = ['n', 'u', 'l', 'l'] then .null else .str w) := by
  simp only [typeScalar, typePlain, hi, hf]
  rfl

/-- `true` / `false` are booleans, `null` and `~` are null, when they are not numbers for the
    float oracle (Rust's f64 grammar does not accept these words) -/
theorem C11_json_keywords (env : Env)
    (h1 : env.f64Parse ['t', 'r', 'u', 'e'] = none) (h2 : env.f64Parse ['f', 'a', 'l', 's', 'e'] = none)
    (h3 : env.f64Parse ['n', 'u', 'l', 'l'] = none) (h4 : env.f64Parse ['~'] = none) :
    typeScalar env .plain ['t', 'r', 'u', 'e'] = .bool true ∧ typeScalar env .plain ['f', 'a', 'l', 's', 'e'] = .bool false ∧
    typeScalar env .plain ['n', 'u', 'l', 'l'] = .null ∧ typeScalar env .plain ['~'] = .null := by
  refine ⟨?_, ?_, ?_, ?_⟩
  · rw [plain_word env _ (by decide) h1]; rfl
  · rw [plain_word env _ (by decide) h2]; rfl
  · rw [plain_word env _ (by decide) h3]; rfl
  · rw [plain_word env _ (by decide) h4]; rfl

/-- a plain scalar that is not an integer but is a number for Rust's float grammar is that float
    (JSON numbers with fraction or exponent) -/
theorem C11_json_float (env : Env) (txt : Str) (f : F64) (hi : parseI64 txt = none) (hf : env.f64Parse txt = some f) :
    typeScalar env .plain txt = .float f := by
  simp [typeScalar, typePlain, hi, hf]

/-- everything else is a string, verbatim: nothing is silently turned into something else -/
theorem C11_plain_string (env : Env) (txt : Str) (hi : parseI64 txt = none) (hf : env.f64Parse txt = none)
    (hb : parseBool txt = none) (hn : lowerAscii txt ≠ ['~'] ∧ lowerAscii txt ≠ ['n', 'u', 'l', 'l']) :
    typeScalar env .plain txt = .str txt := by
  rw [plain_word env txt hi hf, hb]
  simp [hn.1, hn.2]

/-! ### CloudFormation short-form tags (tables GENERATED from rules/mod.rs) -/

/-- every tag either loader can wrap has a long form: `short_form_to_long` never reaches its
    `unreachable!()` -/
theorem C11_tags_total :
    (Gen.singleValueFuncRef.all fun t => (shortToLong t).isSome) = true ∧
    (Gen.sequenceValueFuncRef.all fun t => (shortToLong t).isSome) = true := by
  decide

/-- the documented equivalences, read off the generated table -/
theorem C11_tags_documented :
    shortToLong "Ref" = some "Ref" ∧ shortToLong "GetAtt" = some "Fn::GetAtt" ∧ shortToLong "Join" = some "Fn::Join" ∧
    shortToLong "Sub" = some "Fn::Sub" ∧ shortToLong "Select" = some "Fn::Select" ∧ shortToLong "If" = some "Fn::If" := by
  decide

/-- **short form ≡ long form under every loader, for scalar AND sequence payloads**: the libyaml
    loader and the serde loaders wrap every tag of the table identically (after fix in loader.rs) -/
theorem C11_tags_all_loaders_agree :
    ((Gen.shortToLong.map (·.1)).all fun t =>
        loadTaggedScalar t == loadTaggedSerde t && loadTaggedSequence t == loadTaggedSerde t) = true := by
  decide

/-- tags outside the table are left alone by every loader -/
theorem C11_unknown_tag_untouched :
    loadTaggedScalar "Foo" = .asIs ∧ loadTaggedSequence "Foo" = .asIs ∧ loadTaggedSerde "Foo" = .asIs := by decide

/-- **`-0` is the integer 0** whatever the float oracle says (so a document and a test input that spell `-0` mean the
    same number in `validate` and in `test`), and `-0.0` is not an integer spelling -/
theorem C11_negative_zero (env : Env) :
    typeScalar env .plain "-0".toList = .int 0 ∧ parseI64 "-0.0".toList = none := by
  refine ⟨C11_json_int env _ 0 (by decide), by decide⟩

end Guard.C11
