import Guard.Model.Report
import Guard.Properties.C02
import Guard.Lemmas.Records
/-
  C09 — the structured report partitions the rules exactly as they were evaluated.
  Theorems about `fileReport` / `reportFailed` (the Lean mirror of `simplified_json_from_root` and
  `report_all_failed_clauses_for_rules`), for every record tree.
-/
set_option linter.unusedSimpArgs false
namespace Guard.C09
open Guard

/-- the file record's children are the rule records (what `eval_rules_file` produces) -/
def rulesOnly (ch : List Rec) : Prop := ∀ r ∈ ch, ∃ n s m, r.kind = .ruleCheck n s m

theorem mem_namesWith (st : Status) (ch : List Rec) (n : Str) :
    n ∈ namesWith st ch ↔ ∃ r ∈ ch, ∃ m, r.kind = .ruleCheck n st m := by
  induction ch with
  | nil => simp [namesWith]
  | cons r rest ih =>
    have step : n ∈ namesWith st (r :: rest) ↔ ((∃ m, r.kind = .ruleCheck n st m) ∨ n ∈ namesWith st rest) := by
      cases r with
      | node k c =>
        cases k with
        | ruleCheck n' s m =>
          by_cases hs : s = st
          · subst hs
            simp only [namesWith, List.filterMap_cons, Rec.kind, beq_self_eq_true, ↓reduceIte, List.mem_cons]
            constructor
            · rintro (h | h)
              · exact Or.inl ⟨m, by rw [h]⟩
              · exact Or.inr h
            · rintro (⟨m', h⟩ | h)
              · left; injection h with h1; exact h1.symm
              · exact Or.inr h
          · have hb : (s == st) = false := by
              cases hh : (s == st)
              · rfl
              · exact absurd (beq_iff_eq.mp hh) hs
            simp only [namesWith, List.filterMap_cons, Rec.kind, hb, Bool.false_eq_true, ↓reduceIte]
            constructor
            · intro h; exact Or.inr h
            · rintro (⟨m', h⟩ | h)
              · injection h with _ h2; exact absurd h2 hs
              · exact h
        | _ =>
          simp only [namesWith, List.filterMap_cons, Rec.kind]
          constructor
          · intro h; exact Or.inr h
          · rintro (⟨m', h⟩ | h)
            · cases h
            · exact h
    rw [step, ih]
    constructor
    · rintro (⟨m, h⟩ | ⟨r', hr', m, h⟩)
      · exact ⟨r, List.mem_cons_self, m, h⟩
      · exact ⟨r', List.mem_cons_of_mem _ hr', m, h⟩
    · rintro ⟨r', hr', m, h⟩
      rcases List.mem_cons.mp hr' with rfl | hr''
      · exact Or.inl ⟨m, h⟩
      · exact Or.inr ⟨r', hr'', m, h⟩

/-- the top-level entries of `not_compliant` are exactly the FAIL rule records, in order -/
theorem notCompliant_names (ch : List Rec) (h : rulesOnly ch) :
    (reportFailedList ch).filterMap CR.ruleName? = namesWith .fail ch ∧
    (reportFailedList ch).length = (namesWith .fail ch).length := by
  induction ch with
  | nil => simp [reportFailedList, namesWith]
  | cons r rest ih =>
    have hr := h r List.mem_cons_self
    have ih' := ih (fun x hx => h x (List.mem_cons_of_mem _ hx))
    obtain ⟨n, s, m, hk⟩ := hr
    cases r with
    | node k c =>
      simp only [Rec.kind] at hk
      subst hk
      cases s <;>
        simp [reportFailedList, reportFailed, namesWith, Rec.kind, CR.ruleName?, List.filterMap_cons,
          List.filterMap_append] at ih' ⊢ <;> simp [namesWith, ih'.1, ih'.2]

/-- **Partition**: every evaluated rule appears under the heading of its status. -/
theorem C09_partition (s : Status) (ch : List Rec) (h : rulesOnly ch) (rep : FileReport)
    (hrep : fileReport (.node (.fileCheck s) ch) = some rep) (n : Str) :
    (n ∈ rep.compliant ↔ ∃ r ∈ ch, ∃ m, r.kind = .ruleCheck n .pass m) ∧
    (n ∈ rep.notApplicable ↔ ∃ r ∈ ch, ∃ m, r.kind = .ruleCheck n .skip m) ∧
    (n ∈ rep.notCompliant.filterMap CR.ruleName? ↔ ∃ r ∈ ch, ∃ m, r.kind = .ruleCheck n .fail m) := by
  simp only [fileReport, Option.some.injEq] at hrep
  subst hrep
  refine ⟨mem_namesWith _ _ _, mem_namesWith _ _ _, ?_⟩
  simp only
  rw [(notCompliant_names ch h).1]
  exact mem_namesWith _ _ _

/-- a rule name with ONE record is under exactly one heading (rule names distinct) -/
theorem C09_exactly_one (s : Status) (ch : List Rec) (h : rulesOnly ch) (rep : FileReport)
    (hrep : fileReport (.node (.fileCheck s) ch) = some rep) (n : Str)
    (huniq : ∀ r₁ ∈ ch, ∀ r₂ ∈ ch, ∀ s₁ m₁ s₂ m₂, r₁.kind = .ruleCheck n s₁ m₁ → r₂.kind = .ruleCheck n s₂ m₂ → s₁ = s₂) :
    ¬ (n ∈ rep.compliant ∧ n ∈ rep.notApplicable) ∧
    ¬ (n ∈ rep.compliant ∧ n ∈ rep.notCompliant.filterMap CR.ruleName?) ∧
    ¬ (n ∈ rep.notApplicable ∧ n ∈ rep.notCompliant.filterMap CR.ruleName?) := by
  obtain ⟨hc, hna, hnc⟩ := C09_partition s ch h rep hrep n
  refine ⟨?_, ?_, ?_⟩
  · rintro ⟨a, b⟩
    obtain ⟨r₁, h₁, m₁, k₁⟩ := hc.mp a
    obtain ⟨r₂, h₂, m₂, k₂⟩ := hna.mp b
    exact absurd (huniq r₁ h₁ r₂ h₂ _ _ _ _ k₁ k₂) (by decide)
  · rintro ⟨a, b⟩
    obtain ⟨r₁, h₁, m₁, k₁⟩ := hc.mp a
    obtain ⟨r₂, h₂, m₂, k₂⟩ := hnc.mp b
    exact absurd (huniq r₁ h₁ r₂ h₂ _ _ _ _ k₁ k₂) (by decide)
  · rintro ⟨a, b⟩
    obtain ⟨r₁, h₁, m₁, k₁⟩ := hna.mp a
    obtain ⟨r₂, h₂, m₂, k₂⟩ := hnc.mp b
    exact absurd (huniq r₁ h₁ r₂ h₂ _ _ _ _ k₁ k₂) (by decide)

/-- **File status**: on a consistent tree (the file status is the aggregation of the rule
    statuses, C02) the report's status is FAIL iff `not_compliant` is non-empty, PASS iff it is
    empty and `compliant` is not, else SKIP. -/
theorem C09_status (s : Status) (ch : List Rec) (h : rulesOnly ch) (rep : FileReport)
    (hrep : fileReport (.node (.fileCheck s) ch) = some rep)
    (hcons : s = bodyStatus (ch.map Rec.status)) :
    (rep.status = .fail ↔ rep.notCompliant ≠ []) ∧
    (rep.status = .pass ↔ rep.notCompliant = [] ∧ rep.compliant ≠ []) ∧
    (rep.status = .skip ↔ rep.notCompliant = [] ∧ rep.compliant = []) := by
  simp only [fileReport, Option.some.injEq] at hrep
  subst hrep
  simp only
  have hlen := (notCompliant_names ch h).2
  have key : ∀ st : Status, st ∈ ch.map Rec.status ↔ namesWith st ch ≠ [] := by
    intro st
    constructor
    · intro hm
      obtain ⟨r, hr, hs⟩ := List.mem_map.mp hm
      obtain ⟨n, s', m, hk⟩ := h r hr
      have : s' = st := by
        cases r with
        | node k c => simp only [Rec.kind] at hk; subst hk; simpa [Rec.status, RecKind.status?] using hs
      subst this
      intro he
      have : n ∈ namesWith s' ch := (mem_namesWith _ _ _).mpr ⟨r, hr, m, hk⟩
      rw [he] at this; cases this
    · intro hne
      obtain ⟨n, hn⟩ := List.exists_mem_of_ne_nil _ hne
      obtain ⟨r, hr, m, hk⟩ := (mem_namesWith _ _ _).mp hn
      refine List.mem_map.mpr ⟨r, hr, ?_⟩
      cases r with
      | node k c => simp only [Rec.kind] at hk; subst hk; simp [Rec.status, RecKind.status?]
  have hnc : reportFailedList ch = [] ↔ namesWith .fail ch = [] := by
    rw [← List.length_eq_zero_iff, ← List.length_eq_zero_iff, hlen]
  obtain ⟨b1, b2, b3⟩ := C02.C02_body (ch.map Rec.status)
  rw [hcons]
  refine ⟨?_, ?_, ?_⟩
  · rw [b1, key, Ne, Ne, hnc]
  · rw [b2, key, key, hnc]; simp
  · rw [b3, key, key, hnc]; simp

/-- **`combine`** is union of the three sets and `Status::and`, which is the two-element body
    aggregation, and the table extracted from the source. -/
theorem C09_combine (a b : FileReport) :
    (a.combine b).compliant = a.compliant ++ b.compliant ∧
    (a.combine b).notApplicable = a.notApplicable ++ b.notApplicable ∧
    (a.combine b).notCompliant = a.notCompliant ++ b.notCompliant ∧
    (a.combine b).status = bodyStatus [a.status, b.status] := by
  refine ⟨rfl, rfl, rfl, ?_⟩
  simp only [FileReport.combine]
  cases a.status <;> cases b.status <;> rfl

def statusOfString : String → Option Status
  | "PASS" => some .pass | "FAIL" => some .fail | "SKIP" => some .skip | _ => none

def rowOk (row : String × String × String) : Bool :=
  match statusOfString row.1, statusOfString row.2.1, statusOfString row.2.2 with
  | some a, some b, some c => Status.and a b == c
  | _, _, _ => false

/-- the model's `Status.and` is the table GENERATED from rules/mod.rs (all nine rows) -/
theorem C09_status_and_is_source_table :
    Gen.statusAnd.all rowOk = true ∧ Gen.statusAnd.length = 9 ∧
    (Gen.statusAnd.map fun r => (r.1, r.2.1)).Nodup := by
  decide

/-- starting from the empty report, combining adds nothing but the reports themselves -/
theorem C09_combine_empty (a : FileReport) :
    (FileReport.empty.combine a).status = a.status ∧ (FileReport.empty.combine a).compliant = a.compliant ∧
    (FileReport.empty.combine a).notCompliant = a.notCompliant := by
  refine ⟨?_, rfl, rfl⟩
  simp only [FileReport.combine, FileReport.empty]
  cases a.status <;> rfl

/-! ### attribution: every listed check is a check that FAILed, under the rule it belongs to -/

mutual
/-- all leaf checks of a report entry -/
def leaves : CR → List ClauseCheck
  | .rule _ _ cs => leavesList cs
  | .block (some c) => [c]
  | .block none => []
  | .disjunctions cs => leavesList cs
  | .clause c => [c]
def leavesList : List CR → List ClauseCheck
  | [] => []
  | c :: cs => leaves c ++ leavesList cs
end

mutual
/-- all failed value checks recorded anywhere in a subtree -/
def failedChecks : Rec → List ClauseCheck
  | .node k ch =>
    (match k with
     | .clauseValueCheck .success => []
     | .clauseValueCheck c => [c]
     | _ => []) ++ failedChecksList ch
def failedChecksList : List Rec → List ClauseCheck
  | [] => []
  | r :: rs => failedChecks r ++ failedChecksList rs
end

theorem leavesList_append (a b : List CR) : leavesList (a ++ b) = leavesList a ++ leavesList b := by
  induction a with
  | nil => rfl
  | cons x xs ih => simp [leavesList, ih, List.append_assoc]

theorem cvc_leaves (c : ClauseCheck) (ch : List Rec) (x : ClauseCheck)
    (hx : x ∈ leavesList (reportFailed (.node (.clauseValueCheck c) ch))) : x = c ∧ c ≠ .success := by
  cases c with
  | success => simp [reportFailed, ClauseCheck.reported, leavesList] at hx
  | missingBlockValue f =>
    simp [reportFailed, leavesList, leaves] at hx; exact ⟨hx, by simp⟩
  | comparison f t o n m =>
    by_cases hr : (ClauseCheck.comparison f t o n m).reported = true
    · simp [reportFailed, hr, leavesList, leaves] at hx; exact ⟨hx, by simp⟩
    · simp [reportFailed, hr, leavesList] at hx
  | inComparison f t o n m =>
    simp [reportFailed, ClauseCheck.reported, leavesList, leaves] at hx; exact ⟨hx, by simp⟩
  | unary f o n m =>
    simp [reportFailed, ClauseCheck.reported, leavesList, leaves] at hx; exact ⟨hx, by simp⟩
  | noValueForEmptyCheck m =>
    simp [reportFailed, ClauseCheck.reported, leavesList, leaves] at hx; exact ⟨hx, by simp⟩
  | dependentRule r m =>
    simp [reportFailed, ClauseCheck.reported, leavesList, leaves] at hx; exact ⟨hx, by simp⟩

mutual
/-- **Every check listed is one that evaluated to FAIL** (and carries that check's data, custom
    message included, because the entry IS the recorded check). -/
theorem leaves_sub (r : Rec) : ∀ c ∈ leavesList (reportFailed r), c ∈ failedChecks r := by
  cases r with
  | node k ch =>
    intro c hc
    have ih := leavesList_sub ch
    have sub : ∀ x, x ∈ failedChecksList ch → x ∈ failedChecks (.node k ch) := by
      intro x hx; simp only [failedChecks, List.mem_append]; exact Or.inr hx
    cases k with
    | ruleCheck name s msg =>
      cases s with
      | fail =>
        have : leavesList (reportFailed (.node (.ruleCheck name .fail msg) ch)) = leavesList (reportFailedList ch) := by
          simp [reportFailed, leavesList, leaves]
        rw [this] at hc; exact sub c (ih c hc)
      | pass => simp [reportFailed, leavesList] at hc
      | skip => simp [reportFailed, leavesList] at hc
    | blockGuardCheck s =>
      cases s with
      | fail =>
        by_cases he : ch.isEmpty = true
        · simp [reportFailed, he, leavesList, leaves] at hc
        · have : reportFailed (.node (.blockGuardCheck .fail) ch) = reportFailedList ch := by
            simp [reportFailed, he]
          rw [this] at hc; exact sub c (ih c hc)
      | pass => simp [reportFailed, leavesList] at hc
      | skip => simp [reportFailed, leavesList] at hc
    | disjunction s =>
      cases s with
      | fail =>
        have : leavesList (reportFailed (.node (.disjunction .fail) ch)) = leavesList (reportFailedList ch) := by
          simp [reportFailed, leavesList, leaves]
        rw [this] at hc; exact sub c (ih c hc)
      | pass => simp [reportFailed, leavesList] at hc
      | skip => simp [reportFailed, leavesList] at hc
    | guardClauseBlockCheck s =>
      cases s with
      | fail =>
        have : reportFailed (.node (.guardClauseBlockCheck .fail) ch) = reportFailedList ch := by simp [reportFailed]
        rw [this] at hc; exact sub c (ih c hc)
      | pass => simp [reportFailed, leavesList] at hc
      | skip => simp [reportFailed, leavesList] at hc
    | typeBlock s =>
      cases s with
      | fail =>
        have : reportFailed (.node (.typeBlock .fail) ch) = reportFailedList ch := by simp [reportFailed]
        rw [this] at hc; exact sub c (ih c hc)
      | pass => simp [reportFailed, leavesList] at hc
      | skip => simp [reportFailed, leavesList] at hc
    | typeCheck n s =>
      cases s with
      | fail =>
        have : reportFailed (.node (.typeCheck n .fail) ch) = reportFailedList ch := by simp [reportFailed]
        rw [this] at hc; exact sub c (ih c hc)
      | pass => simp [reportFailed, leavesList] at hc
      | skip => simp [reportFailed, leavesList] at hc
    | whenCheck s =>
      cases s with
      | fail =>
        have : reportFailed (.node (.whenCheck .fail) ch) = reportFailedList ch := by simp [reportFailed]
        rw [this] at hc; exact sub c (ih c hc)
      | pass => simp [reportFailed, leavesList] at hc
      | skip => simp [reportFailed, leavesList] at hc
    | clauseValueCheck cc =>
      obtain ⟨rfl, hne⟩ := cvc_leaves cc ch c hc
      simp only [failedChecks, List.mem_append]
      left
      cases c <;> simp at hne ⊢
    | fileCheck s => simp [reportFailed, leavesList] at hc
    | ruleCondition s => simp [reportFailed, leavesList] at hc
    | typeCondition s => simp [reportFailed, leavesList] at hc
    | filter s => simp [reportFailed, leavesList] at hc
    | whenCondition s => simp [reportFailed, leavesList] at hc
theorem leavesList_sub (rs : List Rec) : ∀ c ∈ leavesList (reportFailedList rs), c ∈ failedChecksList rs := by
  cases rs with
  | nil => intro c hc; simp [reportFailedList, leavesList] at hc
  | cons r rest =>
    intro c hc
    simp only [reportFailedList, leavesList_append, List.mem_append] at hc
    simp only [failedChecksList, List.mem_append]
    rcases hc with h | h
    · exact Or.inl (leaves_sub r c h)
    · exact Or.inr (leavesList_sub rest c h)
end

/-- **No failing check is attributed to a rule that passed or was skipped; every FAIL rule is
    listed even when no individual check can be shown**: the entry for a rule exists iff its
    record is FAIL, and its checks come from that rule's own records. -/
theorem C09_attribution (name : Str) (s : Status) (msg : Option Str) (ch : List Rec) :
    (s ≠ .fail → reportFailed (.node (.ruleCheck name s msg) ch) = []) ∧
    (s = .fail → ∃ cs, reportFailed (.node (.ruleCheck name s msg) ch) = [.rule name msg cs] ∧
        ∀ c ∈ leavesList cs, c ∈ failedChecksList ch) := by
  constructor
  · intro h; cases s <;> simp [reportFailed] at h ⊢
  · intro h; subst h
    exact ⟨reportFailedList ch, by simp [reportFailed], leavesList_sub ch⟩

-- Non-vacuity
example : rulesOnly [.node (.ruleCheck "a".toList .pass none) [], .node (.ruleCheck "b".toList .fail none) []] := by
  intro r hr; simp at hr; rcases hr with rfl | rfl <;> exact ⟨_, _, _, rfl⟩

/-- **what the report partitions is what was evaluated**: the per-rule statuses read off the tree of a successful
    evaluation are exactly, in file order, (name, status returned by evaluating that rule) for every rule of the
    file — none missing, none invented, none attributed to another rule. -/
theorem C09_rule_statuses_are_evaluations (env : Env) (fuel : Nat) (file : RulesFile) (doc : PV) (s : Status) (t : Rec)
    (h : runFile env fuel file doc = .ok (s, t)) :
    ∃ sts : List Status, sts.length = file.rules.length ∧
      ruleStatuses t = (file.rules.zip sts).map fun p => (p.1.name, p.2) := by
  obtain ⟨sts, hl, _, _, hc⟩ := runFile_top env fuel file doc s t h
  refine ⟨sts, hl, ?_⟩
  unfold ruleStatuses
  -- `filterMap` over the children only looks at their kinds
  have key : ∀ (cs : List Rec) (ps : List (Rule × Status)),
      cs.map Rec.kind = ps.map (fun p => RecKind.ruleCheck p.1.name p.2 none) →
      cs.filterMap (fun r => match r.kind with | .ruleCheck n s _ => some (n, s) | _ => none) = ps.map fun p => (p.1.name, p.2) := by
    intro cs
    induction cs with
    | nil => intro ps hps; cases ps <;> simp_all
    | cons c cs ih =>
      intro ps hps
      cases ps with
      | nil => simp at hps
      | cons p ps =>
        simp only [List.map_cons, List.cons.injEq] at hps
        simp only [List.filterMap_cons, hps.1, List.map_cons]
        rw [ih ps hps.2]
  exact key _ _ hc

/-! ### nested rule entries (references to named / parameterised rules that failed) carry the record's message -/

mutual
/-- every `Rule` entry of a report, at any depth, as (name, custom message) -/
def ruleEntries : CR → List (Str × Option Str)
  | .rule n m cs => (n, m) :: ruleEntriesList cs
  | .block _ => []
  | .disjunctions cs => ruleEntriesList cs
  | .clause _ => []
def ruleEntriesList : List CR → List (Str × Option Str)
  | [] => []
  | c :: cs => ruleEntries c ++ ruleEntriesList cs
end

mutual
/-- every FAIL rule record of a tree, at any depth, as (name, recorded message) -/
def failedRuleRecs : Rec → List (Str × Option Str)
  | .node k ch =>
    (match k with
     | .ruleCheck n .fail m => [(n, m)]
     | _ => []) ++ failedRuleRecsList ch
def failedRuleRecsList : List Rec → List (Str × Option Str)
  | [] => []
  | r :: rs => failedRuleRecs r ++ failedRuleRecsList rs
end

theorem ruleEntriesList_append (a b : List CR) : ruleEntriesList (a ++ b) = ruleEntriesList a ++ ruleEntriesList b := by
  induction a with
  | nil => rfl
  | cons x xs ih => simp [ruleEntriesList, ih, List.append_assoc]

mutual
theorem ruleEntries_sub (r : Rec) : ∀ e ∈ ruleEntriesList (reportFailed r), e ∈ failedRuleRecs r := by
  cases r with
  | node k ch =>
    intro e he
    have ih := ruleEntriesList_sub ch
    have sub : ∀ x, x ∈ failedRuleRecsList ch → x ∈ failedRuleRecs (.node k ch) := by
      intro x hx; simp only [failedRuleRecs, List.mem_append]; exact Or.inr hx
    cases k with
    | ruleCheck name s msg =>
      cases s with
      | fail =>
        have : ruleEntriesList (reportFailed (.node (.ruleCheck name .fail msg) ch)) =
            (name, msg) :: ruleEntriesList (reportFailedList ch) := by
          simp [reportFailed, ruleEntriesList, ruleEntries]
        rw [this] at he
        rcases List.mem_cons.mp he with rfl | h
        · simp [failedRuleRecs]
        · exact sub e (ih e h)
      | pass => simp [reportFailed, ruleEntriesList] at he
      | skip => simp [reportFailed, ruleEntriesList] at he
    | blockGuardCheck s =>
      cases s with
      | fail =>
        by_cases hem : ch.isEmpty = true
        · simp [reportFailed, hem, ruleEntriesList, ruleEntries] at he
        · have : reportFailed (.node (.blockGuardCheck .fail) ch) = reportFailedList ch := by
            simp [reportFailed, hem]
          rw [this] at he; exact sub e (ih e he)
      | pass => simp [reportFailed, ruleEntriesList] at he
      | skip => simp [reportFailed, ruleEntriesList] at he
    | disjunction s =>
      cases s with
      | fail =>
        have : ruleEntriesList (reportFailed (.node (.disjunction .fail) ch)) = ruleEntriesList (reportFailedList ch) := by
          simp [reportFailed, ruleEntriesList, ruleEntries]
        rw [this] at he; exact sub e (ih e he)
      | pass => simp [reportFailed, ruleEntriesList] at he
      | skip => simp [reportFailed, ruleEntriesList] at he
    | guardClauseBlockCheck s =>
      cases s with
      | fail =>
        have : reportFailed (.node (.guardClauseBlockCheck .fail) ch) = reportFailedList ch := by simp [reportFailed]
        rw [this] at he; exact sub e (ih e he)
      | pass => simp [reportFailed, ruleEntriesList] at he
      | skip => simp [reportFailed, ruleEntriesList] at he
    | typeBlock s =>
      cases s with
      | fail =>
        have : reportFailed (.node (.typeBlock .fail) ch) = reportFailedList ch := by simp [reportFailed]
        rw [this] at he; exact sub e (ih e he)
      | pass => simp [reportFailed, ruleEntriesList] at he
      | skip => simp [reportFailed, ruleEntriesList] at he
    | typeCheck n s =>
      cases s with
      | fail =>
        have : reportFailed (.node (.typeCheck n .fail) ch) = reportFailedList ch := by simp [reportFailed]
        rw [this] at he; exact sub e (ih e he)
      | pass => simp [reportFailed, ruleEntriesList] at he
      | skip => simp [reportFailed, ruleEntriesList] at he
    | whenCheck s =>
      cases s with
      | fail =>
        have : reportFailed (.node (.whenCheck .fail) ch) = reportFailedList ch := by simp [reportFailed]
        rw [this] at he; exact sub e (ih e he)
      | pass => simp [reportFailed, ruleEntriesList] at he
      | skip => simp [reportFailed, ruleEntriesList] at he
    | clauseValueCheck cc =>
      exfalso
      cases cc with
      | success => simp [reportFailed, ClauseCheck.reported, ruleEntriesList] at he
      | missingBlockValue f => simp [reportFailed, ruleEntriesList, ruleEntries] at he
      | comparison f t o n m =>
        by_cases hr : (ClauseCheck.comparison f t o n m).reported = true
        · simp [reportFailed, hr, ruleEntriesList, ruleEntries] at he
        · simp [reportFailed, hr, ruleEntriesList] at he
      | inComparison f t o n m => simp [reportFailed, ClauseCheck.reported, ruleEntriesList, ruleEntries] at he
      | unary f o n m => simp [reportFailed, ClauseCheck.reported, ruleEntriesList, ruleEntries] at he
      | noValueForEmptyCheck m => simp [reportFailed, ClauseCheck.reported, ruleEntriesList, ruleEntries] at he
      | dependentRule r m => simp [reportFailed, ClauseCheck.reported, ruleEntriesList, ruleEntries] at he
    | fileCheck s => simp [reportFailed, ruleEntriesList] at he
    | ruleCondition s => simp [reportFailed, ruleEntriesList] at he
    | typeCondition s => simp [reportFailed, ruleEntriesList] at he
    | filter s => simp [reportFailed, ruleEntriesList] at he
    | whenCondition s => simp [reportFailed, ruleEntriesList] at he
theorem ruleEntriesList_sub (rs : List Rec) : ∀ e ∈ ruleEntriesList (reportFailedList rs), e ∈ failedRuleRecsList rs := by
  cases rs with
  | nil => intro e he; simp [reportFailedList, ruleEntriesList] at he
  | cons r rest =>
    intro e he
    simp only [reportFailedList, ruleEntriesList_append, List.mem_append] at he
    simp only [failedRuleRecsList, List.mem_append]
    rcases he with h | h
    · exact Or.inl (ruleEntries_sub r e h)
    · exact Or.inr (ruleEntriesList_sub rest e h)
end

/-- **every `Rule` entry of the report, nested ones included, is a rule record that FAILed and carries the message
    recorded with it** (for a failing call of a parameterised rule that is the custom message written after the call) -/
theorem C09_rule_entries_carry_recorded_message (s : Status) (ch : List Rec) (rep : FileReport)
    (h : fileReport (.node (.fileCheck s) ch) = some rep) :
    ∀ e ∈ ruleEntriesList rep.notCompliant, e ∈ failedRuleRecsList ch := by
  simp only [fileReport, Option.some.injEq] at h
  subst h
  exact ruleEntriesList_sub ch

-- Non-vacuity: a failing rule whose only child is a failing call record with a message
example : ruleEntriesList (reportFailedList
    [.node (.ruleCheck "caller".toList .fail none) [.node (.ruleCheck "callee".toList .fail (some "why".toList)) []]]) =
    [("caller".toList, none), ("callee".toList, some "why".toList)] := by
  decide

end Guard.C09
