import Guard.Model.TestReport
import Guard.Properties.C06
import Guard.Gen.ExitCodes
/-
  C16 — `cfn-guard test` agrees with `cfn-guard validate`.
-/
set_option linter.unusedSimpArgs false
namespace Guard.C16
open Guard

/-- auxiliary: the loop of `get_status_result` for a non-SKIP expectation -/
theorem go_nonskip (expected : Status) (hne : expected ≠ .skip) (all : List Status) (seen : List Status) (k : Nat)
    (sts : List Status) :
    ((getStatusResult.go expected all seen k sts).1 = some expected ↔ expected ∈ sts) ∧
    ((getStatusResult.go expected all seen k sts).1 = none ∨ (getStatusResult.go expected all seen k sts).1 = some expected) := by
  have hb : (expected == Status.skip) = false := by
    cases expected <;> simp at hne ⊢
  induction sts generalizing seen k with
  | nil => simp [getStatusResult.go, hb]
  | cons got rest ih =>
    simp only [getStatusResult.go, hb, Bool.false_eq_true, ↓reduceIte]
    by_cases hg : got = expected
    · subst hg; simp
    · have hgb : (got == expected) = false := by
        cases hh : (got == expected)
        · rfl
        · exact absurd (beq_iff_eq.mp hh) hg
      simp only [hgb, Bool.false_eq_true, ↓reduceIte]
      obtain ⟨i1, i2⟩ := ih (seen ++ [got]) k
      refine ⟨?_, i2⟩
      rw [i1]
      constructor
      · intro h; exact List.mem_cons_of_mem _ h
      · intro h; rcases List.mem_cons.mp h with rfl | h'
        · exact absurd rfl hg
        · exact h'

/-- auxiliary: the loop for a SKIP expectation counts the SKIPs -/
theorem go_skip (all : List Status) (seen : List Status) (k : Nat) (sts : List Status) :
    (getStatusResult.go .skip all seen k sts).1 =
      (if k + (sts.filter (· == .skip)).length = all.length then some .skip else none) := by
  induction sts generalizing seen k with
  | nil =>
    simp only [getStatusResult.go, beq_self_eq_true, Bool.true_and, List.filter_nil, List.length_nil, Nat.add_zero]
    by_cases h : k = all.length <;> simp [h]
  | cons got rest ih =>
    simp only [getStatusResult.go, beq_self_eq_true, ↓reduceIte]
    rw [ih]
    cases got
    · have : (List.filter (· == Status.skip) (Status.pass :: rest)) = List.filter (· == Status.skip) rest := by
        simp [List.filter_cons]
      rw [this]; simp
    · have : (List.filter (· == Status.skip) (Status.fail :: rest)) = List.filter (· == Status.skip) rest := by
        simp [List.filter_cons]
      rw [this]; simp
    · have : (List.filter (· == Status.skip) (Status.skip :: rest)) = Status.skip :: List.filter (· == Status.skip) rest := by
        simp [List.filter_cons]
      rw [this]
      simp only [beq_self_eq_true, ↓reduceIte, List.length_cons]
      have e : k + 1 + (List.filter (· == Status.skip) rest).length = k + ((List.filter (· == Status.skip) rest).length + 1) := by omega
      rw [e]

/-- **An expectation is met iff** some definition of the rule has the expected non-SKIP status,
    or SKIP is expected and all definitions are SKIP — for any number of definitions. -/
theorem C16_met_iff (expected : Status) (sts : List Status) :
    (getStatusResult expected sts).1 = some expected ↔
      (expected ≠ .skip ∧ expected ∈ sts) ∨ (expected = .skip ∧ ∀ s ∈ sts, s = .skip) := by
  unfold getStatusResult
  by_cases he : expected = .skip
  · subst he
    rw [go_skip]
    simp only [Nat.zero_add, ne_eq, not_true_eq_false, false_and, true_and, false_or]
    have hlen : ∀ l : List Status, ((l.filter (· == Status.skip)).length = l.length ↔ ∀ s ∈ l, s = Status.skip) := by
      intro l
      induction l with
      | nil => simp
      | cons a as ih =>
        have hle := List.length_filter_le (· == Status.skip) as
        cases a
        · simp [List.filter_cons]; omega
        · simp [List.filter_cons]; omega
        · simp [List.filter_cons, ih]
    by_cases h : (sts.filter (· == Status.skip)).length = sts.length
    · have hall := (hlen sts).mp h
      simp only [h, ↓reduceIte, true_iff]
      exact hall
    · have : ¬ ∀ s ∈ sts, s = Status.skip := fun hh => h ((hlen sts).mpr hh)
      simp [h, this]
  · obtain ⟨h1, _⟩ := go_nonskip expected he sts [] 0 sts
    rw [h1]
    simp [he]

/-- the result is `Some(expected)` or `None`, nothing else -/
theorem C16_met_or_not (expected : Status) (sts : List Status) :
    (getStatusResult expected sts).1 = some expected ∨ (getStatusResult expected sts).1 = none := by
  unfold getStatusResult
  by_cases he : expected = .skip
  · subst he; rw [go_skip]; split <;> simp
  · exact (go_nonskip expected he sts [] 0 sts).2.symm

/-- **Rules without an expectation are reported as such and never counted as failures.** -/
theorem C16_no_expectation (expectations : List (Str × Status)) (groups : List (Str × List Status)) (n : Str)
    (hn : alLookup n expectations = none) :
    ∀ o ∈ classify expectations groups, o.name = n → o.isFailure = false := by
  intro o ho hname
  simp only [classify, List.mem_map] at ho
  obtain ⟨⟨n', sts⟩, _, rfl⟩ := ho
  cases hl : alLookup n' expectations with
  | none => simp [hl, TestOutcome.isFailure]
  | some exp =>
    cases hr : getStatusResult exp sts with
    | mk a b =>
      cases a with
      | none =>
        simp only [hl, hr, TestOutcome.name] at hname
        rw [hname, hn] at hl; cases hl
      | some s => simp [hl, hr, TestOutcome.isFailure]

/-- a rule with an expectation is a failure exactly when the expectation is not met -/
theorem C16_failure_iff (expectations : List (Str × Status)) (n : Str) (sts : List Status) (exp : Status)
    (he : alLookup n expectations = some exp) :
    ∃ o, classify expectations [(n, sts)] = [o] ∧
      (o.isFailure = true ↔ ¬ ((exp ≠ .skip ∧ exp ∈ sts) ∨ (exp = .skip ∧ ∀ s ∈ sts, s = .skip))) := by
  simp only [classify, List.map_cons, List.map_nil, he]
  rcases C16_met_or_not exp sts with h | h
  · cases hr : getStatusResult exp sts with
    | mk a b =>
      rw [hr] at h; simp only at h; subst h
      refine ⟨_, rfl, ?_⟩
      simp only [TestOutcome.isFailure, Bool.false_eq_true, false_iff]
      intro hneg
      exact hneg ((C16_met_iff exp sts).mp (by rw [hr]))
  · cases hr : getStatusResult exp sts with
    | mk a b =>
      rw [hr] at h; simp only at h; subst h
      refine ⟨_, rfl, ?_⟩
      simp only [TestOutcome.isFailure, true_iff]
      intro hm
      have := (C16_met_iff exp sts).mpr hm
      rw [hr] at this; cases this

/-- **`test` evaluates with the same evaluator**: the statuses it groups under a rule name are the
    statuses of the top-level rule records of `runFile`'s tree with that name, in record order;
    every evaluated rule name has exactly one group. -/
theorem C16_same_eval (l : List (Str × Status)) :
    (∀ g ∈ groupByName l, g.2 = (l.filter (·.1 = g.1)).map (·.2) ∧ g.1 ∈ l.map (·.1)) ∧
    (∀ n ∈ l.map (·.1), ∃ g ∈ groupByName l, g.1 = n) := by
  have mem_fo : ∀ (ns : List Str) (n : Str), n ∈ firstOccurrences ns ↔ n ∈ ns := by
    intro ns
    induction ns with
    | nil => simp [firstOccurrences]
    | cons a as ih =>
      intro n
      simp only [firstOccurrences, List.mem_cons, List.mem_filter, ih, decide_eq_true_eq]
      constructor
      · rintro (h | ⟨h, _⟩)
        · exact Or.inl h
        · exact Or.inr h
      · rintro (h | h)
        · exact Or.inl h
        · by_cases hna : n = a
          · exact Or.inl hna
          · exact Or.inr ⟨h, hna⟩
  constructor
  · intro g hg
    simp only [groupByName, List.mem_map] at hg
    obtain ⟨n, hn, rfl⟩ := hg
    exact ⟨rfl, (mem_fo _ n).mp hn⟩
  · intro n hn
    exact ⟨(n, (l.filter (·.1 = n)).map (·.2)), by
      simp only [groupByName, List.mem_map]
      exact ⟨n, (mem_fo _ n).mpr hn, rfl⟩, rfl⟩

-- Non-vacuity / examples of the multi-definition reading
example : (getStatusResult .pass [.skip, .pass, .fail]).1 = some .pass := by decide
example : (getStatusResult .skip [.skip, .skip]).1 = some .skip := by decide
example : (getStatusResult .skip [.skip, .pass]).1 = none := by decide
example : (getStatusResult .fail [.skip, .pass]) = (none, [.skip, .pass]) := by decide

/-- **every rendering of a `test` run reads the test files alike**: the plain reporter and the structured one
    (json / yaml / junit) try the same readers in the same order on a test-specification file, YAML first (which
    types scalars like the loader of `validate` does), JSON only as the fallback. Generated from the two reporter
    sources on every run: changing one of them alone, or the order, breaks this obligation -/
theorem C16_spec_readers_alike :
    Gen.testSpecLoaders.map (·.1) = ["generic.rs", "structured.rs"] ∧
    (Gen.testSpecLoaders.all fun e => e.2 == ["serde_yaml", "serde_json"]) = true := by
  decide

end Guard.C16
