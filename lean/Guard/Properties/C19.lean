import Guard.Model.Rulegen
/-
  C19 — generated rules describe the template they were generated from.
  Proved for every list of resources: the rule map has ONE entry per resource type that has
  properties, one clause per property name of that type, and the value list of a clause contains
  exactly the rendered values that occur for that (type, property) in the template — so each
  emitted clause `== v` / `IN [v…]` is satisfied by every occurrence, and a value that does not
  occur is not in the list.  That the emitted TEXT parses to these clauses and that `validate`
  then reports PASS (and FAIL after a mutation) is judged on the real binary; three classes of
  templates on which it does not hold are known findings F-C19-1..3.
-/
set_option linter.unusedSimpArgs false
namespace Guard.C19
open Guard.Rulegen

theorem mem_insertValue (v w : String) (vs : List String) : w ∈ insertValue v vs ↔ w ∈ vs ∨ w = v := by
  unfold insertValue
  by_cases h : vs.contains v = true
  · simp only [h, ↓reduceIte]
    constructor
    · exact Or.inl
    · rintro (h' | rfl)
      · exact h'
      · simpa using h
  · simp only [h, Bool.false_eq_true, ↓reduceIte, List.mem_append, List.mem_singleton]

theorem valuesOf_insertProp (p v q : String) (pm : PropMap) (w : String) :
    w ∈ (lookupProp q (insertProp p v pm)).getD [] ↔ w ∈ (lookupProp q pm).getD [] ∨ (q = p ∧ w = v) := by
  induction pm with
  | nil =>
    by_cases h : q = p
    · subst h; simp [insertProp, lookupProp]
    · have : (p == q) = false := by simpa using fun e => h e.symm
      simp [insertProp, lookupProp, this, h]
  | cons e rest ih =>
    obtain ⟨k, vs⟩ := e
    by_cases hk : k = p
    · subst hk
      by_cases hq : q = k
      · subst hq; simp [insertProp, lookupProp, mem_insertValue]
      · have : (k == q) = false := by simpa using fun e => hq e.symm
        simp [insertProp, lookupProp, this, hq]
    · have hkp : (k == p) = false := by simpa using hk
      by_cases hq : k = q
      · subst hq
        have : ¬ k = p := hk
        simp [insertProp, lookupProp, hkp, this]
      · have hkq : (k == q) = false := by simpa using hq
        simp only [insertProp, hkp, Bool.false_eq_true, ↓reduceIte, lookupProp, List.find?_cons, hkq]
        simpa [lookupProp] using ih

theorem valuesOf_insertRule (t p v u q : String) (m : RuleMap) (w : String) :
    w ∈ valuesOf (insertRule t p v m) u q ↔ w ∈ valuesOf m u q ∨ (u = t ∧ q = p ∧ w = v) := by
  induction m with
  | nil =>
    by_cases h : u = t
    · subst h
      by_cases hq : q = p
      · subst hq; simp [insertRule, valuesOf, lookupRule, lookupProp]
      · have : (p == q) = false := by simpa using fun e => hq e.symm
        simp [insertRule, valuesOf, lookupRule, lookupProp, this, hq]
    · have : (t == u) = false := by simpa using fun e => h e.symm
      simp [insertRule, valuesOf, lookupRule, this, h]
  | cons e rest ih =>
    obtain ⟨k, pm⟩ := e
    by_cases hk : k = t
    · subst hk
      by_cases hu : u = k
      · subst hu
        simp only [insertRule, beq_self_eq_true, ↓reduceIte, valuesOf, lookupRule, List.find?_cons, Option.map_some]
        rw [valuesOf_insertProp]; simp
      · have : (k == u) = false := by simpa using fun e => hu e.symm
        simp [insertRule, valuesOf, lookupRule, this, hu]
    · have hkt : (k == t) = false := by simpa using hk
      by_cases hu : k = u
      · subst hu
        have : ¬ k = t := hk
        simp [insertRule, valuesOf, lookupRule, hkt, this]
      · have hku : (k == u) = false := by simpa using hu
        simp only [insertRule, hkt, Bool.false_eq_true, ↓reduceIte, valuesOf, lookupRule, List.find?_cons, hku]
        simpa [valuesOf, lookupRule] using ih

theorem valuesOf_addResource (m : RuleMap) (r : Resource) (u q w : String) :
    w ∈ valuesOf (addResource m r) u q ↔ w ∈ valuesOf m u q ∨ (u = r.type ∧ (q, w) ∈ r.props) := by
  unfold addResource
  generalize r.props = ps
  induction ps generalizing m with
  | nil => simp
  | cons pv rest ih =>
    simp only [List.foldl_cons]
    rw [ih, valuesOf_insertRule]
    constructor
    · rintro ((h | ⟨h1, h2, h3⟩) | ⟨h1, h2⟩)
      · exact Or.inl h
      · exact Or.inr ⟨h1, by subst h2 h3; exact List.mem_cons_self⟩
      · exact Or.inr ⟨h1, List.mem_cons_of_mem _ h2⟩
    · rintro (h | ⟨h1, h2⟩)
      · exact Or.inl (Or.inl h)
      · rcases List.mem_cons.mp h2 with h3 | h3
        · exact Or.inl (Or.inr ⟨h1, by rw [← h3], by rw [← h3]⟩)
        · exact Or.inr ⟨h1, h3⟩

/-- **The value list of the clause for (type, property) is exactly the set of rendered values
    that occur for that property in resources of that type** — nothing missing, nothing invented. -/
theorem C19_values_exact (rs : List Resource) (t p w : String) :
    w ∈ valuesOf (genRules rs) t p ↔ ∃ r ∈ rs, r.type = t ∧ (p, w) ∈ r.props := by
  unfold genRules
  have key : ∀ (m : RuleMap), w ∈ valuesOf (rs.foldl addResource m) t p ↔
      w ∈ valuesOf m t p ∨ ∃ r ∈ rs, r.type = t ∧ (p, w) ∈ r.props := by
    induction rs with
    | nil => intro m; simp
    | cons r rest ih =>
      intro m
      simp only [List.foldl_cons]
      rw [ih, valuesOf_addResource]
      constructor
      · rintro ((h | ⟨h1, h2⟩) | ⟨r', hr', h⟩)
        · exact Or.inl h
        · exact Or.inr ⟨r, List.mem_cons_self, h1.symm, h2⟩
        · exact Or.inr ⟨r', List.mem_cons_of_mem _ hr', h⟩
      · rintro (h | ⟨r', hr', h1, h2⟩)
        · exact Or.inl (Or.inl h)
        · rcases List.mem_cons.mp hr' with rfl | h3
          · exact Or.inl (Or.inr ⟨h1.symm, h2⟩)
          · exact Or.inr ⟨r', h3, h1, h2⟩
  rw [key []]
  simp [valuesOf, lookupRule]

/-- every occurrence satisfies its clause: the value of property `p` of a resource of type `t`
    is a member of the emitted list (so `== v` / `IN [..]` holds for it) -/
theorem C19_occurrence_in_clause (rs : List Resource) (r : Resource) (hr : r ∈ rs) (p v : String) (hp : (p, v) ∈ r.props) :
    v ∈ valuesOf (genRules rs) r.type p :=
  (C19_values_exact rs r.type p v).mpr ⟨r, hr, rfl, hp⟩

/-- a value that occurs nowhere for (type, property) is not in the list: after mutating a scalar
    to such a value the emitted clause cannot be satisfied by it -/
theorem C19_fresh_value_not_in_clause (rs : List Resource) (t p v : String)
    (hfresh : ∀ r ∈ rs, r.type = t → (p, v) ∉ r.props) : v ∉ valuesOf (genRules rs) t p := by
  intro h
  obtain ⟨r, hr, ht, hp⟩ := (C19_values_exact rs t p v).mp h
  exact hfresh r hr ht hp

example : valuesOf (genRules [⟨"AWS::EC2::Volume", [("Size", "500"), ("Enc", "false")]⟩,
                              ⟨"AWS::EC2::Volume", [("Size", "50"), ("Enc", "false")]⟩]) "AWS::EC2::Volume" "Size" = ["500", "50"] := by
  decide

end Guard.C19
