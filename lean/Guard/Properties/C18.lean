import Guard.Model.Functions
/-
  C18 — built-in functions compute what their documentation says.
  Theorems about `Guard.Model.Functions` (the mirror of functions/*.rs and of the argument
  dispatch in eval_context.rs), for all argument lists.
-/
set_option linter.unusedSimpArgs false
namespace Guard.C18
open Guard

def isUnresolved : QR → Bool | .unresolved _ => true | _ => false

@[simp] theorem ok_bind {α β} (a : α) (f : α → Outcome β) : (Outcome.ok a >>= f) = f a := rfl

/-- `count(q)` is the number of resolved values of `q`. -/
theorem C18_count (args : List QR) :
    ∃ p, countFn args = .int p ((args.filter fun q => !isUnresolved q).length) := by
  refine ⟨firstPath args, ?_⟩
  simp only [countFn]
  congr 2
  induction args with
  | nil => rfl
  | cons a as ih => cases a <;> simp [List.filter_cons, isUnresolved, ih]

/-- element-wise functions: one output slot per argument member, in query order; unresolved
    members and members the function does not support yield an empty slot (they are skipped). -/
theorem C18_elementwise (f : PV → Outcome (Option PV)) (args : List QR) (out : List (Option PV))
    (h : perValue f args = .ok out) :
    out.length = args.length ∧
    ∀ i (hi : i < args.length) (ho : i < out.length),
      (match args[i] with
       | .unresolved _ => out[i] = none
       | .literal v | .resolved v => f v = .ok out[i]) := by
  induction args generalizing out with
  | nil => simp [perValue] at h; subst h; simp
  | cons q qs ih =>
    simp only [perValue] at h
    cases q with
    | unresolved u =>
      cases hr : perValue f qs with
      | ok t =>
        simp [hr] at h; subst h
        obtain ⟨l, e⟩ := ih t hr
        refine ⟨by simp [l], ?_⟩
        intro i hi ho
        cases i with
        | zero => simp
        | succ j => simpa using e j (by simpa using hi) (by simpa using ho)
      | err e => simp [hr] at h
      | panic s => simp [hr] at h
      | outOfFuel => simp [hr] at h
    | literal v =>
      cases hv : f v with
      | ok o =>
        cases hr : perValue f qs with
        | ok t =>
          simp [hv, hr] at h; subst h
          obtain ⟨l, e⟩ := ih t hr
          refine ⟨by simp [l], ?_⟩
          intro i hi ho
          cases i with
          | zero => simp [hv]
          | succ j => simpa using e j (by simpa using hi) (by simpa using ho)
        | err e => simp [hv, hr] at h
        | panic s => simp [hv, hr] at h
        | outOfFuel => simp [hv, hr] at h
      | err e => simp [hv] at h
      | panic s => simp [hv] at h
      | outOfFuel => simp [hv] at h
    | resolved v =>
      cases hv : f v with
      | ok o =>
        cases hr : perValue f qs with
        | ok t =>
          simp [hv, hr] at h; subst h
          obtain ⟨l, e⟩ := ih t hr
          refine ⟨by simp [l], ?_⟩
          intro i hi ho
          cases i with
          | zero => simp [hv]
          | succ j => simpa using e j (by simpa using hi) (by simpa using ho)
        | err e => simp [hv, hr] at h
        | panic s => simp [hv, hr] at h
        | outOfFuel => simp [hv, hr] at h
      | err e => simp [hv] at h
      | panic s => simp [hv] at h
      | outOfFuel => simp [hv] at h

/-! ### substring -/

def Ascii (s : Str) : Prop := ∀ c ∈ s, c.toNat < 128

theorem utf8Len_ascii (s : Str) (h : Ascii s) : s.utf8Len = s.length := by
  induction s with
  | nil => rfl
  | cons c cs ih =>
    have hc := h c List.mem_cons_self
    have := ih (fun x hx => h x (List.mem_cons_of_mem _ hx))
    simp only [Str.utf8Len, List.map_cons, List.sum_cons, List.length_cons] at this ⊢
    simp [Guard.utf8Len, hc, this]; omega

theorem dropBytes_ascii (s : Str) (h : Ascii s) (n : Nat) (hn : n ≤ s.length) : s.dropBytes n = some (s.drop n) := by
  induction s generalizing n with
  | nil => cases n <;> simp [Str.dropBytes] at hn ⊢
  | cons c cs ih =>
    cases n with
    | zero => simp [Str.dropBytes]
    | succ k =>
      have hc : Guard.utf8Len c = 1 := by simp [Guard.utf8Len, h c List.mem_cons_self]
      simp only [Str.dropBytes, hc]
      have : 1 ≤ k + 1 := by omega
      simp only [this, ↓reduceIte, Nat.add_sub_cancel, List.drop_succ_cons]
      exact ih (fun x hx => h x (List.mem_cons_of_mem _ hx)) k (by simpa using hn)

theorem takeBytes_ascii (s : Str) (h : Ascii s) (n : Nat) (hn : n ≤ s.length) : s.takeBytes n = some (s.take n) := by
  induction s generalizing n with
  | nil => cases n <;> simp [Str.takeBytes] at hn ⊢
  | cons c cs ih =>
    cases n with
    | zero => simp [Str.takeBytes]
    | succ k =>
      have hc : Guard.utf8Len c = 1 := by simp [Guard.utf8Len, h c List.mem_cons_self]
      simp only [Str.takeBytes, hc]
      have : 1 ≤ k + 1 := by omega
      simp only [this, ↓reduceIte, Nat.add_sub_cancel, List.take_succ_cons]
      rw [ih (fun x hx => h x (List.mem_cons_of_mem _ hx)) k (by simpa using hn)]
      rfl

/-- **`substring(s, i, j)` is characters i..j of an ASCII string; strings for which the offsets
    are out of range are skipped** — for offsets of any size. -/
theorem C18_substring (s : Str) (i j : Nat) (h : Ascii s) :
    substringOne s i j = (if i < j ∧ j ≤ s.length then some ((s.drop i).take (j - i)) else none) := by
  have hl := utf8Len_ascii s h
  unfold substringOne
  simp only [hl]
  by_cases hc : i < j ∧ j ≤ s.length
  · obtain ⟨h1, h2⟩ := hc
    have hne : s.isEmpty = false := by cases s <;> simp at h2 ⊢; omega
    have hi : i ≤ s.length := by omega
    simp only [hne, Bool.not_false, h1, decide_true, Bool.and_self, hi, h2, ↓reduceIte, and_self]
    rw [dropBytes_ascii s h i hi]
    have hd : Ascii (s.drop i) := fun c hc => h c (List.mem_of_mem_drop hc)
    simp only
    rw [takeBytes_ascii (s.drop i) hd (j - i) (by simp; omega)]
  · simp only [hc, ↓reduceIte]
    by_cases h1 : i < j
    · have h2 : ¬ j ≤ s.length := fun hh => hc ⟨h1, hh⟩
      simp [h1, h2]
    · simp [h1]

/-- offsets: an int that does not fit (negative, or huge) is out of range for every string; no
    wrap-around (fix 8baf9b1) -/
theorem C18_offset_no_wrap (p : Path) (n : Int) :
    offsetOf (.literal (.int p n)) = some (if 0 ≤ n then n.toNat else USIZE_MAX) := rfl

/-! ### join -/

/-- `join` concatenates in query order with the delimiter between elements -/
theorem C18_join_strings (ps : List (Path × Str)) (d : Str) :
    ∃ p, joinFn (ps.map fun e => QR.resolved (.str e.1 e.2)) d = .ok (.str p (List.intercalate d (ps.map (·.2)))) := by
  refine ⟨firstPath (ps.map fun e => QR.resolved (.str e.1 e.2)), ?_⟩
  have : joinFn.go (ps.map fun e => QR.resolved (.str e.1 e.2)) = .ok (ps.map (·.2)) := by
    induction ps with
    | nil => rfl
    | cons e es ih => simp [joinFn.go, ih]
  simp [joinFn, this]

/-- … and any non-string or unresolved member is an error, not a partial result -/
theorem C18_join_error (pre : List (Path × Str)) (bad : QR) (post : List QR) (d : Str)
    (hb : ∀ p s, bad ≠ .resolved (.str p s) ∧ bad ≠ .literal (.str p s)) :
    joinFn ((pre.map fun e => QR.resolved (.str e.1 e.2)) ++ bad :: post) d = .err .IncompatibleError := by
  have : joinFn.go ((pre.map fun e => QR.resolved (.str e.1 e.2)) ++ bad :: post) = .err .IncompatibleError := by
    induction pre with
    | nil =>
      simp only [List.map_nil, List.nil_append]
      cases bad with
      | unresolved u => simp [joinFn.go]
      | literal v => cases v <;> simp [joinFn.go]; exact absurd rfl (hb _ _).2
      | resolved v => cases v <;> simp [joinFn.go]; exact absurd rfl (hb _ _).1
    | cons e es ih => simp [joinFn.go, ih]
  simp [joinFn, this]

/-! ### converters: an error, never a wrong value -/

/-- digits of a natural number, most significant first -/
def digitsRev : Nat → Nat → List Nat
  | 0, _ => []
  | fuel + 1, n => if n < 10 then [n] else (n % 10) :: digitsRev fuel (n / 10)
def natDigits (n : Nat) : List Nat := (digitsRev (n + 1) n).reverse
def ofDigits (ds : List Nat) : Nat := ds.foldl (fun a d => a * 10 + d) 0

theorem ofDigits_append (a : List Nat) (d : Nat) : ofDigits (a ++ [d]) = ofDigits a * 10 + d := by
  simp [ofDigits, List.foldl_append]

theorem digitsRev_spec (fuel n : Nat) (h : n < fuel) : ofDigits (digitsRev fuel n).reverse = n := by
  induction fuel generalizing n with
  | zero => omega
  | succ f ih =>
    simp only [digitsRev]
    by_cases hn : n < 10
    · simp [hn, ofDigits]
    · simp only [hn, ↓reduceIte, List.reverse_cons]
      rw [ofDigits_append, ih (n / 10) (by omega)]
      omega

/-- **decimal printing followed by decimal parsing is the identity** (the arithmetic core of
    `parse_int(parse_string(n)) = n`; no size bound) -/
theorem C18_roundtrip_digits (n : Nat) : ofDigits (natDigits n) = n :=
  digitsRev_spec (n + 1) n (by omega)

/-- `parse_int` of a string is the integer the string denotes or an error — never another value -/
theorem C18_parse_int_string (env : Env) (p : Path) (s : Str) :
    callFunction env .parseInt [[.resolved (.str p s)]] =
      (match parseI64 s with
       | some i => .ok [some (.int p i)]
       | none => .err .ParseError) := by
  simp only [callFunction, List.getElem?_cons_zero, ok_bind, perValue]
  cases parseI64 s <;> rfl

/-- `parse_boolean`, `parse_char`: unparsable input is an error -/
theorem C18_converters_error_not_wrong (env : Env) (p : Path) (s : Str) :
    (env.lower s ≠ "true".toList → env.lower s ≠ "false".toList →
        callFunction env .parseBoolean [[.resolved (.str p s)]] = .err .ParseError) ∧
    (s.utf8Len > 1 → callFunction env .parseChar [[.resolved (.str p s)]] = .err .ParseError) ∧
    (env.f64Parse s = none → callFunction env .parseFloat [[.resolved (.str p s)]] = .err .ParseError) ∧
    (env.parseEpoch s = none → callFunction env .parseEpoch [[.resolved (.str p s)]] = .err .ParseError) := by
  refine ⟨?_, ?_, ?_, ?_⟩
  · intro h1 h2
    have e1 : "true".toList = ['t', 'r', 'u', 'e'] := rfl
    have e2 : "false".toList = ['f', 'a', 'l', 's', 'e'] := rfl
    rw [e1] at h1; rw [e2] at h2
    simp [callFunction, perValue, ok_bind, h1, h2]
  · intro h; simp [callFunction, perValue, ok_bind, h]
  · intro h; simp [callFunction, perValue, ok_bind, h]
  · intro h; simp [callFunction, perValue, ok_bind, h]

/-- values of unsupported type are skipped by the string functions (no error, no value) -/
theorem C18_unsupported_skipped (env : Env) (p : Path) (i : Int) :
    callFunction env .toUpper [[.resolved (.int p i)]] = .ok [none] ∧
    callFunction env .toLower [[.resolved (.int p i)]] = .ok [none] ∧
    callFunction env .urlDecode [[.resolved (.int p i)]] = .ok [none] ∧
    callFunction env .jsonParse [[.resolved (.int p i)]] = .ok [none] := by
  refine ⟨rfl, rfl, rfl, rfl⟩

-- Non-vacuity
example : Ascii "hello".toList := by intro c hc; simp at hc; rcases hc with rfl | rfl | rfl | rfl | rfl <;> decide
example : substringOne "hello".toList 1 3 = some "el".toList := by decide
example : substringOne "hello".toList 65537 65539 = none := by decide

/-- **`parse_char` on integers: the ten digits and nothing else** - for EVERY integer (no wrap-around at 2^32 or
    anywhere): 0..9 give the digit character, every other integer is a ParseError -/
theorem C18_parse_char_int (env : Env) (p : Path) (i : Int) :
    (0 ≤ i ∧ i ≤ 9 → callFunction env .parseChar [[.resolved (.int p i)]] =
        .ok [some (.char p (Char.ofNat ('0'.toNat + i.toNat)))]) ∧
    ((i < 0 ∨ 9 < i) → callFunction env .parseChar [[.resolved (.int p i)]] = .err .ParseError) := by
  constructor
  · rintro ⟨h0, h9⟩
    have h1 : ¬ i < 0 := by omega
    have h2 : ¬ 9 < i := by omega
    simp [callFunction, perValue, ok_bind, h1, h2]
  · intro h
    rcases h with h | h <;> simp [callFunction, perValue, ok_bind, h]

example (env : Env) : callFunction env .parseChar [[.resolved (.int Path.root 4294967301)]] = .err .ParseError :=
  (C18_parse_char_int env Path.root 4294967301).2 (Or.inr (by decide))

end Guard.C18
