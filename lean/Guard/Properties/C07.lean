import Guard.Properties.C09
import Guard.Properties.C06
/-
  C07 — the verdict is independent of output format, verbosity and entry point.

  Every renderer reads ONE record tree (or the `FileReport` derived from it).  Proved here: the
  PASS / FAIL / SKIP partitions that the summary table, the structured report and the JUnit
  reporter extract from a tree coincide; the SARIF result count is the number of reported
  failing checks; flags (-v, -p, -S) only select what is printed (they are not inputs of any
  verdict function of the model).  Well-formedness of the emitted JSON / YAML / XML is a property
  of serde_json / serde_yaml / quick_xml and is only read back (partial).
-/
set_option linter.unusedSimpArgs false
namespace Guard.C07
open Guard

/-- the summary table's partition (summary_table.rs:155-240): top-level rule records by status -/
def summaryPartition (t : Rec) : List Str × List Str × List Str :=
  (namesWith .pass t.children, namesWith .fail t.children, namesWith .skip t.children)

/-- **summary table and structured report partition the rules identically** -/
theorem C07_partitions (s : Status) (ch : List Rec) (h : C09.rulesOnly ch) (rep : FileReport)
    (hrep : fileReport (.node (.fileCheck s) ch) = some rep) :
    (summaryPartition (.node (.fileCheck s) ch)).1 = rep.compliant ∧
    (summaryPartition (.node (.fileCheck s) ch)).2.2 = rep.notApplicable ∧
    (summaryPartition (.node (.fileCheck s) ch)).2.1 = rep.notCompliant.filterMap CR.ruleName? ∧
    rep.status = s := by
  simp only [fileReport, Option.some.injEq] at hrep
  subst hrep
  exact ⟨rfl, rfl, (C09.notCompliant_names ch h).1.symm, rfl⟩

/-- JUnit: one case per (data file, rules file), marked from the file status -/
inductive JCase | pass | skip | failure
  deriving DecidableEq

def junitCase : Status → JCase
  | .pass => .pass | .skip => .skip | .fail => .failure

theorem C07_junit (s : Status) :
    (junitCase s = .failure ↔ s = .fail) ∧ (junitCase s = .pass ↔ s = .pass) ∧ (junitCase s = .skip ↔ s = .skip) := by
  cases s <;> simp [junitCase]

mutual
/-- `ClauseReport::get_message`: one message per reported leaf -/
def messageCount : CR → Nat
  | .rule _ _ cs => messageCountList cs
  | .block _ => 1
  | .disjunctions cs => messageCountList cs
  | .clause _ => 1
def messageCountList : List CR → Nat
  | [] => 0
  | c :: cs => messageCount c + messageCountList cs
end

/-- SARIF (sarif.rs:28-160): results only for FAIL reports, one per message -/
def sarifResultCount (reports : List FileReport) : Nat :=
  ((reports.filter fun r => r.status == .fail).map fun r => messageCountList r.notCompliant).sum

/-- a report that did not FAIL contributes no SARIF result; a FAIL report one per reported check -/
theorem C07_sarif (r : FileReport) :
    (r.status ≠ .fail → sarifResultCount [r] = 0) ∧
    (r.status = .fail → sarifResultCount [r] = messageCountList r.notCompliant) := by
  constructor
  · intro h
    have : (r.status == Status.fail) = false := by cases hs : r.status <;> simp_all
    simp [sarifResultCount, this]
  · intro h; simp [sarifResultCount, h]

/-- exit code, for one evaluated pair, is a function of the file status only (whatever the format) -/
theorem C07_exit_from_status (s : Status) (m : Cli.Mode) :
    Cli.validateExit m [.evaluated [some s]] = .code (if s = .fail then 19 else 0) := by
  cases s <;> cases m <;> decide

/-- **every entry point hands the text of a data source to the loader in the same way**: the files of `--data`,
    the document on STDIN, the entries of `--payload` and the `--input-parameters` files all reach `build_data_file`
    through the same expression (generated from validate.rs on every run) - an entry point that trims, re-encodes or
    otherwise edits its text before loading breaks this obligation -/
theorem C07_entry_points_pass_text_alike :
    2 ≤ Gen.dataTextArgs.length ∧ Gen.dataTextArgs.eraseDups.length = 1 := by
  decide

end Guard.C07
