import Guard.Model.Lexer
import Guard.Model.Eval
import Guard.Gen.Operators
/-
  C14 — alternative spellings, layout and comments do not change a rule file's meaning.
  (a) the synonym tables are the ones GENERATED from parser.rs; (b) lexical-layer theorems
  (white space / comments are skipped whatever their shape, single and double quotes denote the
  same string); (c) `this` is the identity query step.  The full grammar (clauses, blocks,
  rules) is not transliterated: that part rests on the tie (every generated program is re-spelled
  token class by token class and the real parser's ASTs and the verdicts must coincide) — partial.
-/
set_option linter.unusedSimpArgs false
namespace Guard.C14
open Guard Guard.Lexer

/-! ### (a) documented synonyms, as found in the source -/

def upperAscii (s : String) : String := String.ofList (s.toList.map fun c => if 'a' ≤ c ∧ c ≤ 'z' then Char.ofNat (c.toNat - 32) else c)

/-- every keyword parser accepts exactly two spellings and they differ only in case
    (`when/WHEN`, `in/IN`, `exists/EXISTS`, `some/SOME`, `this/THIS`, `null/NULL`, the `is_*` tests …);
    `or` has three: `or`, `OR`, `|OR|` -/
theorem C14_keyword_case :
    ((Gen.keywordSpellings.filter (·.1 != "or_term")).all fun kw =>
        kw.2.length == 2 && (kw.2.map upperAscii).eraseDups.length == 1 && kw.2.eraseDups.length == 2) = true ∧
    (Gen.keywordSpellings.find? (·.1 == "or_term")).map (·.2) = some ["or", "OR", "|OR|"] := by
  decide

/-- `not` / `NOT` / `!` and `=` / `:=` -/
theorem C14_not_assign_forms :
    Gen.notSpellings = ["not", "NOT", "!"] ∧ Gen.assignSpellings = ["=", ":="] := by
  decide

/-- Rust's `i as i32` on an `i64`: keep the low 32 bits (two's complement) -/
def wrapI32 (i : Int) : Int := (i + 2147483648) % 4294967296 - 2147483648

/-- **`.n` and `[n]` are the same index**: both parser functions read the integer with the same literal parser and
    turn it into the `i32` index by the same conversion (generated from `parser.rs`: a change to one of the two sites
    alone breaks this obligation) -/
theorem C14_index_forms_convert_alike :
    Gen.indexConversions.map (·.1) = ["dotted_property", "array_index"] ∧
    (Gen.indexConversions.map (·.2)).eraseDups.length = 1 := by
  decide

/-- the conversion both forms use is the identity on every index that fits in 32 bits .. -/
theorem wrapI32_small (i : Int) (h : -2147483648 ≤ i ∧ i < 2147483648) : wrapI32 i = i := by
  unfold wrapI32; omega

/-- .. and always lands in the i32 range -/
theorem wrapI32_range (i : Int) : -2147483648 ≤ wrapI32 i ∧ wrapI32 i < 2147483648 := by
  unfold wrapI32; omega

example : wrapI32 4294967297 = 1 ∧ wrapI32 2147483648 = -2147483648 := by decide

/-! ### (b) lexical layer -/

/-- a piece of layout: blanks, tabs, line breaks and `#` comments up to the end of the line -/
inductive Layout : Str → Prop
  | nil : Layout []
  | ws (c : Char) (rest : Str) : isWs c = true → Layout rest → Layout (c :: rest)
  | comment (body rest : Str) : (∀ c ∈ body, c ≠ '\n') → Layout rest → Layout ('#' :: body ++ '\n' :: rest)

def startsToken : Str → Prop
  | [] => True
  | c :: _ => isWs c = false ∧ c ≠ '#'

theorem skipSpaces_token (r : Str) (h : startsToken r) : skipSpaces r = r := by
  cases r with
  | nil => rfl
  | cons c cs => simp [skipSpaces, h.1]

theorem skipSpaces_length (s : Str) : (skipSpaces s).length ≤ s.length := by
  induction s with
  | nil => simp [skipSpaces]
  | cons c cs ih => simp only [skipSpaces]; split <;> simp <;> omega

theorem skipToEol_length (s : Str) : (skipToEol s).length ≤ s.length := by
  induction s with
  | nil => simp [skipToEol]
  | cons c cs ih => simp only [skipToEol]; split <;> simp <;> omega

theorem skipToEol_body (body rest : Str) (h : ∀ c ∈ body, c ≠ '\n') : skipToEol (body ++ '\n' :: rest) = '\n' :: rest := by
  induction body with
  | nil => simp [skipToEol]
  | cons b bs ih =>
    have hb : (b == '\n') = false := by
      have := h b List.mem_cons_self
      simpa using this
    simp only [List.cons_append, skipToEol, hb, Bool.false_eq_true, ↓reduceIte]
    exact ih (fun c hc => h c (List.mem_cons_of_mem _ hc))

/-- with enough fuel, skipping stops exactly at a token start -/
theorem skip_token (fuel : Nat) (r : Str) (h : startsToken r) : skipWsComments fuel r = r := by
  cases fuel with
  | zero => rfl
  | succ n =>
    cases r with
    | nil => rfl
    | cons c cs =>
      have h2 : (c == '#') = false := by simpa using h.2
      simp [skipWsComments, h.1, h2]

/-- **Indentation, blank lines, trailing spaces, line breaks and `#` comments between tokens are
    skipped, whatever their shape**: for every piece of layout `ws` and every continuation `r`
    that starts a token, the skipper consumes exactly `ws`. -/
theorem C14_ws_comments (ws r : Str) (hw : Layout ws) (hr : startsToken r) :
    ∀ fuel, ws.length ≤ fuel → skipWsComments fuel (ws ++ r) = r := by
  -- strengthen: after a leading `skipSpaces` too
  have key : ∀ (ws : Str), Layout ws → ∀ fuel, ws.length ≤ fuel →
      skipWsComments fuel (ws ++ r) = r ∧ skipWsComments fuel (skipSpaces (ws ++ r)) = r := by
    intro ws hw
    induction hw with
    | nil =>
      intro fuel _
      simp only [List.nil_append]
      exact ⟨skip_token fuel r hr, by rw [skipSpaces_token r hr]; exact skip_token fuel r hr⟩
    | ws c rest hc _ ih =>
      intro fuel hf
      cases fuel with
      | zero => simp at hf
      | succ n =>
        have hn : rest.length ≤ n := by simpa using hf
        obtain ⟨_, i2⟩ := ih n hn
        constructor
        · simp only [List.cons_append, skipWsComments, hc, ↓reduceIte]
          exact i2
        · simp only [List.cons_append, skipSpaces, hc, ↓reduceIte]
          -- skipSpaces (rest ++ r) then skip with n+1 ≥ fuel needed
          have := ih (n + 1) (by omega)
          exact this.2
    | comment body rest hb _ ih =>
      intro fuel hf
      cases fuel with
      | zero => simp at hf
      | succ n =>
        have hn : rest.length + 1 ≤ n := by
          simp only [List.length_cons, List.length_append] at hf; omega
        have hhash : isWs '#' = false := by decide
        have step : skipWsComments (n + 1) ('#' :: body ++ '\n' :: rest ++ r) = r := by
          simp only [List.cons_append, skipWsComments, hhash, Bool.false_eq_true, ↓reduceIte, beq_self_eq_true]
          have : body ++ '\n' :: rest ++ r = body ++ '\n' :: (rest ++ r) := by simp
          rw [this, skipToEol_body body (rest ++ r) hb]
          have hnl : isWs '\n' = true := by decide
          simp only [skipSpaces, hnl, ↓reduceIte]
          exact (ih n (by omega)).2
        constructor
        · exact step
        · have : skipSpaces ('#' :: body ++ '\n' :: rest ++ r) = '#' :: body ++ '\n' :: rest ++ r := by
            simp [skipSpaces, hhash]
          rw [this]; exact step
  intro fuel hf
  exact (key ws hw fuel hf).1

/-- **single vs double quotes**: a string without quotes and backslashes denotes the same value
    in either quoting -/
theorem C14_string_quotes (s rest : Str) (h : ∀ c ∈ s, c ≠ '"' ∧ c ≠ '\'' ∧ c ≠ '\\') :
    parseString ('"' :: s ++ '"' :: rest) = some (s, rest) ∧
    parseString ('\'' :: s ++ '\'' :: rest) = some (s, rest) := by
  have body : ∀ (q : Char), (q = '"' ∨ q = '\'') → ∀ s : Str, (∀ c ∈ s, c ≠ '"' ∧ c ≠ '\'' ∧ c ≠ '\\') →
      stringBody q (s ++ q :: rest) = some (s, rest) := by
    intro q hq s
    induction s with
    | nil =>
      intro _
      cases rest with
      | nil => simp [stringBody]
      | cons r rs => simp [stringBody]
    | cons c cs ih =>
      intro hs
      have hc := hs c List.mem_cons_self
      have h1 : (c == q) = false := by
        rcases hq with rfl | rfl
        · simpa using hc.1
        · simpa using hc.2.1
      have h2 : (c == '\\') = false := by simpa using hc.2.2
      have ihh := ih (fun x hx => hs x (List.mem_cons_of_mem _ hx))
      cases hcs : cs ++ q :: rest with
      | nil => simp at hcs
      | cons d ds =>
        rw [hcs] at ihh
        simp only [List.cons_append, hcs, stringBody, h1, h2, Bool.false_eq_true, ↓reduceIte, Bool.false_and]
        rw [ihh]; rfl
  constructor
  · simpa [parseString] using body '"' (Or.inl rfl) s h
  · simpa [parseString] using body '\'' (Or.inr rfl) s h

/-! ### (c) desugarings on the AST -/

/-- an explicit `this` is the identity step of a query: it is skipped without touching the
    current value, the state or the converter -/
theorem C14_this_is_identity (env : Env) (fuel qi : Nat) (query : List QueryPart) (cur : PV) (conv : Option Nat)
    (h : query[qi]? = some .this) :
    queryRetrieval env (fuel + 1) qi query cur conv = queryRetrieval env fuel (qi + 1) query cur conv := by
  simp [queryRetrieval, h, QueryPart.isVariable, QueryPart.variable]

-- Non-vacuity
example : Layout "  # a comment\n\t\n".toList := by
  apply Layout.ws _ _ (by decide)
  apply Layout.ws _ _ (by decide)
  exact Layout.comment " a comment".toList "\t\n".toList (by decide)
    (Layout.ws _ _ (by decide) (Layout.ws _ _ (by decide) Layout.nil))
example : skipWsComments 20 "  # c\n x == 1".toList = "x == 1".toList := by decide

end Guard.C14
