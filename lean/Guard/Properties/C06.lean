import Guard.Model.Cli
/-
  C06 — exit codes of validate and test faithfully encode the outcome.
  Theorems about the exit-code folds of `Guard.Model.Cli`, for ANY number of rules files, data
  files and test cases; the numeric codes come from the generated `Guard.Gen.ExitCodes`
  (so a changed constant in /repo breaks `C06_codes`).
-/
set_option linter.unusedSimpArgs false
namespace Guard.C06
open Guard Guard.Cli

/-- the documented codes: 0 success, 19 failure, 5 parse error, 255 error, test: 1 error / 7 failure -/
theorem C06_codes :
    SUCCESS = 0 ∧ FAILURE = 19 ∧ PARSE_ERROR = 5 ∧ Gen.MAIN_ERROR_EXIT = 255 ∧ T_OK = 0 ∧ T_ERR = 1 ∧ T_FAIL = 7 := by
  decide

theorem code_ne : Exec.code PARSE_ERROR ≠ Exec.code 0 ∧ Exec.code FAILURE ≠ Exec.code 0 ∧
    Exec.code SUCCESS = Exec.code 0 ∧ Exec.error ≠ Exec.code 0 := by decide

def allParsed (fs : List RuleFile) : Prop := ∀ f ∈ fs, f.parsed = true
def noFail (fs : List RuleFile) : Prop := ∀ f ∈ fs, f.hasFail = false
def noEvalError (fs : List RuleFile) : Prop := ∀ f ∈ fs, f.hasEvalError = false
theorem any_false_iff {α} (p : α → Bool) (l : List α) : l.any p = false ↔ ∀ x ∈ l, p x = false := by
  induction l with
  | nil => simp
  | cons a as ih => simp [List.any_cons, ih]

/-! ### plain mode -/

theorem plain_clean (c : Int) (fs : List RuleFile) (hp : allParsed fs) (hf : noFail fs) (he : noEvalError fs) :
    plainFold c fs = .code c := by
  induction fs generalizing c with
  | nil => rfl
  | cons f rest ih =>
    have hp' : allParsed rest := fun g hg => hp g (List.mem_cons_of_mem _ hg)
    have hf' : noFail rest := fun g hg => hf g (List.mem_cons_of_mem _ hg)
    have he' : noEvalError rest := fun g hg => he g (List.mem_cons_of_mem _ hg)
    have p0 := hp f List.mem_cons_self
    have f0 := hf f List.mem_cons_self
    have e0 := he f List.mem_cons_self
    cases f with
    | unreadable => simp [RuleFile.parsed, RuleFile.isUnreadable, RuleFile.isParseError] at p0
    | parseError => simp [RuleFile.parsed, RuleFile.isUnreadable, RuleFile.isParseError] at p0
    | empty => simpa [plainFold] using ih c hp' hf' he'
    | evaluated cols =>
      simp only [RuleFile.hasFail] at f0
      simp only [plainFold, e0, f0, Bool.false_eq_true, ↓reduceIte]
      exact ih c hp' hf' he'

theorem plain_fail (c : Int) (fs : List RuleFile) (hp : allParsed fs) (he : noEvalError fs)
    (hf : ∃ f ∈ fs, f.hasFail = true) : plainFold c fs = .code FAILURE := by
  induction fs generalizing c with
  | nil => obtain ⟨f, hm, _⟩ := hf; cases hm
  | cons f rest ih =>
    have hp' : allParsed rest := fun g hg => hp g (List.mem_cons_of_mem _ hg)
    have he' : noEvalError rest := fun g hg => he g (List.mem_cons_of_mem _ hg)
    have p0 := hp f List.mem_cons_self
    have e0 := he f List.mem_cons_self
    by_cases hr : ∃ g ∈ rest, g.hasFail = true
    · cases f with
      | unreadable => simp [RuleFile.parsed, RuleFile.isUnreadable, RuleFile.isParseError] at p0
      | parseError => simp [RuleFile.parsed, RuleFile.isUnreadable, RuleFile.isParseError] at p0
      | empty => simpa [plainFold] using ih c hp' he' hr
      | evaluated cols =>
        simp only [plainFold, e0, Bool.false_eq_true, ↓reduceIte]
        split
        · exact ih _ hp' he' hr
        · exact ih _ hp' he' hr
    · have hnf : noFail rest := by
        intro g hg
        cases hh : g.hasFail
        · rfl
        · exact absurd ⟨g, hg, hh⟩ hr
      obtain ⟨g, hg, hgf⟩ := hf
      rcases List.mem_cons.mp hg with rfl | hg'
      · cases g with
        | unreadable => simp [RuleFile.hasFail] at hgf
        | parseError => simp [RuleFile.hasFail] at hgf
        | empty => simp [RuleFile.hasFail] at hgf
        | evaluated cols =>
          simp only [RuleFile.hasFail] at hgf
          simp only [plainFold, e0, hgf, Bool.false_eq_true, ↓reduceIte]
          exact plain_clean _ rest hp' hnf he'
      · exact absurd ⟨g, hg', hgf⟩ hr

theorem plain_parse (c : Int) (fs : List RuleFile) (he : noEvalError fs) (hf : noFail fs)
    (hp : ∃ f ∈ fs, f.parsed = false) : plainFold c fs = .code PARSE_ERROR := by
  induction fs generalizing c with
  | nil => obtain ⟨f, hm, _⟩ := hp; cases hm
  | cons f rest ih =>
    have hf' : noFail rest := fun g hg => hf g (List.mem_cons_of_mem _ hg)
    have he' : noEvalError rest := fun g hg => he g (List.mem_cons_of_mem _ hg)
    have f0 := hf f List.mem_cons_self
    have e0 := he f List.mem_cons_self
    by_cases hr : ∃ g ∈ rest, g.parsed = false
    · cases f with
      | unreadable => simpa [plainFold] using ih _ he' hf' hr
      | parseError => simpa [plainFold] using ih _ he' hf' hr
      | empty => simpa [plainFold] using ih c he' hf' hr
      | evaluated cols =>
        simp only [RuleFile.hasFail] at f0
        simp only [plainFold, e0, f0, Bool.false_eq_true, ↓reduceIte]
        exact ih c he' hf' hr
    · have hall : allParsed rest := by
        intro g hg
        cases hh : g.parsed
        · exact absurd ⟨g, hg, hh⟩ hr
        · rfl
      obtain ⟨g, hg, hgp⟩ := hp
      rcases List.mem_cons.mp hg with rfl | hg'
      · cases g with
        | unreadable => simpa [plainFold] using plain_clean PARSE_ERROR rest hall hf' he'
        | parseError => simpa [plainFold] using plain_clean PARSE_ERROR rest hall hf' he'
        | empty => simp [RuleFile.parsed, RuleFile.isUnreadable, RuleFile.isParseError] at hgp
        | evaluated cols => simp [RuleFile.parsed, RuleFile.isUnreadable, RuleFile.isParseError] at hgp
      · exact absurd ⟨g, hg', hgp⟩ hr

/-! ### the three iff's of the property, for each mode -/

/-- **validate exits 0 iff every rules file parsed and no (rules file, data file) evaluation was
    FAIL** (and nothing raised an evaluation error) — plain mode. -/
theorem C06_validate_zero_plain (fs : List RuleFile) (he : noEvalError fs) :
    validateExit .plain fs = .code 0 ↔ allParsed fs ∧ noFail fs := by
  constructor
  · intro h
    by_cases hp : ∃ f ∈ fs, f.parsed = false
    · by_cases hf : ∃ f ∈ fs, f.hasFail = true
      · -- some parse error and some FAIL: the code is 5 or 19, never 0
        exfalso
        have : ∀ c fs, noEvalError fs → (∃ f ∈ fs, f.parsed = false ∨ f.hasFail = true) →
            plainFold c fs = .code PARSE_ERROR ∨ plainFold c fs = .code FAILURE := by
          intro c fs
          induction fs generalizing c with
          | nil => intro _ ⟨f, hm, _⟩; cases hm
          | cons f rest ih =>
            intro he hx
            have he' : noEvalError rest := fun g hg => he g (List.mem_cons_of_mem _ hg)
            have e0 := he f List.mem_cons_self
            by_cases hr : ∃ g ∈ rest, g.parsed = false ∨ g.hasFail = true
            · cases f with
              | unreadable => simpa [plainFold] using ih _ he' hr
              | parseError => simpa [plainFold] using ih _ he' hr
              | empty => simpa [plainFold] using ih _ he' hr
              | evaluated cols =>
                simp only [plainFold, e0, Bool.false_eq_true, ↓reduceIte]
                split <;> exact ih _ he' hr
            · have hp' : allParsed rest := by
                intro g hg; cases hh : g.parsed
                · exact absurd ⟨g, hg, Or.inl hh⟩ hr
                · rfl
              have hf' : noFail rest := by
                intro g hg; cases hh : g.hasFail
                · rfl
                · exact absurd ⟨g, hg, Or.inr hh⟩ hr
              obtain ⟨g, hg, hgx⟩ := hx
              rcases List.mem_cons.mp hg with rfl | hg'
              · cases g with
                | unreadable => left; simpa [plainFold] using plain_clean PARSE_ERROR rest hp' hf' he'
                | parseError => left; simpa [plainFold] using plain_clean PARSE_ERROR rest hp' hf' he'
                | empty => simp [RuleFile.parsed, RuleFile.isUnreadable, RuleFile.isParseError, RuleFile.hasFail] at hgx
                | evaluated cols =>
                  rcases hgx with hgx | hgx
                  · simp [RuleFile.parsed, RuleFile.isUnreadable, RuleFile.isParseError] at hgx
                  · simp only [RuleFile.hasFail] at hgx
                    right
                    simp only [plainFold, e0, hgx, Bool.false_eq_true, ↓reduceIte]
                    exact plain_clean FAILURE rest hp' hf' he'
              · exact absurd ⟨g, hg', hgx⟩ hr
        obtain ⟨f, hm, hfp⟩ := hp
        rcases this SUCCESS fs he ⟨f, hm, Or.inl hfp⟩ with h' | h'
        · simp only [validateExit] at h; rw [h'] at h; exact code_ne.1 h
        · simp only [validateExit] at h; rw [h'] at h; exact code_ne.2.1 h
      · have hnf : noFail fs := by
          intro g hg; cases hh : g.hasFail
          · rfl
          · exact absurd ⟨g, hg, hh⟩ hf
        have := plain_parse SUCCESS fs he hnf hp
        simp only [validateExit] at h; rw [this] at h; exact absurd h code_ne.1
    · have hall : allParsed fs := by
        intro g hg; cases hh : g.parsed
        · exact absurd ⟨g, hg, hh⟩ hp
        · rfl
      by_cases hf : ∃ f ∈ fs, f.hasFail = true
      · have := plain_fail SUCCESS fs hall he hf
        simp only [validateExit] at h; rw [this] at h; exact absurd h code_ne.2.1
      · refine ⟨hall, ?_⟩
        intro g hg; cases hh : g.hasFail
        · rfl
        · exact absurd ⟨g, hg, hh⟩ hf
  · intro ⟨hp, hf⟩
    simpa [validateExit, SUCCESS, Gen.SUCCESS_STATUS_CODE] using plain_clean SUCCESS fs hp hf he

/-- all rules files parse and at least one evaluation is FAIL ⇒ 19 (plain) -/
theorem C06_validate_fail_plain (fs : List RuleFile) (he : noEvalError fs) (hp : allParsed fs)
    (hf : ∃ f ∈ fs, f.hasFail = true) : validateExit .plain fs = .code 19 := by
  simpa [validateExit, FAILURE, Gen.FAILURE_STATUS_CODE] using plain_fail SUCCESS fs hp he hf

/-- a rules file fails to parse (or cannot be read) and nothing FAILs ⇒ 5 (plain) -/
theorem C06_validate_parse_plain (fs : List RuleFile) (he : noEvalError fs) (hf : noFail fs)
    (hp : ∃ f ∈ fs, f.parsed = false) : validateExit .plain fs = .code 5 := by
  simpa [validateExit, PARSE_ERROR, Gen.ERROR_STATUS_CODE] using plain_parse SUCCESS fs he hf hp

/-! structured (json / yaml / sarif) and junit -/

theorem allParsed_iff (fs : List RuleFile) :
    allParsed fs ↔ fs.any RuleFile.isUnreadable = false ∧ fs.any RuleFile.isParseError = false := by
  rw [any_false_iff, any_false_iff]
  constructor
  · intro h
    refine ⟨fun f hf => ?_, fun f hf => ?_⟩ <;>
      · have := h f hf
        cases f <;> simp [RuleFile.parsed, RuleFile.isUnreadable, RuleFile.isParseError] at this ⊢
  · intro ⟨h1, h2⟩ f hf
    have a := h1 f hf
    have b := h2 f hf
    simp [RuleFile.parsed, a, b]

theorem noFail_iff (fs : List RuleFile) : noFail fs ↔ fs.any RuleFile.hasFail = false := by
  rw [any_false_iff]; rfl

/-- structured and junit: 0 iff all parsed and nothing FAILed (no evaluation error) -/
theorem C06_validate_zero_structured (m : Mode) (hm : m ≠ .plain) (fs : List RuleFile) (he : noEvalError fs) :
    validateExit m fs = .code 0 ↔ allParsed fs ∧ noFail fs := by
  have hee : fs.any RuleFile.hasEvalError = false := (any_false_iff _ _).mpr he
  rw [allParsed_iff, noFail_iff]
  cases m with
  | plain => exact absurd rfl hm
  | structured =>
    simp only [validateExit, structuredExit, hee]
    generalize fs.any RuleFile.isUnreadable = bu
    generalize fs.any RuleFile.isParseError = bp
    generalize fs.any RuleFile.hasFail = bf
    cases bu <;> cases bp <;> cases bf <;> decide
  | junit =>
    simp only [validateExit, junitExit, hee]
    generalize fs.any RuleFile.isUnreadable = bu
    generalize fs.any RuleFile.isParseError = bp
    generalize fs.any RuleFile.hasFail = bf
    cases bu <;> cases bp <;> cases bf <;> decide

/-- structured / junit: all parse and something FAILs ⇒ 19; a parse error and nothing FAILs ⇒ 5;
    an unreadable rules file ⇒ `Err` -/
theorem C06_validate_fail_parse_structured (m : Mode) (hm : m ≠ .plain) (fs : List RuleFile) (he : noEvalError fs) :
    (allParsed fs → (∃ f ∈ fs, f.hasFail = true) → validateExit m fs = .code 19) ∧
    (fs.any RuleFile.isUnreadable = false → fs.any RuleFile.isParseError = true → noFail fs → validateExit m fs = .code 5) ∧
    (fs.any RuleFile.isUnreadable = true → validateExit m fs = .error) := by
  have hee : fs.any RuleFile.hasEvalError = false := (any_false_iff _ _).mpr he
  have hfa : (∃ f ∈ fs, f.hasFail = true) ↔ fs.any RuleFile.hasFail = true := by simp [List.any_eq_true]
  rw [allParsed_iff, noFail_iff, hfa]
  cases m with
  | plain => exact absurd rfl hm
  | structured =>
    simp only [validateExit, structuredExit, hee]
    generalize fs.any RuleFile.isUnreadable = bu
    generalize fs.any RuleFile.isParseError = bp
    generalize fs.any RuleFile.hasFail = bf
    cases bu <;> cases bp <;> cases bf <;> decide
  | junit =>
    simp only [validateExit, junitExit, hee]
    generalize fs.any RuleFile.isUnreadable = bu
    generalize fs.any RuleFile.isParseError = bp
    generalize fs.any RuleFile.hasFail = bf
    cases bu <;> cases bp <;> cases bf <;> decide

/-- an `Err` (missing path, malformed data, evaluation error, unreadable rules file in structured
    mode) leaves the process with a code that is neither 0 nor 19 -/
theorem C06_error_exit : mainExit .error ≠ 0 ∧ mainExit .error ≠ 19 := by decide

/-- whatever happens, `validate` ends in one of the documented codes -/
theorem C06_validate_codes (m : Mode) (fs : List RuleFile) :
    mainExit (validateExit m fs) ∈ [0, 5, 19, 255] := by
  have hplain : ∀ c fs, c ∈ [(0 : Int), 5, 19] → mainExit (plainFold c fs) ∈ [0, 5, 19, 255] := by
    intro c fs
    induction fs generalizing c with
    | nil => intro hc; simp only [plainFold, mainExit]; revert hc; simp; omega
    | cons f rest ih =>
      intro hc
      cases f with
      | unreadable => exact ih _ (by decide)
      | parseError => exact ih _ (by decide)
      | empty => exact ih _ hc
      | evaluated cols =>
        simp only [plainFold]
        split
        · decide
        · split
          · exact ih _ (by decide)
          · exact ih _ hc
  cases m with
  | plain => exact hplain _ _ (by decide)
  | structured =>
    simp only [validateExit, structuredExit]
    generalize fs.any RuleFile.isUnreadable = bu
    generalize fs.any RuleFile.isParseError = bp
    generalize fs.any RuleFile.hasFail = bf
    generalize fs.any RuleFile.hasEvalError = be
    cases bu <;> cases bp <;> cases bf <;> cases be <;> decide
  | junit =>
    simp only [validateExit, junitExit]
    generalize fs.any RuleFile.isUnreadable = bu
    generalize fs.any RuleFile.isParseError = bp
    generalize fs.any RuleFile.hasFail = bf
    generalize fs.any RuleFile.hasEvalError = be
    cases bu <;> cases bp <;> cases bf <;> cases be <;> decide

/-! ### test -/

/-- `test`, single rules file, plain: 0 iff rules and every test file parse and no test case has a
    mismatching expectation; 7 if everything parses and some case mismatches; never 0 otherwise -/
theorem C06_test_plain (fs : List TestFile) :
    (testSinglePlain (.ok fs) = 0 ↔ ∀ f ∈ fs, ∃ ms, f = .specs ms ∧ ms.any id = false) ∧
    ((∀ f ∈ fs, ∃ ms, f = .specs ms) → (∃ f ∈ fs, ∃ ms, f = .specs ms ∧ ms.any id = true) →
        testSinglePlain (.ok fs) = 7) ∧
    testSinglePlain .bad ≠ 0 := by
  have clean : ∀ c fs, (∀ f ∈ fs, ∃ ms, f = TestFile.specs ms ∧ ms.any id = false) → genericFold c fs = c := by
    intro c fs
    induction fs generalizing c with
    | nil => intro _; rfl
    | cons f rest ih =>
      intro h
      obtain ⟨ms, rfl, hm⟩ := h f List.mem_cons_self
      simp only [genericFold, hm, Bool.false_eq_true, ↓reduceIte]
      exact ih c (fun g hg => h g (List.mem_cons_of_mem _ hg))
  have dirty : ∀ c fs, (∃ f ∈ fs, ∀ ms, f = TestFile.specs ms → ms.any id = true) →
      genericFold c fs = T_ERR ∨ genericFold c fs = T_FAIL := by
    intro c fs
    induction fs generalizing c with
    | nil => intro ⟨f, hm, _⟩; cases hm
    | cons f rest ih =>
      intro h
      by_cases hr : ∃ g ∈ rest, ∀ ms, g = TestFile.specs ms → ms.any id = true
      · cases f with
        | unparsable => exact ih _ hr
        | specs ms => exact ih _ hr
      · have hcl : ∀ g ∈ rest, ∃ ms, g = TestFile.specs ms ∧ ms.any id = false := by
          intro g hg
          cases g with
          | unparsable => exact absurd ⟨_, hg, fun ms hh => by cases hh⟩ hr
          | specs ms =>
            cases hh : ms.any id
            · exact ⟨ms, rfl, hh⟩
            · exact absurd ⟨_, hg, fun ms' he => by cases he; exact hh⟩ hr
        obtain ⟨g, hg, hgx⟩ := h
        rcases List.mem_cons.mp hg with rfl | hg'
        · cases g with
          | unparsable => left; simp only [genericFold]; exact clean _ rest hcl
          | specs ms =>
            right
            simp only [genericFold, hgx ms rfl, ↓reduceIte]
            exact clean _ rest hcl
        · exact absurd ⟨g, hg', hgx⟩ hr
  refine ⟨?_, ?_, by decide⟩
  · constructor
    · intro h
      by_cases hx : ∃ f ∈ fs, ∀ ms, f = TestFile.specs ms → ms.any id = true
      · exfalso
        rcases dirty T_OK fs hx with h' | h' <;>
          · simp only [testSinglePlain] at h; rw [h'] at h; revert h; decide
      · intro f hf
        cases f with
        | unparsable => exact absurd ⟨_, hf, fun ms hh => by cases hh⟩ hx
        | specs ms =>
          cases hh : ms.any id
          · exact ⟨ms, rfl, hh⟩
          · exact absurd ⟨_, hf, fun ms' he => by cases he; exact hh⟩ hx
    · intro h
      simpa [testSinglePlain, T_OK, Gen.SUCCESS_STATUS_CODE] using clean T_OK fs h
  · intro hall hsome
    -- every file parses, so the fold never sees `unparsable`: the code is 7 from the first mismatch on
    have noErr : ∀ c fs, (∀ f ∈ fs, ∃ ms, f = TestFile.specs ms) → c ≠ T_ERR → genericFold c fs ≠ T_ERR := by
      intro c fs
      induction fs generalizing c with
      | nil => intro _ hc; exact hc
      | cons f rest ih =>
        intro h hc
        obtain ⟨ms, rfl⟩ := h f List.mem_cons_self
        simp only [genericFold]
        apply ih _ (fun g hg => h g (List.mem_cons_of_mem _ hg))
        split
        · decide
        · exact hc
    obtain ⟨f, hf, ms, rfl, hm⟩ := hsome
    rcases dirty T_OK fs ⟨_, hf, fun ms' he => by cases he; exact hm⟩ with h' | h'
    · exact absurd h' (noErr T_OK fs hall (by decide))
    · simpa [testSinglePlain, T_FAIL, Gen.TEST_FAILURE_STATUS_CODE] using h'

/-- merging per-file codes: 1 (error) is sticky over 7 (failure) and 0 is the identity -/
theorem C06_merge_codes (cur code : Int) (h1 : cur ∈ [T_OK, T_ERR, T_FAIL]) (h2 : code ∈ [T_OK, T_ERR, T_FAIL]) :
    (mergeTestCode cur code = T_OK ↔ cur = T_OK ∧ code = T_OK) ∧
    (mergeTestCode cur code = T_ERR ↔ cur = T_ERR ∨ code = T_ERR) := by
  simp only [List.mem_cons, List.mem_nil_iff, or_false] at h1 h2
  rcases h1 with rfl | rfl | rfl <;> rcases h2 with rfl | rfl | rfl <;> decide

-- Non-vacuity
example : noEvalError [RuleFile.evaluated [some .pass, some .fail], .parseError, .empty] := by
  intro f hf; simp at hf; rcases hf with rfl | rfl | rfl <;> rfl
example : validateExit .plain [RuleFile.evaluated [some .pass, some .fail], .parseError] = .code 5 := by decide
example : validateExit .structured [RuleFile.evaluated [some .pass, some .fail], .parseError] = .code 19 := by decide
example : validateExit .junit [RuleFile.evaluated [some .pass, some .fail], .parseError] = .code 5 := by decide

end Guard.C06
