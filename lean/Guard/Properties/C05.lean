import Guard.Gen.Sites
import Guard.Properties.SitesBaseline
import Guard.Properties.C04
import Guard.Properties.C12
/-
  C05 — evaluation is deterministic.

  Every Lean function is deterministic, so the content here is (1) that every SOURCE of
  non-determinism in the code is either a parameter of the model or audited as order-irrelevant,
  and (2) that the model's results do not depend on those parameters:
    * `C05_hash_sites_covered` — a GENERATED obligation: every iteration over a std HashMap/HashSet
      found in the current source (tools/extract.py) is in the reviewed baseline with a reason;
      a change that starts iterating a hash container adds a site and this stops being true;
    * the clock: `now()` is the field `Env.now`; evaluation without a `now()` call does not read it;
    * earlier evaluations: C12 (`St.init` per pair).
  The runtime itself (actual hash seeds, processes) is only observable by repetition: partial.
-/
set_option linter.unusedSimpArgs false
namespace Guard.C05
open Guard

def siteKey (s : String × String × String × Nat) : String × String × String × Nat := s
def baseKey (s : String × String × String × Nat × String) : String × String × String × Nat := (s.1, s.2.1, s.2.2.1, s.2.2.2.1)

/-- every hash-iteration site in the current source is a reviewed one, and none is unreviewed -/
theorem C05_hash_sites_covered :
    (Gen.hashSites.all fun s => (Sites.hashBaseline.map baseKey).contains s) = true ∧
    (Sites.hashBaseline.all fun b => b.2.2.2.2 != "UNREVIEWED") = true := by
  decide +kernel

/-- permuting what a hash container yields does not change any aggregated status (C04) -/
theorem C05_order_free_aggregation {l₁ l₂ : List Status} (h : l₁.Perm l₂) :
    bodyStatus l₁ = bodyStatus l₂ ∧ lineStatus l₁ = lineStatus l₂ :=
  ⟨C04.C04_lines_perm h, C02.C02_line_perm h⟩

/-- the clock is read only by `now()`: every other function ignores `Env.now` -/
theorem C05_clock_only_now (env : Env) (t₁ t₂ : Int) (name : FunctionName) (args : List (List QR)) (h : name ≠ .now) :
    callFunction { env with now := t₁ } name args = callFunction { env with now := t₂ } name args := by
  cases name <;> simp_all [callFunction]

/-- nothing evaluated earlier in the process is an input of a later evaluation -/
theorem C05_no_leftover_state (st₁ st₂ : St) (env : Env) (fuel : Nat) (r : RulesFile) (d : PV) :
    C12.runPair st₁ env fuel r d = C12.runPair st₂ env fuel r d := rfl

end Guard.C05
