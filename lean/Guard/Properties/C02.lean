import Guard.Judge.C02
/-
  C02 — every composite status follows from its parts.
  The evaluator model computes every composite status through the five aggregators below
  (`lineStatus`, `bodyStatus`, `someStatus`, `clauseStatus`, `namedStatus`); these theorems
  characterise them for lists of EVERY length (the property's 3ⁿ child-status vectors at all sites).
  `Consistent` (Guard/Judge/C02.lean) is the same statement as a decidable predicate on record
  trees; it is run on the implementation's tree by the check.
-/
set_option linter.unusedSimpArgs false
namespace Guard.C02
open Guard

theorem any_eq_mem (sts : List Status) (x : Status) : sts.any (· == x) = true ↔ x ∈ sts := by
  rw [List.any_eq_true]
  constructor
  · rintro ⟨y, hy, he⟩; rw [beq_iff_eq] at he; exact he ▸ hy
  · intro h; exact ⟨x, h, by simp⟩

/-- A line of `or`-joined alternatives: PASS iff one alternative passed; FAIL iff none passed
    and one failed; else SKIP. -/
theorem C02_line (sts : List Status) :
    (lineStatus sts = .pass ↔ Status.pass ∈ sts) ∧
    (lineStatus sts = .fail ↔ Status.pass ∉ sts ∧ Status.fail ∈ sts) ∧
    (lineStatus sts = .skip ↔ Status.pass ∉ sts ∧ Status.fail ∉ sts) := by
  unfold lineStatus
  by_cases hp : sts.any (· == Status.pass) = true
  · have := (any_eq_mem sts .pass).mp hp
    simp [hp, this]
  · have hp' : Status.pass ∉ sts := fun h => hp ((any_eq_mem sts .pass).mpr h)
    by_cases hf : sts.any (· == Status.fail) = true
    · have := (any_eq_mem sts .fail).mp hf
      simp [hp, hf, hp', this]
    · have hf' : Status.fail ∉ sts := fun h => hf ((any_eq_mem sts .fail).mpr h)
      simp [hp, hf, hp', hf']

/-- A block / rule body / `when` body / filter body / the file over its rules / a type block over
    its values: FAIL iff one line failed; PASS iff none failed and one passed; else SKIP. -/
theorem C02_body (lines : List Status) :
    (bodyStatus lines = .fail ↔ Status.fail ∈ lines) ∧
    (bodyStatus lines = .pass ↔ Status.fail ∉ lines ∧ Status.pass ∈ lines) ∧
    (bodyStatus lines = .skip ↔ Status.fail ∉ lines ∧ Status.pass ∉ lines) := by
  unfold bodyStatus
  by_cases hf : lines.any (· == Status.fail) = true
  · have := (any_eq_mem lines .fail).mp hf
    simp [hf, this]
  · have hf' : Status.fail ∉ lines := fun h => hf ((any_eq_mem lines .fail).mpr h)
    by_cases hp : lines.any (· == Status.pass) = true
    · have := (any_eq_mem lines .pass).mp hp
      simp [hp, hf, hf', this]
    · have hp' : Status.pass ∉ lines := fun h => hp ((any_eq_mem lines .pass).mpr h)
      simp [hp, hf, hp', hf']

/-- `some` query block over its values: PASS iff one value passed; FAIL iff none passed and one
    failed; else SKIP. -/
theorem C02_some_block (vals : List Status) :
    (someStatus vals = .pass ↔ Status.pass ∈ vals) ∧
    (someStatus vals = .fail ↔ Status.pass ∉ vals ∧ Status.fail ∈ vals) ∧
    (someStatus vals = .skip ↔ Status.pass ∉ vals ∧ Status.fail ∉ vals) :=
  C02_line vals

/-- The file status is the body aggregation over the rule statuses (same function, same law). -/
theorem C02_file (rules : List Status) :
    (bodyStatus rules = .fail ↔ Status.fail ∈ rules) ∧
    (bodyStatus rules = .pass ↔ Status.fail ∉ rules ∧ Status.pass ∈ rules) ∧
    (bodyStatus rules = .skip ↔ Status.fail ∉ rules ∧ Status.pass ∉ rules) :=
  C02_body rules

/-- A clause over its per-value checks: under `all`, FAIL iff a value check failed (PASS otherwise,
    also for zero checks); under `some`, PASS iff a value check passed. Never SKIP. -/
theorem C02_clause (all : Bool) (results : List Bool) :
    (clauseStatus true results = .fail ↔ false ∈ results) ∧
    (clauseStatus true results = .pass ↔ false ∉ results) ∧
    (clauseStatus false results = .pass ↔ true ∈ results) ∧
    (clauseStatus false results = .fail ↔ true ∉ results) ∧
    clauseStatus all results ≠ .skip := by
  have hmem : ∀ (b : Bool), results.any (· == b) = true ↔ b ∈ results := by
    intro b
    rw [List.any_eq_true]
    constructor
    · rintro ⟨y, hy, he⟩; rw [beq_iff_eq] at he; exact he ▸ hy
    · intro h; exact ⟨b, h, by simp⟩
  refine ⟨?_, ?_, ?_, ?_, ?_⟩
  all_goals (simp only [clauseStatus])
  · by_cases h : results.any (· == false) = true
    · simp [h, (hmem false).mp h]
    · simp [h, fun hh => h ((hmem false).mpr hh)]
  · by_cases h : results.any (· == false) = true
    · simp [h, (hmem false).mp h]
    · simp [h, fun hh => h ((hmem false).mpr hh)]
  · by_cases h : results.any (· == true) = true
    · simp [h, (hmem true).mp h]
    · simp [h, fun hh => h ((hmem true).mpr hh)]
  · by_cases h : results.any (· == true) = true
    · simp [h, (hmem true).mp h]
    · simp [h, fun hh => h ((hmem true).mpr hh)]
  · cases all <;> simp <;> split <;> simp

/-- A clause naming another rule is PASS iff that rule is PASS (FAIL otherwise), inverted under
    `not`; it is never SKIP. -/
theorem C02_named (neg : Bool) (s : Status) :
    (namedStatus false s = .pass ↔ s = .pass) ∧ (namedStatus false s = .fail ↔ s ≠ .pass) ∧
    (namedStatus true s = .pass ↔ s ≠ .pass) ∧ (namedStatus true s = .fail ↔ s = .pass) ∧
    namedStatus neg s ≠ .skip := by
  cases s <;> cases neg <;> simp [namedStatus]

/-- Permutation invariance of the aggregators (used by C04): the status of a body does not
    depend on the order of its lines, nor that of a line on the order of its alternatives. -/
theorem C02_body_perm {l₁ l₂ : List Status} (h : l₁.Perm l₂) : bodyStatus l₁ = bodyStatus l₂ := by
  have e : ∀ x, (l₁.any (· == x)) = (l₂.any (· == x)) := by
    intro x
    apply Bool.eq_iff_iff.mpr
    rw [any_eq_mem, any_eq_mem]
    exact h.mem_iff
  simp [bodyStatus, e]

theorem C02_line_perm {l₁ l₂ : List Status} (h : l₁.Perm l₂) : lineStatus l₁ = lineStatus l₂ := by
  have e : ∀ x, (l₁.any (· == x)) = (l₂.any (· == x)) := by
    intro x
    apply Bool.eq_iff_iff.mpr
    rw [any_eq_mem, any_eq_mem]
    exact h.mem_iff
  simp [lineStatus, e]

/-- Repeating a line / an alternative does not change the aggregate. -/
theorem C02_body_dup (x : Status) (l : List Status) (h : x ∈ l) : bodyStatus (x :: l) = bodyStatus l := by
  have e : ∀ y, ((x :: l).any (· == y)) = (l.any (· == y)) := by
    intro y
    apply Bool.eq_iff_iff.mpr
    rw [any_eq_mem, any_eq_mem]
    constructor
    · intro hy; rcases List.mem_cons.mp hy with rfl | h'
      · exact h
      · exact h'
    · intro hy; exact List.mem_cons_of_mem _ hy
  simp only [bodyStatus, e]

/-- The `Consistent` predicate is not vacuous: a hand-written two-rule tree satisfies it, and
    flipping one composite status breaks it. -/
example : Consistent (.node (.fileCheck .fail) [
    .node (.ruleCheck "a".toList .pass none) [.node (.guardClauseBlockCheck .pass) [.node (.clauseValueCheck .success) []]],
    .node (.ruleCheck "b".toList .fail none) [.node (.disjunction .fail) [
      .node (.guardClauseBlockCheck .skip) [],
      .node (.guardClauseBlockCheck .fail) [.node (.clauseValueCheck (.noValueForEmptyCheck none)) []]]]]) = true := by
  decide
example : Consistent (.node (.fileCheck .pass) [
    .node (.ruleCheck "b".toList .fail none) [.node (.guardClauseBlockCheck .fail) [.node (.clauseValueCheck (.noValueForEmptyCheck none)) []]]]) = false := by
  decide

end Guard.C02
