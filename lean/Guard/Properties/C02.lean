import Guard.Judge.C02
import Guard.Lemmas.Records
import Guard.Lemmas.RecExt
import Guard.Lemmas.ConsEval
/-
  C02 — every composite status follows from its parts.
  The evaluator model computes every composite status through the five aggregators below
  (`lineStatus`, `bodyStatus`, `someStatus`, `clauseStatus`, `namedStatus`); these theorems
  characterise them for lists of EVERY length (the property's 3ⁿ child-status vectors at all sites).
  `Consistent` (Guard/Judge/C02.lean) is the same statement as a decidable predicate on record
  trees; it is run on the implementation's tree by the check.
-/
set_option linter.unusedSimpArgs false
namespace Guard.C02
open Guard

theorem any_eq_mem (sts : List Status) (x : Status) : sts.any (· == x) = true ↔ x ∈ sts := by
  rw [List.any_eq_true]
  constructor
  · rintro ⟨y, hy, he⟩; rw [beq_iff_eq] at he; exact he ▸ hy
  · intro h; exact ⟨x, h, by simp⟩

/-- A line of `or`-joined alternatives: PASS iff one alternative passed; FAIL iff none passed
    and one failed; else SKIP. -/
theorem C02_line (sts : List Status) :
    (lineStatus sts = .pass ↔ Status.pass ∈ sts) ∧
    (lineStatus sts = .fail ↔ Status.pass ∉ sts ∧ Status.fail ∈ sts) ∧
    (lineStatus sts = .skip ↔ Status.pass ∉ sts ∧ Status.fail ∉ sts) := by
  unfold lineStatus
  by_cases hp : sts.any (· == Status.pass) = true
  · have := (any_eq_mem sts .pass).mp hp
    simp [hp, this]
  · have hp' : Status.pass ∉ sts := fun h => hp ((any_eq_mem sts .pass).mpr h)
    by_cases hf : sts.any (· == Status.fail) = true
    · have := (any_eq_mem sts .fail).mp hf
      simp [hp, hf, hp', this]
    · have hf' : Status.fail ∉ sts := fun h => hf ((any_eq_mem sts .fail).mpr h)
      simp [hp, hf, hp', hf']

/-- A block / rule body / `when` body / filter body / the file over its rules / a type block over
    its values: FAIL iff one line failed; PASS iff none failed and one passed; else SKIP. -/
theorem C02_body (lines : List Status) :
    (bodyStatus lines = .fail ↔ Status.fail ∈ lines) ∧
    (bodyStatus lines = .pass ↔ Status.fail ∉ lines ∧ Status.pass ∈ lines) ∧
    (bodyStatus lines = .skip ↔ Status.fail ∉ lines ∧ Status.pass ∉ lines) := by
  unfold bodyStatus
  by_cases hf : lines.any (· == Status.fail) = true
  · have := (any_eq_mem lines .fail).mp hf
    simp [hf, this]
  · have hf' : Status.fail ∉ lines := fun h => hf ((any_eq_mem lines .fail).mpr h)
    by_cases hp : lines.any (· == Status.pass) = true
    · have := (any_eq_mem lines .pass).mp hp
      simp [hp, hf, hf', this]
    · have hp' : Status.pass ∉ lines := fun h => hp ((any_eq_mem lines .pass).mpr h)
      simp [hp, hf, hp', hf']

/-- `some` query block over its values: PASS iff one value passed; FAIL iff none passed and one
    failed; else SKIP. -/
theorem C02_some_block (vals : List Status) :
    (someStatus vals = .pass ↔ Status.pass ∈ vals) ∧
    (someStatus vals = .fail ↔ Status.pass ∉ vals ∧ Status.fail ∈ vals) ∧
    (someStatus vals = .skip ↔ Status.pass ∉ vals ∧ Status.fail ∉ vals) :=
  C02_line vals

/-- The file status is the body aggregation over the rule statuses (same function, same law). -/
theorem C02_file (rules : List Status) :
    (bodyStatus rules = .fail ↔ Status.fail ∈ rules) ∧
    (bodyStatus rules = .pass ↔ Status.fail ∉ rules ∧ Status.pass ∈ rules) ∧
    (bodyStatus rules = .skip ↔ Status.fail ∉ rules ∧ Status.pass ∉ rules) :=
  C02_body rules

/-- A clause over its per-value checks: under `all`, FAIL iff a value check failed (PASS otherwise,
    also for zero checks); under `some`, PASS iff a value check passed. Never SKIP. -/
theorem C02_clause (all : Bool) (results : List Bool) :
    (clauseStatus true results = .fail ↔ false ∈ results) ∧
    (clauseStatus true results = .pass ↔ false ∉ results) ∧
    (clauseStatus false results = .pass ↔ true ∈ results) ∧
    (clauseStatus false results = .fail ↔ true ∉ results) ∧
    clauseStatus all results ≠ .skip := by
  have hmem : ∀ (b : Bool), results.any (· == b) = true ↔ b ∈ results := by
    intro b
    rw [List.any_eq_true]
    constructor
    · rintro ⟨y, hy, he⟩; rw [beq_iff_eq] at he; exact he ▸ hy
    · intro h; exact ⟨b, h, by simp⟩
  refine ⟨?_, ?_, ?_, ?_, ?_⟩
  all_goals (simp only [clauseStatus])
  · by_cases h : results.any (· == false) = true
    · simp [h, (hmem false).mp h]
    · simp [h, fun hh => h ((hmem false).mpr hh)]
  · by_cases h : results.any (· == false) = true
    · simp [h, (hmem false).mp h]
    · simp [h, fun hh => h ((hmem false).mpr hh)]
  · by_cases h : results.any (· == true) = true
    · simp [h, (hmem true).mp h]
    · simp [h, fun hh => h ((hmem true).mpr hh)]
  · by_cases h : results.any (· == true) = true
    · simp [h, (hmem true).mp h]
    · simp [h, fun hh => h ((hmem true).mpr hh)]
  · cases all <;> simp <;> split <;> simp

/-- A clause naming another rule is PASS iff that rule is PASS (FAIL otherwise), inverted under
    `not`; it is never SKIP. -/
theorem C02_named (neg : Bool) (s : Status) :
    (namedStatus false s = .pass ↔ s = .pass) ∧ (namedStatus false s = .fail ↔ s ≠ .pass) ∧
    (namedStatus true s = .pass ↔ s ≠ .pass) ∧ (namedStatus true s = .fail ↔ s = .pass) ∧
    namedStatus neg s ≠ .skip := by
  cases s <;> cases neg <;> simp [namedStatus]

/-- Permutation invariance of the aggregators (used by C04): the status of a body does not
    depend on the order of its lines, nor that of a line on the order of its alternatives. -/
theorem C02_body_perm {l₁ l₂ : List Status} (h : l₁.Perm l₂) : bodyStatus l₁ = bodyStatus l₂ := by
  have e : ∀ x, (l₁.any (· == x)) = (l₂.any (· == x)) := by
    intro x
    apply Bool.eq_iff_iff.mpr
    rw [any_eq_mem, any_eq_mem]
    exact h.mem_iff
  simp [bodyStatus, e]

theorem C02_line_perm {l₁ l₂ : List Status} (h : l₁.Perm l₂) : lineStatus l₁ = lineStatus l₂ := by
  have e : ∀ x, (l₁.any (· == x)) = (l₂.any (· == x)) := by
    intro x
    apply Bool.eq_iff_iff.mpr
    rw [any_eq_mem, any_eq_mem]
    exact h.mem_iff
  simp [lineStatus, e]

/-- Repeating a line / an alternative does not change the aggregate. -/
theorem C02_body_dup (x : Status) (l : List Status) (h : x ∈ l) : bodyStatus (x :: l) = bodyStatus l := by
  have e : ∀ y, ((x :: l).any (· == y)) = (l.any (· == y)) := by
    intro y
    apply Bool.eq_iff_iff.mpr
    rw [any_eq_mem, any_eq_mem]
    constructor
    · intro hy; rcases List.mem_cons.mp hy with rfl | h'
      · exact h
      · exact h'
    · intro hy; exact List.mem_cons_of_mem _ hy
  simp only [bodyStatus, e]

/-- The `Consistent` predicate is not vacuous: a hand-written two-rule tree satisfies it, and
    flipping one composite status breaks it. -/
example : Consistent (.node (.fileCheck .fail) [
    .node (.ruleCheck "a".toList .pass none) [.node (.guardClauseBlockCheck .pass) [.node (.clauseValueCheck .success) []]],
    .node (.ruleCheck "b".toList .fail none) [.node (.disjunction .fail) [
      .node (.guardClauseBlockCheck .skip) [],
      .node (.guardClauseBlockCheck .fail) [.node (.clauseValueCheck (.noValueForEmptyCheck none)) []]]]]) = true := by
  decide
example : Consistent (.node (.fileCheck .pass) [
    .node (.ruleCheck "b".toList .fail none) [.node (.guardClauseBlockCheck .fail) [.node (.clauseValueCheck (.noValueForEmptyCheck none)) []]]]) = false := by
  decide

/-- **the root of the tree is the verdict**: whenever a (rules file, document) evaluation succeeds, the record tree
    it returns is a `FileCheck` that carries exactly the returned status, that status is the aggregation of the
    statuses of the file's rules, and the root's children are — in file order — one `RuleCheck` per rule carrying
    the status that rule's evaluation returned.  For every program, document, environment and fuel. -/
theorem C02_root_is_verdict (env : Env) (fuel : Nat) (file : RulesFile) (doc : PV) (s : Status) (t : Rec)
    (h : runFile env fuel file doc = .ok (s, t)) :
    t.kind = .fileCheck s ∧
    ∃ sts : List Status, sts.length = file.rules.length ∧ s = bodyStatus sts ∧
      t.children.map Rec.kind = (file.rules.zip sts).map fun p => RecKind.ruleCheck p.1.name p.2 none := by
  obtain ⟨sts, hl, hs, hk, hc⟩ := runFile_top env fuel file doc s t h
  exact ⟨hk, sts, hl, hs, hc⟩

/-- records are well nested at the top: a whole-file evaluation leaves exactly one open record (the root) -/
theorem C02_one_root (env : Env) (fuel : Nat) (file : RulesFile) (doc : PV) (s : Status) (st : St)
    (h : evalRulesFile env fuel file (St.init file doc) = .ok (s, st)) : ∃ r, st.recs = [r] :=
  runFile_never_panics_on_records env fuel file doc s st h

/-- **recorder discipline** (the `start_record` / `end_record` stack of the Rust recorder): evaluating a clause
    never drops, reorders or rewrites a record of its caller; its own records sit on top.  Holds for all 17
    functions of the evaluator (`allRx`), every program, state and fuel. -/
theorem C02_records_only_added (env : Env) (fuel : Nat) (c : Clause) (st st' : St) (s : Status)
    (h : evalClause env fuel c st = .ok (s, st')) : ∃ new, st'.recs = new ++ st.recs :=
  (allRx env fuel).clause c st s st' h

/-- a composite record carries the status its evaluation returned: rules … -/
theorem C02_rule_record_status (env : Env) (fuel : Nat) (r : Rule) (st st' : St) (s : Status)
    (h : evalRule env fuel r st = .ok (s, st')) : ∃ ch, st'.recs = Rec.node (.ruleCheck r.name s none) ch :: st.recs :=
  evalRule_record env fuel r st st' s h

/-- **C02 at full strength, for the evaluator itself**: for EVERY rules file, document, environment and fuel,
    whenever the evaluation completes, the record tree it returns is `Consistent` — at every composite record
    (file, rule, condition, type check and type block, `when` block, block clause, disjunction, filter, access
    clause, named-rule reference) the recorded status is explained, through the documented aggregation, by the
    records below it.  `Consistent` is the very predicate the driver runs as judge on the implementation's
    trees, so this is "the judge can never fire on the model", by induction over the 17 mutually recursive
    functions of the evaluator (`allInv`). -/
theorem C02_tree_consistent (env : Env) (fuel : Nat) (file : RulesFile) (doc : PV) (s : Status) (t : Rec)
    (h : runFile env fuel file doc = .ok (s, t)) : Consistent t = true :=
  runFile_consistent env fuel file doc s t h

/-- … and the same for every clause wherever it is evaluated: what a clause pushes is one line record that
    carries (a reading of) the status the clause returned, on top of consistent subtrees only -/
theorem C02_clause_records_consistent (env : Env) (fuel : Nat) (c : Clause) (st st' : St) (s : Status)
    (h : evalClause env fuel c st = .ok (s, st')) :
    ∃ ps, st'.recs = ps.reverse ++ st.recs ∧ ConsistentList ps = true ∧
      ∃ L, lineRecs ps = [L] ∧ s ∈ lineOptions L := by
  obtain ⟨ps, e, c', L, hl, hs, _⟩ := (allInv env fuel).clause c st s st' h
  exact ⟨ps, e, c', L, hl, hs⟩

end Guard.C02
