import Guard.Model.Eval
/-
  Guard.Judge.C02 — `Consistent`: the decidable predicate "every composite record is explained
  by its children", by recursion over the record tree.  It is used by the C02 theorems and, through
  the driver, as the judge run on the IMPLEMENTATION's own record tree.
  It reads the tree only (no AST): where the tree does not carry the information (`some` vs
  all, prefix negation of a named/parameterised reference) every reading the evaluator can
  produce is accepted; those dimensions are covered by C01/C03 and the correspondence.
-/
namespace Guard

def RecKind.isFilter : RecKind → Bool | .filter _ => true | _ => false

/-- status a record contributes when it stands for one clause (alternative) of a line -/
def Rec.status : Rec → Status
  | .node k _ => (k.status?).getD .skip

/-- children that stand for clauses/lines: everything except `Filter` records (those are emitted
    by query evaluation and explain selections, not statuses) -/
def lineRecs (ch : List Rec) : List Rec := ch.filter fun r => !r.kind.isFilter

def isCond : RecKind → Bool
  | .ruleCondition _ | .whenCondition _ | .typeCondition _ => true
  | _ => false

def isValueCheck : Rec → Bool
  | .node (.clauseValueCheck _) _ => true
  | _ => false

/-- alternatives before the last one are never PASS (evaluation stops at the first PASS) -/
def stopsAtFirstPass : List Status → Bool
  | [] => true
  | [_] => true
  | s :: rest => s != .pass && stopsAtFirstPass rest

/-- first non-SKIP status, else SKIP (`rule_status` over several definitions of one name) -/
def firstNonSkipStatus : List Status → Status
  | [] => .skip
  | s :: rest => if s != .skip then s else firstNonSkipStatus rest

/-- the statuses a line record can contribute: its own status, except that the record of a
    parameterised rule call (`RuleCheck` below anything but the file) may stand for a negated
    call `not f(x)`, whose clause status is the inversion of the recorded rule status -/
def lineOptions (r : Rec) : List Status :=
  match r.kind with
  | .ruleCheck _ s _ => [s, match s with | .pass => .fail | _ => .pass]
  | k => [(k.status?).getD .skip]

/-- all ways of choosing one status per line -/
def choices : List (List Status) → List (List Status)
  | [] => [[]]
  | opts :: rest => (choices rest).flatMap fun tl => opts.map fun s => s :: tl

/-- `s` is what `agg` yields for some admissible reading of the line records -/
def aggOk (agg : List Status → Status) (s : Status) (lines : List Rec) : Bool :=
  (choices (lines.map lineOptions)).any fun sts => s == agg sts

/-- local consistency of one node given its children -/
def nodeOk (k : RecKind) (ch : List Rec) : Bool :=
  let lines := lineRecs ch
  let sts := lines.map Rec.status
  match k with
  | .fileCheck s => lines.all (fun r => match r.kind with | .ruleCheck .. => true | _ => false) && s == bodyStatus sts
  | .ruleCheck _ s _ =>
    match lines with
    | .node (.ruleCondition c) _ :: rest =>
      if c != .pass then s == .skip && rest.isEmpty else aggOk bodyStatus s rest
    | _ => aggOk bodyStatus s lines
  | .whenCheck s =>
    match lines with
    | .node (.whenCondition c) _ :: rest =>
      if c != .pass then s == .skip && rest.isEmpty else aggOk bodyStatus s rest
    | _ => false
  | .typeCheck _ s =>
    let body (rs : List Rec) : Bool :=
      rs.all (fun r => match r.kind with | .typeBlock _ => true | _ => false) && s == bodyStatus (rs.map Rec.status)
    match lines with
    | .node (.typeCondition c) _ :: rest => if c != .pass then s == .skip && rest.isEmpty else body rest
    | _ => body lines
  | .ruleCondition s | .whenCondition s | .typeCondition s | .typeBlock s | .filter s => aggOk bodyStatus s lines
  | .disjunction s =>
    !lines.isEmpty && (choices (lines.map lineOptions)).any fun sts => s == lineStatus sts && stopsAtFirstPass sts
  | .blockGuardCheck s =>
    -- values are unresolved (a FAIL `MissingBlockValue` leaf) or a chunk of the block's lines
    if lines.isEmpty then s == .skip || s == .fail
    else
      (choices (lines.map lineOptions)).any fun sts =>
        -- `all`: FAIL iff something FAILed, PASS iff nothing FAILed and something PASSed;
        -- `some`: PASS needs a PASS line, FAIL needs a FAIL line, SKIP needs a value that did not PASS
        (s == bodyStatus sts) ||
        (s == .pass && sts.any (· == .pass)) || (s == .fail && sts.any (· == .fail)) ||
        (s == .skip && !(sts.all (· == .pass)))
  | .guardClauseBlockCheck s =>
    -- besides `Filter` records (they explain the selection only) the children of an access clause are
    -- value checks, one per compared value, and the clause status is their `all` / `some` aggregation
    let vals := (ch.filter isValueCheck).map Rec.status
    lines.all isValueCheck &&
    (if vals.isEmpty then true
     else s == clauseStatus true (vals.map (· == .pass)) || s == clauseStatus false (vals.map (· == .pass)))
  | .clauseValueCheck c =>
    match c with
    | .success | .dependentRule _ _ =>
      -- a named-rule reference: when the referenced rule was evaluated here its records are the
      -- children; the clause is Success iff the rule's status is PASS, or the reverse under `not`
      lines.all (fun r => match r.kind with | .ruleCheck .. => true | _ => false)
    | _ => lines.isEmpty

mutual
def Consistent : Rec → Bool
  | .node k ch => nodeOk k ch && ConsistentList ch
def ConsistentList : List Rec → Bool
  | [] => true
  | r :: rs => Consistent r && ConsistentList rs
end

-- number of nodes, for reporting
mutual
def Rec.size : Rec → Nat
  | .node _ ch => 1 + Rec.sizeList ch
def Rec.sizeList : List Rec → Nat
  | [] => 0
  | r :: rs => r.size + Rec.sizeList rs
end

end Guard
