import Guard.Model.Ast
/-
  Guard.Spec.Spec — a declarative reading of the DOCUMENTED semantics of the core language
  (docs/CLAUSES.md, QUERY_AND_FILTERING.md, CONTEXTAWARE_EVALUATIONS_AND_LOOPS.md,
  QUERY_PROJECTION_AND_INTERPOLATION.md, COMPLEX_COMPOSITION.md, README FAQ 5 — the sentences are
  listed in DESIGN.md Appendix E).  Written without looking at caches, records or the
  `Compare::{Value,QueryIn,ListIn,ValueIn}` bookkeeping of the implementation.

  It is executable: the C01 judge runs it on every generated case and compares its verdict with
  the IMPLEMENTATION's.  Constructs outside the documented core fragment yield `outside`
  (the case is then not judged by C01).
-/
namespace Guard.Spec
open Guard

/-- a query result: a value, or a retrieval error ("missing") -/
inductive R where
  | val (v : PV)
  | missing
  deriving Inhabited

/-- outcome of the specification -/
inductive SR (α : Type) where
  | ok (a : α)
  | undefined        -- the documented semantics is undefined here: an evaluation error is expected
  | outside          -- construct outside the documented core fragment: no claim
  | fuel
  deriving Inhabited

instance : Monad SR where
  pure := .ok
  bind x f := match x with
    | .ok a => f a
    | .undefined => .undefined
    | .outside => .outside
    | .fuel => .fuel

def mapM' {α β} (f : α → SR β) : List α → SR (List β)
  | [] => .ok []
  | x :: xs => do let y ← f x; let ys ← mapM' f xs; pure (y :: ys)

/-- a scope: the `let`s visible in it and the value they are evaluated against -/
structure Frame where
  lets : List LetExpr
  root : PV

structure Ctx where
  env : Env
  file : RulesFile
  frames : List Frame      -- innermost first
  rulesInProgress : List Str := []
  varsInProgress : List (Str × Nat) := []     -- (name, depth of the defining scope)

/-! ### values -/

inductive Kind | null | str | bool | int | float | list | map | other
  deriving DecidableEq

def kindOf : PV → Kind
  | .null _ => .null | .str _ _ => .str | .bool _ _ => .bool | .int _ _ => .int
  | .float _ _ => .float | .list _ _ => .list | .map _ _ _ => .map | _ => .other

/-- three-way comparison of two scalars of the same ordered type, if defined -/
def order (a b : PV) : Option Ordering :=
  match a, b with
  | .int _ i, .int _ j => some (compare i j)
  | .float _ x, .float _ y => if x.isNaN || y.isNaN then none else some (compare x.key y.key)
  | .str _ s, .str _ t => some (Str.cmp s t)
  | .null _, .null _ => some .eq      -- reading: null is comparable with (and equal to) null only
  | _, _ => none

mutual
/-- structural equality of documents/literals: maps by key set, lists in order; `none` when the
    two values are of types that cannot be compared (the comparison is then false for `==` AND `!=`) -/
def equal (env : Env) : PV → PV → Option Bool
  | .null _, .null _ => some true
  | .bool _ a, .bool _ b => some (a == b)
  | .int _ a, .int _ b => some (a == b)
  | .float _ a, .float _ b => if a.isNaN || b.isNaN then none else some (a.key == b.key)
  | .str _ a, .str _ b => some (a == b)
  | .str _ s, .regex _ re => (match env.regex re s with | .isMatch b => some b | _ => none)
  | .int _ x, .rangeInt _ lo hi incl => some (isWithinKey lo hi x incl)
  | .float _ x, .rangeFloat _ lo hi incl => some (isWithinF64 lo hi x incl)
  | .list _ xs, .list _ ys => if xs.length == ys.length then equalList env xs ys else some false
  | .map _ ks vs, .map _ ks2 vs2 => if vs.length == vs2.length then equalMap env ks vs ks2 vs2 else some false
  | _, _ => none
def equalList (env : Env) : List PV → List PV → Option Bool
  | x :: xs, y :: ys =>
    match equal env x y with
    | some true => equalList env xs ys
    | r => r
  | _, _ => some true
def equalMap (env : Env) : List (Path × Str) → List PV → List (Path × Str) → List PV → Option Bool
  | (_, k) :: ks, v :: vs, ks2, vs2 =>
    match PV.lookupKV ks2 vs2 k with
    | some v2 =>
      match equal env v v2 with
      | some true => equalMap env ks vs ks2 vs2
      | r => r
    | none => some false
  | _, _, _, _ => some true
end

def isIntLike (s : Str) : Bool :=
  let d := match s with | '-' :: r => r | '+' :: r => r | r => r
  !d.isEmpty && d.all Char.isDigit

/-! ### one comparison of one value against one literal: a list of checks -/

/-- polarity-aware result of one check: incomparable values fail under BOTH polarities -/
def chk (negated : Bool) (r : Option Bool) : Bool :=
  match r with
  | some b => b != negated
  | none => false

def flat1 : PV → List PV
  | .list _ xs => xs
  | v => [v]

/-- `x OP lit` (KNOWN_ISSUES item 2, README FAQ 5): the individual checks this comparison makes -/
def binaryChecks (env : Env) (op : CmpOp) (negated : Bool) (x lit : PV) : SR (List Bool) :=
  match op with
  | .eq =>
    match lit with
    | .list _ ys =>
      if x.isScalar && ys.length == 1 then
        match ys with
        | [y] => .ok [chk negated (equal env x y)]
        | _ => .ok []
      else .ok [chk negated (equal env x lit)]
    | _ =>
      match x with
      | .list _ xs => .ok (xs.map fun e => chk negated (equal env e lit))     -- "every element"
      | _ => .ok [chk negated (equal env x lit)]
  | .lt | .le | .gt | .ge =>
    let test (o : Ordering) : Bool :=
      match op with
      | .lt => o == .lt | .le => o != .gt | .gt => o == .gt | _ => o != .lt
    .ok ((flat1 x).flatMap fun a => (flat1 lit).map fun b => chk negated ((order a b).map test))
  | .in_ =>
    match lit with
    | .str _ hay =>
      -- substring test against a string literal
      .ok ((flat1 x).map fun a => match a with
        | .str _ needle => chk negated (some (Str.contains' hay needle))
        | _ => false)
    | .list _ ys =>
      let member (a : PV) : Bool := ys.any fun y => equal env a y == some true
      match x with
      | .list _ xs =>
        if (match ys with | y :: _ => y.isList | [] => false) then
          .ok [chk negated (some (member x))]          -- a list of lists: the value itself is a member
        else if negated then
          -- `not in`: no element may be a member (an empty list has nothing to show: not satisfied)
          .ok [!xs.isEmpty && xs.all fun a => !member a]
        else .ok [xs.all member]                     -- `in`: every element is a member
      | _ => .ok [chk negated (some (member x))]
    | _ =>
      match x with
      | .list _ _ => .ok [false]
      | _ => .ok [chk negated (equal env x lit)]          -- range / scalar literal
  | _ => .outside

/-- unary operators on one query result (CLAUSES "empty and exists", "is_string …") -/
def unaryHolds (op : CmpOp) (r : R) : SR Bool :=
  match op, r with
  | .exists_, .val _ => .ok true
  | .exists_, .missing => .ok false
  | .empty, .missing => .ok true
  | .empty, .val v =>
    match v with
    | .str _ s => .ok s.isEmpty
    | .list _ xs => .ok xs.isEmpty
    | .map _ _ vs => .ok vs.isEmpty
    | .bool _ _ => .ok false
    | _ => .undefined               -- `empty` on a number / null: an evaluation error
  | .isString, .val (.str _ _) => .ok true
  | .isList, .val (.list _ _) => .ok true
  | .isMap, .val (.map _ _ _) => .ok true
  | .isBool, .val (.bool _ _) => .ok true
  | .isInt, .val (.int _ _) => .ok true
  | .isFloat, .val (.float _ _) => .ok true
  | .isNull, .val (.null _) => .ok true
  | .isString, _ | .isList, _ | .isMap, _ | .isBool, _ | .isInt, _ | .isFloat, _ | .isNull, _ => .ok false
  | _, _ => .outside

def quant (all : Bool) (checks : List Bool) : Status :=
  if all then (if checks.all id then .pass else .fail)
  else (if checks.any id then .pass else .fail)

def fold3 (sts : List Status) : Status :=
  if sts.contains .fail then .fail else if sts.contains .pass then .pass else .skip

def findLet (name : Str) : List LetExpr → Option LetValue
  | [] => none
  | l :: rest => match findLet name rest with     -- single assignment; a later duplicate wins
    | some v => some v
    | none => if l.var = name then some l.value else none

/-- is `name` bound (in the nearest scope that binds it) to a LIST literal?  The documentation does not say
    how a literal list on the left-hand side is compared with a literal (as one value, or member by member). -/
def literalListVar (name : Str) : List Frame → Bool
  | [] => false
  | f :: outer =>
    match findLet name f.lets with
    | some (.value (.list _ _)) => true
    | some _ => false
    | none => literalListVar name outer

/-- variables are single-assignment: a scope that assigns one name twice is outside the fragment -/
def dupLets : List LetExpr → Bool
  | [] => false
  | l :: rest => rest.any (fun l' => l'.var = l.var) || dupLets rest

mutual

/-- the result set of a query (QUERY_AND_FILTERING "All queries return a list of values …") -/
def sel (fuel : Nat) (c : Ctx) (prev : Option QueryPart) (cur : PV) : List QueryPart → SR (List R)
  | [] => .ok [.val cur]
  | part :: rest =>
    match fuel with
    | 0 => .fuel
    | fuel + 1 =>
    match part with
    | .this => sel fuel c prev cur rest
    | .key k =>
      if (QueryPart.key k).isVariable then .outside          -- `a.%v.b` interpolation: not in the core
      else if isIntLike k then .outside                      -- numeric-looking keys: undocumented
      else
        match cur with
        | .map _ ks vs =>
          match PV.lookupKV ks vs k with
          | some v => sel fuel c (some part) v rest
          | none =>
            -- the implementation retries under case conversions; the documentation does not
            if (List.range 7).any fun i => (PV.lookupKV ks vs (c.env.caseConv i k)).isSome then .outside
            else .ok [.missing]
        | _ => .ok [.missing]
    | .index i =>
      if i < 0 then .outside
      else match cur with
        | .list _ xs => match xs[i.toNat]? with
          | some v => sel fuel c (some part) v rest
          | none => .ok [.missing]
        | _ => .ok [.missing]
    | .allValues none =>
      match cur with
      | .map _ _ vs => if vs.isEmpty then .ok [.missing] else do
          let rows ← mapM' (fun v => sel fuel c (some part) v rest) vs
          pure rows.flatten
      | .list _ xs => if xs.isEmpty then .ok [.missing] else do
          let rows ← mapM' (fun v => sel fuel c (some part) v rest) xs
          pure rows.flatten
      | _ => sel fuel c (some part) cur rest
    | .allIndices none =>
      match cur with
      | .list _ xs => if xs.isEmpty then .ok [.missing] else do
          let rows ← mapM' (fun v => sel fuel c (some part) v rest) xs
          pure rows.flatten
      | _ => sel fuel c (some part) cur rest        -- "to be or not to be an array"
    | .filter none cnfF =>
      -- candidates: the elements of a list; the values of a struct reached by its key;
      -- otherwise the single value selected so far
      let cands : Option (List PV) := match cur with
        | .list _ xs => some xs
        | .map _ _ vs => (match prev with | some (.key _) => some vs | _ => some [cur])
        | _ => (match prev with | some (.allIndices _) => some [cur] | _ => none)
      match cands with
      | none => .ok [.missing]
      | some cs => do
        let rows ← mapM' (fun e => do
          let s ← cnf fuel { c with frames := { lets := [], root := e } :: c.frames } cnfF
          if s == .pass then sel fuel c (some part) e rest else pure []) cs
        pure rows.flatten
    | _ => .outside     -- named captures, `keys` filters

/-- a query from the current scope's value; a leading `%v` ranges over the variable's result set -/
def query (fuel : Nat) (c : Ctx) (q : List QueryPart) : SR (List R) :=
  match fuel with
  | 0 => .fuel
  | fuel + 1 =>
  match c.frames with
  | [] => .outside
  | f :: _ =>
    match q with
    | part :: rest =>
      match part.variable with
      | some name => do
        let rs ← varValue fuel c name
        -- the parser writes `[*]` after a variable head; the members of the set are its elements already
        let rest' := match rest with | .allIndices none :: r => r | r => r
        let rows ← mapM' (fun r => match r with
          | R.missing => pure [R.missing]
          | R.val v => sel fuel c (some (.allIndices none)) v rest') rs   -- each member on its own
        pure rows.flatten
      | none => sel fuel c none f.root q
    | [] => .outside

/-- a variable is its right-hand side evaluated in the scope where it is defined -/
def varValue (fuel : Nat) (c : Ctx) (name : Str) : SR (List R) :=
  match fuel with
  | 0 => .fuel
  | fuel + 1 =>
  match c.frames with
  | [] => .undefined                       -- no such variable: evaluation error
  | f :: outer =>
    match findLet name f.lets with
    | some (.value v) => .ok [.val v]
    | some (.access q all) =>
      -- a variable defined in terms of itself has no meaning
      if c.varsInProgress.contains (name, outer.length) then .undefined else do
      let rs ← query fuel { c with varsInProgress := (name, outer.length) :: c.varsInProgress } q
      pure (if all then rs else rs.filter fun r => match r with | .val _ => true | .missing => false)
    | some (.func _ _) => .outside
    | none => varValue fuel { c with frames := outer } name

def clause (fuel : Nat) (c : Ctx) : Clause → SR Status
  | cl =>
  match fuel with
  | 0 => .fuel
  | fuel + 1 =>
  match cl with
  | .access neg q all op opNot withV _ => do
    let results ← query fuel c q
    let negated := opNot != neg
    if op.isUnary then
      let onSet := match q.getLast? with
        | some (.filter _ _) => true
        | some p => p.isVariable && q.length == 1
        | none => false
      if onSet && op == .empty then
        -- emptiness of a result SET (QUERY_AND_FILTERING "when %ec2_volumes !empty")
        if results.isEmpty then pure (if (true != negated) then .pass else .fail)
        else
          let checks := results.map fun r => (match r with
            | .val v => v.isNull
            | .missing => true) != negated
          pure (quant all checks)
      else if results.isEmpty then pure .skip
      else do
        let checks ← mapM' (fun r => do let b ← unaryHolds op r; pure (b != negated)) results
        pure (quant all checks)
    else
      match withV with
      | some (.value lit) =>
        if (match q with
            | p :: rest => (match p.variable with | some name => literalListVar name c.frames | none => false) &&
                rest.all (fun x => match x with | .allIndices _ => true | _ => false)
            | _ => false) then .outside        -- literal list (`%x`, `%x[*]`) vs literal: not in the documented core
        else
        if results.isEmpty then pure .skip
        else do
          let rows ← mapM' (fun r => match r with
            | R.missing => pure [false]                       -- retrieval errors fail, both polarities
            | R.val x => binaryChecks c.env op negated x lit) results
          pure (quant all rows.flatten)
      | _ => .outside                                         -- query / function right-hand sides
  | .named rule neg _ => do
    let s ← namedRule fuel c rule
    pure (if (s == .pass) != neg then .pass else .fail)
  | .block q all notEmpty lets cnfB => if dupLets lets then .outside else do
    let results ← query fuel c q
    if results.isEmpty then pure (if notEmpty then .fail else .skip)
    else do
      let sts ← mapM' (fun r => match r with
        | R.missing => pure Status.fail
        | R.val v => cnf fuel { c with frames := { lets := lets, root := v } :: c.frames } cnfB) results
      pure (if all then fold3 sts
            else if sts.contains .pass then .pass else if sts.contains .fail then .fail else .skip)
  | .whenBlock conds lets cnfB => if dupLets lets then .outside else do
    let cs ← cnf fuel c conds
    if cs != .pass then pure .skip
    else match c.frames with
      | f :: _ => cnf fuel { c with frames := { lets := lets, root := f.root } :: c.frames } cnfB
      | [] => .outside
  | _ => .outside            -- parameterised calls, type blocks

/-- CNF: lines are conjunctions of `or`-joined alternatives; evaluation of a line stops at the
    first alternative that passes -/
def cnf (fuel : Nat) (c : Ctx) (lines : Cnf) : SR Status :=
  match fuel with
  | 0 => .fuel
  | fuel + 1 => do
    let sts ← mapM' (fun l => line fuel c l) lines
    pure (fold3 sts)

def line (fuel : Nat) (c : Ctx) : List Clause → SR Status
  | [] => .ok .skip
  | a :: rest =>
    match fuel with
    | 0 => .fuel
    | fuel + 1 => do
      let s ← clause fuel c a
      if s == .pass then pure .pass
      else do
        let r ← line fuel c rest
        pure (if r == .pass then .pass else if s == .fail || r == .fail then .fail else .skip)

/-- a rule name as a clause: the first definition that is not SKIP decides -/
def namedRule (fuel : Nat) (c : Ctx) (name : Str) : SR Status :=
  match fuel with
  | 0 => .fuel
  | fuel + 1 =>
    let defs := c.file.rules.filter fun r => r.name = name
    if defs.isEmpty then .undefined
    else if c.rulesInProgress.contains name then .undefined     -- a rule defined in terms of itself
    else
      let rootCtx := { c with frames := c.frames.drop (c.frames.length - 1),
                              rulesInProgress := name :: c.rulesInProgress }
      let rec go : List Rule → SR Status
        | [] => .ok .skip
        | r :: rs => do
          let s ← rule fuel rootCtx r
          if s != .skip then pure s else go rs
      go defs

def rule (fuel : Nat) (c : Ctx) (r : Rule) : SR Status :=
  match fuel with
  | 0 => .fuel
  | fuel + 1 =>
    if dupLets r.lets then .outside else
    match c.frames with
    | [] => .outside
    | f :: _ =>
      let body := cnf fuel { c with frames := { lets := r.lets, root := f.root } :: c.frames } r.cnf
      match r.conds with
      | some cs => do
        let s ← cnf fuel c cs
        if s != .pass then pure .skip else body
      | none => body

end

/-- verdict of the specification for a rules file on a document -/
def runFile (env : Env) (fuel : Nat) (file : RulesFile) (doc : PV) : SR (List (Str × Status) × Status) :=
  if !file.prules.isEmpty || dupLets file.lets then .outside else
  let c : Ctx := { env := env, file := file, frames := [{ lets := file.lets, root := doc }] }
  match mapM' (fun r => do let s ← rule fuel c r; pure (r.name, s)) file.rules with
  | .ok rs => .ok (rs, fold3 (rs.map (·.2)))
  | .undefined => .undefined
  | .outside => .outside
  | .fuel => .fuel

end Guard.Spec
