import Guard.Model.Value
/-
  Guard.Model.Merge — `PathAwareValue::merge` (path_value.rs:889-919) and the way `validate`
  folds input-parameter files into each data file (validate.rs:317-350, 718-722;
  reporters/validate/structured.rs:50-66).
-/
namespace Guard

def hasKey (ks : List (Path × Str)) (k : Str) : Bool := ks.any fun e => e.2 == k

/-- the `for (key, value) in other_map.values` loop -/
def mergeEntries (p2 : Path) : List (Path × Str) → List PV → List (Path × Str) → List PV →
    Outcome (List (Path × Str) × List PV)
  | ks, vs, (_, k) :: oks, v :: ovs =>
    if hasKey ks k then .err .MultipleValues
    else mergeEntries p2 (ks ++ [(p2.extendStr k, k)]) (vs ++ [v]) oks ovs
  | ks, vs, _, _ => .ok (ks, vs)

/-- `PathAwareValue::merge` -/
def PV.merge : PV → PV → Outcome PV
  | .list p xs, .list _ ys => .ok (.list p (xs ++ ys))
  | .map p ks vs, .map p2 oks ovs =>
    match mergeEntries p2 ks vs oks ovs with
    | .ok (ks', vs') => .ok (.map p ks' vs')
    | .err e => .err e
    | .panic s => .panic s
    | .outOfFuel => .outOfFuel
  | _, _ => .err .IncompatibleError

/-- input-parameter files are merged left to right (`primary_path_value`) -/
def mergeParams : List PV → Outcome (Option PV)
  | [] => .ok none
  | p :: ps =>
    let rec go (acc : PV) : List PV → Outcome PV
      | [] => .ok acc
      | q :: qs =>
        match acc.merge q with
        | .ok m => go m qs
        | e => e
    match go p ps with
    | .ok m => .ok (some m)
    | .err e => .err e
    | .panic s => .panic s
    | .outOfFuel => .outOfFuel

/-- the document a data file is evaluated as: parameters first, then the data file's own keys -/
def effectiveDoc (params : Option PV) (data : PV) : Outcome PV :=
  match params with
  | some p => p.merge data
  | none => .ok data

/-- what `validate -i P1 .. -i Pn -d D` evaluates the rules against: the parameter files folded left to right,
    then the data file's keys (validate.rs: the fold over `input_params`, then `merge` per data file) -/
def mergedDocument (params : List PV) (data : PV) : Outcome PV :=
  match mergeParams params with
  | .ok p => effectiveDoc p data
  | .err e => .err e
  | .panic s => .panic s
  | .outOfFuel => .outOfFuel

end Guard
