import Guard.Model.Compare
/-
  Guard.Model.Ast — the rule-file AST of exprs.rs (one constructor per Rust variant).
  `GuardClause`, `WhenGuardClause` and `RuleClause` are one type `Clause` (the parser only
  produces type blocks at rule level and only the first three variants in `when` conditions).
-/
namespace Guard

inductive CmpOp
  | eq | in_ | gt | lt | le | ge | exists_ | empty
  | isString | isList | isMap | isBool | isInt | isFloat | isNull
  deriving DecidableEq, Repr, Inhabited

/-- `CmpOperator::is_unary` (values.rs:42-55). -/
def CmpOp.isUnary : CmpOp → Bool
  | .eq | .in_ | .gt | .lt | .le | .ge => false
  | _ => true

inductive FunctionName
  | count | join | jsonParse | now | parseBoolean | parseChar | parseEpoch | parseFloat
  | parseInt | parseString | regexReplace | substring | toLower | toUpper | urlDecode
  deriving DecidableEq, Repr, Inhabited

mutual
inductive QueryPart where
  | this
  | key (k : Str)
  | mapKeyFilter (name : Option Str) (op : CmpOp) (opNot : Bool) (withV : LetValue)
  | allValues (name : Option Str)
  | allIndices (name : Option Str)
  | index (i : Int)
  | filter (name : Option Str) (cnf : List (List Clause))
inductive LetValue where
  | value (v : PV)
  | access (parts : List QueryPart) (all : Bool)
  | func (name : FunctionName) (params : List LetValue)
inductive LetExpr where
  | mk (var : Str) (value : LetValue)
inductive Clause where
  /-- `GuardAccessClause` -/
  | access (neg : Bool) (q : List QueryPart) (all : Bool) (op : CmpOp) (opNot : Bool)
      (withV : Option LetValue) (msg : Option Str)
  /-- `GuardNamedRuleClause` -/
  | named (rule : Str) (neg : Bool) (msg : Option Str)
  /-- `ParameterizedNamedRuleClause` -/
  | call (rule : Str) (neg : Bool) (msg : Option Str) (params : List LetValue)
  /-- `BlockGuardClause` -/
  | block (q : List QueryPart) (all : Bool) (notEmpty : Bool) (lets : List LetExpr)
      (cnf : List (List Clause))
  /-- `GuardClause::WhenBlock` / `RuleClause::WhenBlock` -/
  | whenBlock (conds : List (List Clause)) (lets : List LetExpr) (cnf : List (List Clause))
  /-- `RuleClause::TypeBlock` -/
  | typeBlock (name : Str) (conds : Option (List (List Clause))) (lets : List LetExpr)
      (cnf : List (List Clause)) (q : List QueryPart)
end

abbrev Cnf := List (List Clause)

instance : Inhabited QueryPart := ⟨.this⟩
instance : Inhabited LetValue := ⟨.access [] true⟩
instance : Inhabited Clause := ⟨.named [] false none⟩

def LetExpr.var : LetExpr → Str | .mk v _ => v
def LetExpr.value : LetExpr → LetValue | .mk _ v => v

/-- `QueryPart::is_variable` / `variable` (exprs.rs:76-94). -/
def QueryPart.variable : QueryPart → Option Str
  | .key ('%' :: rest) => some rest
  | _ => none
def QueryPart.isVariable (p : QueryPart) : Bool := p.variable.isSome

structure Rule where
  name : Str
  conds : Option Cnf
  lets : List LetExpr
  cnf : Cnf
  deriving Inhabited

structure ParamRule where
  params : List Str
  rule : Rule
  deriving Inhabited

structure RulesFile where
  lets : List LetExpr
  rules : List Rule
  prules : List ParamRule
  deriving Inhabited

end Guard
