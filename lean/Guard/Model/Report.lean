import Guard.Model.Eval
import Guard.Gen.Tables
/-
  Guard.Model.Report — the structured report built from the record tree:
  `report_all_failed_clauses_for_rules`, `simplified_json_from_root`, `FileReport::combine`
  (eval_context.rs:1608-2435) and `Status::and` (rules/mod.rs:122-133).
-/
namespace Guard

/-- `ClauseReport` (eval_context.rs:1790-1796), carrying the originating check for leaves -/
inductive CR where
  | rule (name : Str) (msg : Option Str) (checks : List CR)
  | block (src : Option ClauseCheck)            -- `GuardBlockReport`: empty block query / missing block value
  | disjunctions (checks : List CR)
  | clause (src : ClauseCheck)                  -- `GuardClauseReport` (unary / binary)
  deriving Inhabited

/-- does this failed check produce a report entry? (a `Comparison` whose `to` is absent does not) -/
def ClauseCheck.reported : ClauseCheck → Bool
  | .success => false
  | .comparison (.resolved _) none _ _ _ => false
  | .comparison (.literal _) _ _ _ _ => false
  | .comparison (.resolved _) (some (.literal _)) _ _ _ => false
  | _ => true

mutual
/-- `report_all_failed_clauses_for_rules` -/
def reportFailed : Rec → List CR
  | .node k ch =>
    match k with
    | .ruleCheck name .fail msg => [.rule name msg (reportFailedList ch)]
    | .blockGuardCheck .fail => if ch.isEmpty then [.block none] else reportFailedList ch
    | .disjunction .fail => [.disjunctions (reportFailedList ch)]
    | .guardClauseBlockCheck .fail | .typeBlock .fail | .typeCheck _ .fail | .whenCheck .fail =>
      reportFailedList ch
    | .clauseValueCheck c =>
      match c with
      | .missingBlockValue _ => [.block (some c)]
      | _ => if c.reported then [.clause c] else []
    | _ => []
def reportFailedList : List Rec → List CR
  | [] => []
  | r :: rs => reportFailed r ++ reportFailedList rs
end

structure FileReport where
  status : Status
  notCompliant : List CR
  notApplicable : List Str      -- a `BTreeSet` in the code: order and multiplicity are irrelevant
  compliant : List Str
  deriving Inhabited

def namesWith (st : Status) (ch : List Rec) : List Str :=
  ch.filterMap fun r => match r.kind with
    | .ruleCheck n s _ => if s == st then some n else none
    | _ => none

/-- `simplified_json_from_root` -/
def fileReport : Rec → Option FileReport
  | .node (.fileCheck s) ch =>
    some { status := s, notCompliant := reportFailedList ch,
           notApplicable := namesWith .skip ch, compliant := namesWith .pass ch }
  | _ => none

/-- `Status::and` (rules/mod.rs:122-133) -/
def Status.and : Status → Status → Status
  | .fail, _ => .fail
  | .pass, .fail => .fail
  | .pass, _ => .pass
  | .skip, s => s

/-- `FileReport::combine`; the initial report of `CommonStructuredReporter` is `Default` (status SKIP) -/
def FileReport.combine (a b : FileReport) : FileReport :=
  { status := a.status.and b.status, notCompliant := a.notCompliant ++ b.notCompliant,
    notApplicable := a.notApplicable ++ b.notApplicable, compliant := a.compliant ++ b.compliant }

def FileReport.empty : FileReport := { status := .skip, notCompliant := [], notApplicable := [], compliant := [] }

/-- names of the rules listed as not compliant -/
def CR.ruleName? : CR → Option Str
  | .rule n _ _ => some n
  | _ => none

end Guard
