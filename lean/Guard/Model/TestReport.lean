import Guard.Model.Eval
/-
  Guard.Model.TestReport — `cfn-guard test`: grouping of the rule records by name
  (`get_by_rules`, reporters/test/mod.rs:8-19), `get_status_result` (mod.rs:21-56) and the
  classification of a test case's rules (reporters/test/structured.rs:252-286, generic.rs:83-120).
-/
namespace Guard

/-- names in order of first occurrence -/
def firstOccurrences : List Str → List Str
  | [] => []
  | n :: rest => n :: (firstOccurrences rest).filter (· ≠ n)

/-- `get_by_rules`: statuses of the top-level rule records grouped by name, groups in order of
    first occurrence, statuses in record order (an `IndexMap` since fix 9675294) -/
def groupByName (l : List (Str × Status)) : List (Str × List Status) :=
  (firstOccurrences (l.map (·.1))).map fun n => (n, (l.filter (·.1 = n)).map (·.2))

/-- `get_status_result`: (`Some(expected)` iff the expectation is met, the statuses seen) -/
def getStatusResult (expected : Status) (sts : List Status) : Option Status × List Status :=
  let rec go (seen : List Status) (skipped : Nat) : List Status → Option Status × List Status
    | [] => if expected == .skip && skipped == sts.length then (some expected, seen) else (none, seen)
    | got :: rest =>
      if expected == .skip then go (seen ++ [got]) (if got == .skip then skipped + 1 else skipped) rest
      else if got == expected then (some expected, seen)
      else go (seen ++ [got]) skipped rest
  go [] 0 sts

inductive TestOutcome where
  | passed (name : Str) (evaluated : Status)
  | failed (name : Str) (expected : Status) (evaluated : List Status)
  | noExpectation (name : Str)
  deriving Inhabited

/-- classification of the rules of one test case -/
def classify (expectations : List (Str × Status)) (groups : List (Str × List Status)) : List TestOutcome :=
  groups.map fun (n, sts) =>
    match alLookup n expectations with
    | none => .noExpectation n
    | some exp =>
      match getStatusResult exp sts with
      | (some s, _) => .passed n s
      | (none, seen) => .failed n exp seen

def TestOutcome.isFailure : TestOutcome → Bool | .failed .. => true | _ => false
def TestOutcome.name : TestOutcome → Str
  | .passed n _ | .failed n _ _ | .noExpectation n => n

end Guard
