import Guard.Model.Ops
import Guard.Model.Functions
/-
  Guard.Model.Eval — the evaluator: query retrieval (eval_context.rs:119-924), scopes and
  variable resolution (eval_context.rs:926-998, 1062-1177, 1482-1606, eval.rs:1504-1572), the
  clause/block/rule/file evaluators and the record tree (eval.rs:10-2065).

  Shape of the model
  * All mutually recursive functions take `fuel` first and recurse structurally on it
    (`outOfFuel` = the Rust stack would have been exhausted).
  * State `St`: the scope chain as a list of frames (innermost first; the last frame is the
    root scope), the memoised rule statuses, the rules in progress, and the children of the
    record that is currently open.  Records are built as a tree (`Rec`); `withRec` is the
    `start_record … end_record` pair.
  * A Rust `Err` aborts everything (`?`), so records emitted on error paths are not modelled.
-/
namespace Guard

/-! ### Records (rules/mod.rs:165-355) -/

inductive ClauseCheck where
  | success
  | comparison (from_ : QR) (to : Option QR) (op : CmpOp) (opNot : Bool) (msg : Option Str)
  | inComparison (from_ : QR) (to : List QR) (op : CmpOp) (opNot : Bool) (msg : Option Str)
  | unary (from_ : QR) (op : CmpOp) (opNot : Bool) (msg : Option Str)
  | noValueForEmptyCheck (msg : Option Str)
  | dependentRule (rule : Str) (msg : Option Str)
  | missingBlockValue (from_ : QR)
  deriving Repr, Inhabited

inductive RecKind where
  | fileCheck (s : Status)
  | ruleCheck (name : Str) (s : Status) (msg : Option Str)
  | ruleCondition (s : Status)
  | typeCheck (name : Str) (s : Status)
  | typeCondition (s : Status)
  | typeBlock (s : Status)
  | filter (s : Status)
  | whenCheck (s : Status)
  | whenCondition (s : Status)
  | disjunction (s : Status)
  | blockGuardCheck (s : Status)
  | guardClauseBlockCheck (s : Status)
  | clauseValueCheck (c : ClauseCheck)
  deriving Repr, Inhabited

inductive Rec where
  | node (kind : RecKind) (children : List Rec)
  deriving Repr, Inhabited

def Rec.kind : Rec → RecKind | .node k _ => k
def Rec.children : Rec → List Rec | .node _ c => c

/-! ### Scopes -/

structure BlockFrame where
  root : PV
  lits : List (Str × PV)
  queries : List (Str × (List QueryPart × Bool))
  funs : List (Str × (FunctionName × List LetValue))
  memo : List (Str × List QR)
  inProgress : List Str
  deriving Inhabited

inductive Frame where
  | block (b : BlockFrame)
  | value (root : PV)
  | params (ps : List (Str × List QR))
  deriving Inhabited

structure St where
  file : RulesFile
  frames : List Frame
  ruleStatus : List (Str × Status)
  rulesInProgress : List Str
  recs : List Rec            -- children of the open record, newest first
  deriving Inhabited

abbrev M := StateT St Outcome

def throwErr {α} (e : ErrKind) : M α := fun _ => .err e
def throwPanic {α} (s : PanicSite) : M α := fun _ => .panic s
def outOfFuel {α} : M α := fun _ => .outOfFuel
def liftO {α} (o : Outcome α) : M α := fun st =>
  match o with
  | .ok a => .ok (a, st)
  | .err e => .err e
  | .panic s => .panic s
  | .outOfFuel => .outOfFuel

/-- association list insert with `HashMap::insert` semantics (replace an existing key) -/
def alInsert {β} (k : Str) (v : β) : List (Str × β) → List (Str × β)
  | [] => [(k, v)]
  | (k', v') :: rest => if k' = k then (k, v) :: rest else (k', v') :: alInsert k v rest

def alLookup {β} (k : Str) : List (Str × β) → Option β
  | [] => none
  | (k', v) :: rest => if k' = k then some v else alLookup k rest

/-- `extract_variables` (eval_context.rs:95-117). -/
def extractVariables (lets : List LetExpr) (root : PV) : BlockFrame :=
  lets.foldl (fun b l =>
    match l.value with
    | .value v => { b with lits := alInsert l.var v b.lits }
    | .access q a => { b with queries := alInsert l.var (q, a) b.queries }
    | .func n ps => { b with funs := alInsert l.var (n, ps) b.funs })
    { root := root, lits := [], queries := [], funs := [], memo := [], inProgress := [] }

/-- `resolver.root()`: the nearest frame that has a root (parameter contexts delegate). -/
def rootOfFrames : List Frame → Option PV
  | [] => none
  | .block b :: _ => some b.root
  | .value r :: _ => some r
  | .params _ :: rest => rootOfFrames rest

def currentRoot : M PV := fun st =>
  match rootOfFrames st.frames with
  | some r => .ok (r, st)
  | none => .panic .other

def pushFrame (f : Frame) : M Unit := modify fun st => { st with frames := f :: st.frames }
def popFrame : M Unit := modify fun st => { st with frames := st.frames.tail }

/-- run `act` inside a `ValueScope { root, parent: resolver }` -/
def withValueScope {α} (root : PV) (act : M α) : M α := do
  pushFrame (.value root); let r ← act; popFrame; pure r

/-- `start_record(ctx)` … `end_record(ctx, mk result)` around `body`. -/
def withRec {α} (mk : α → RecKind) (body : M α) : M α := fun st =>
  match body { st with recs := [] } with
  | .ok (a, st') => .ok (a, { st' with recs := Rec.node (mk a) st'.recs.reverse :: st.recs })
  | .err e => .err e
  | .panic s => .panic s
  | .outOfFuel => .outOfFuel

def emit (k : RecKind) : M Unit := modify fun st => { st with recs := Rec.node k [] :: st.recs }

/-- `add_variable_capture_key`: always lands in the ROOT scope's `resolved_variables`. -/
def addCaptureKey (name : Str) (key : PV) : M Unit := modify fun st =>
  match st.frames.reverse with
  | .block b :: innerRev =>
    let old := (alLookup name b.memo).getD []
    { st with frames := (Frame.block { b with memo := alInsert name (old ++ [QR.resolved key]) b.memo } :: innerRev).reverse }
  | _ => st

/-! ### Pure aggregators (the functions the C02 theorems are about) -/

/-- status of one line of `or`-joined alternatives from the statuses that were evaluated -/
def lineStatus (sts : List Status) : Status :=
  if sts.any (· == .pass) then .pass else if sts.any (· == .fail) then .fail else .skip

/-- status of a conjunction of lines / of a file from its rules / of a type block from its values -/
def bodyStatus (lines : List Status) : Status :=
  if lines.any (· == .fail) then .fail else if lines.any (· == .pass) then .pass else .skip

/-- `some`-block aggregation (eval.rs:1410-1416) -/
def someStatus (vals : List Status) : Status :=
  if vals.any (· == .pass) then .pass else if vals.any (· == .fail) then .fail else .skip

/-- clause aggregation over per-value PASS/FAIL results (eval.rs:1173-1199) -/
def clauseStatus (all : Bool) (results : List Bool) : Status :=
  if all then (if results.any (· == false) then .fail else .pass)
  else (if results.any (· == true) then .pass else .fail)

/-- named-rule clause (eval.rs:1236-1251) -/
def namedStatus (neg : Bool) (s : Status) : Status :=
  match s with
  | .pass => if neg then .fail else .pass
  | _ => if neg then .pass else .fail

def boolStatus (b : Bool) : Status := if b then .pass else .fail

/-! ### Display of the remaining query (`SliceDisplay`, exprs.rs:286-303) -/

def QueryPart.display : QueryPart → String
  | .key k => String.ofList k
  | .allIndices _ => "[*]"
  | .allValues _ => "*"
  | .index i => toString i
  | .filter n _ => (match n with | some s => String.ofList s | none => "") ++ " (filter-clauses)"
  | .mapKeyFilter n _ _ _ => (match n with | some s => String.ofList s | none => "") ++ " (map-key-filter-clauses)"
  | .this => "_"

def sliceDisplay (q : List QueryPart) : Str :=
  (String.intercalate "." (q.map QueryPart.display)).replace ".[" "[" |>.toList

def unresolvedAt (current : PV) (q : List QueryPart) : QR :=
  .unresolved { traversedTo := current, remaining := sliceDisplay q }

/-- Rust `str::parse::<i32>()`: optional sign, at least one ASCII digit, value in range. -/
def parseI32 (s : Str) : Option Int :=
  let (neg, digits) := match s with
    | '-' :: r => (true, r)
    | '+' :: r => (false, r)
    | r => (false, r)
  if digits.isEmpty || !digits.all Char.isDigit then none
  else
    let n : Nat := digits.foldl (fun a c => a * 10 + (c.toNat - '0'.toNat)) 0
    let v : Int := if neg then - (n : Int) else (n : Int)
    if - (2147483648 : Int) ≤ v ∧ v ≤ 2147483647 then some v else none

/-- `retrieve_index` (eval_context.rs:119-140): negative indices use the absolute value. -/
def retrieveIndex (parent : PV) (index : Int) (elements : List PV) (query : List QueryPart) : QR :=
  let check := index.natAbs
  match elements[check]? with
  | some v => .resolved v
  | none => unresolvedAt parent query

/-! ### unary operators (eval.rs:10-93) -/

def elementEmpty : QR → Outcome Bool
  | .literal v | .resolved v =>
    match v with
    | .list _ xs => .ok xs.isEmpty
    | .map _ _ vs => .ok vs.isEmpty
    | .str _ s => .ok s.isEmpty
    | .bool _ _ => .ok false
    | _ => .err .IncompatibleError
  | .unresolved _ => .ok true

def unaryBase (op : CmpOp) (v : QR) : Outcome Bool :=
  let isT (f : PV → Bool) : Outcome Bool :=
    match v with | .literal r | .resolved r => .ok (f r) | .unresolved _ => .ok false
  match op with
  | .exists_ => .ok (match v with | .unresolved _ => false | _ => true)
  | .empty => elementEmpty v
  | .isString => isT (fun r => match r with | .str _ _ => true | _ => false)
  | .isList => isT PV.isList
  | .isMap => isT PV.isMap
  | .isInt => isT (fun r => match r with | .int _ _ => true | _ => false)
  | .isFloat => isT (fun r => match r with | .float _ _ => true | _ => false)
  | .isBool => isT (fun r => match r with | .bool _ _ => true | _ => false)
  | .isNull => isT PV.isNull
  | _ => .panic .unaryOnBinary

/-- `inverse_operation(not_operation(op)?, inverse)` -/
def unaryCheck (op : CmpOp) (opNot inverse : Bool) (v : QR) : Outcome Bool :=
  match unaryBase op v with
  | .ok b => .ok ((b != opNot) != inverse)
  | e => e

/-- the `empty` test on a query that ends in a filter or is a bare variable, per member of a
    non-empty result set (eval.rs:204-242): a resolved value counts as "empty" iff it is `null`,
    an unresolved one counts as empty; `not empty` and the prefix `not` each invert -/
def emptyExprCheck (opNot inverse : Bool) (v : QR) : Bool :=
  let base := match v with
    | .literal res | .resolved res => res.isNull
    | .unresolved _ => true
  (base != opNot) != inverse

/-- … and on an EMPTY result set (eval.rs:272-295): `empty` holds -/
def emptyExprNoValue (opNot inverse : Bool) : Bool := (true != opNot) != inverse

/-- result of evaluating a clause's values -/
inductive EvaluationResult where
  | emptyQueryResult (s : Status)
  | queryValueResult (rs : List (QR × Bool))
  deriving Inhabited

/-- records and per-value outcomes for one `ValueEvalResult` of a binary comparison
    (eval.rs:779-969) -/
def reportVER (op : CmpOp) (opNot : Bool) (msg : Option Str) : VER → List (RecKind × QR × Bool)
  | .lhsUnresolved ur =>
    [(.clauseValueCheck (.comparison (.unresolved ur) none op opNot msg), .unresolved ur, false)]
  | .cmp (.rhsUnresolved ur lhs) =>
    [(.clauseValueCheck (.comparison (.resolved lhs) (some (.unresolved ur)) op opNot msg), .resolved lhs, false)]
  | .cmp (.notComparable lhs rhs) =>
    [(.clauseValueCheck (.comparison (.resolved lhs) (some (.resolved rhs)) op opNot msg), .resolved lhs, false)]
  | .cmp (.success c) =>
    match c with
    | .listIn _ lhs _ => [(.clauseValueCheck .success, .resolved lhs, true)]
    | .queryIn _ lhs _ => lhs.map fun e => (.clauseValueCheck .success, .resolved e, true)
    | .value lhs _ => [(.clauseValueCheck .success, .resolved lhs, true)]
    | .valueIn lhs _ => [(.clauseValueCheck .success, .resolved lhs, true)]
  | .cmp (.fail c) =>
    match c with
    | .value lhs rhs =>
      [(.clauseValueCheck (.comparison (.resolved lhs) (some (.resolved rhs)) op opNot msg), .resolved lhs, false)]
    | .valueIn lhs rhs =>
      [(.clauseValueCheck (.inComparison (.resolved lhs) [.resolved rhs] op opNot msg), .resolved lhs, false)]
    | .listIn _ lhs rhs =>
      [(.clauseValueCheck (.inComparison (.resolved lhs) [.resolved rhs] op opNot msg), .resolved lhs, false)]
    | .queryIn diff _ rhs =>
      diff.map fun l => (.clauseValueCheck (.inComparison (.resolved l) (rhs.map QR.resolved) op opNot msg), .resolved l, false)

/-! ### `real_binary_operation` (eval.rs:434-753, 976-1075), used by `keys` filters -/

inductive RhsCmp where
  | comparable (outcome : Bool) (lhs rhs : PV)
  | notComparable (lhs rhs : PV)
  | unresolvedRhs (rhs : QR) (lhs : PV)
  deriving Inhabited

def notCompare (cmp : PV → PV → Outcome Bool) (invert : Bool) (l r : PV) : Outcome Bool :=
  match cmp l r with
  | .ok b => .ok (b != invert)
  | e => e

/-- `in_cmp` (eval.rs:560-583) -/
def inCmp (env : Env) (notIn : Bool) (l r : PV) : Outcome Bool :=
  match l, r with
  | .str _ lv, .str _ rv => .ok (Str.contains' rv lv != notIn)
  | _, .list _ rhsList =>
    match mapMOutcome (fun e => compareEq env l e) rhsList with
    | .ok tracking => .ok (if tracking.any id then !notIn else notIn)
    | .err e => .err e | .panic s => .panic s | .outOfFuel => .outOfFuel
  | _, _ =>
    match compareEq env l r with
    | .ok b => .ok (b != notIn)
    | e => e

def cmpOne (cmp : PV → PV → Outcome Bool) (l r : PV) : Outcome RhsCmp :=
  match cmp l r with
  | .ok b => .ok (.comparable b l r)
  | .err .NotComparable => .ok (.notComparable l r)
  | .err e => .err e
  | .panic s => .panic s
  | .outOfFuel => .outOfFuel

/-- `each_lhs_compare` (eval.rs:434-558) -/
def eachLhsCompare (cmp : PV → PV → Outcome Bool) (lhs : PV) : List QR → Outcome (List RhsCmp)
  | [] => .ok []
  | q :: rest =>
    let here : Outcome (List RhsCmp) :=
      match q with
      | .unresolved _ => .ok [.unresolvedRhs q lhs]
      | .literal r | .resolved r =>
        match cmp lhs r with
        | .ok b => .ok [.comparable b lhs r]
        | .err .NotComparable =>
          match lhs with
          | .list _ inner => mapMOutcome (fun e => cmpOne cmp e r) inner
          | _ =>
            -- lhs is scalar or map; only scalars take the single-element literal shortcut
            let shortcut : Option PV :=
              if lhs.isScalar then
                match q, r with
                | .literal _, .list _ [single] => some single
                | _, _ => none
              else none
            match shortcut with
            | some single => match cmpOne cmp lhs single with
              | .ok c => .ok [c] | .err e => .err e | .panic s => .panic s | .outOfFuel => .outOfFuel
            | none => .ok [.notComparable lhs r]
        | .err e => .err e
        | .panic s => .panic s
        | .outOfFuel => .outOfFuel
    match here with
    | .ok hs =>
      match eachLhsCompare cmp lhs rest with
      | .ok ts => .ok (hs ++ ts)
      | e => e
    | e => e

/-- one lhs value of `real_binary_operation`: its records and (value, status) entries.
    `report_at_least_one` groups by lhs value in a `HashMap`; the lhs values here are map keys
    (strings), so there is exactly one group unless there are no comparisons at all. -/
def realBinaryOne (env : Env) (op : CmpOp) (opNot : Bool) (msg : Option Str) (rhs : List QR)
    (each : QR) : Outcome (List (RecKind × QR × Status)) :=
  match each with
  | .unresolved _ =>
    .ok [(.clauseValueCheck (.comparison each none op opNot msg), each, .fail)]
  | .literal l | .resolved l =>
    let cmpF : Outcome (PV → PV → Outcome Bool) :=
      match op with
      | .eq => .ok (notCompare (compareEq env) opNot)
      | .ge => .ok (notCompare compareGe opNot)
      | .gt => .ok (notCompare compareGt opNot)
      | .lt => .ok (notCompare compareLt opNot)
      | .le => .ok (notCompare compareLe opNot)
      | .in_ => .ok (inCmp env opNot)
      | _ => .panic .unaryOnBinary
    match cmpF with
    | .ok f =>
      match eachLhsCompare f l rhs with
      | .ok r =>
        if op == .in_ then
          -- report_at_least_one
          if r.isEmpty then .ok []
          else
            let found := r.any fun c => match c with | .comparable true _ _ => true | _ => false
            if found then .ok [(.clauseValueCheck .success, .resolved l, .pass)]
            else
              let tos := r.filterMap fun c => match c with
                | .comparable _ _ rv => some (QR.resolved rv)
                | .notComparable _ rv => some (QR.resolved rv)
                | .unresolvedRhs q _ => (match q with | .unresolved _ => some q | _ => none)
              .ok [(.clauseValueCheck (.inComparison (.resolved l) tos op opNot msg), .resolved l, .fail)]
        else
          -- report_all_values
          .ok (r.map fun c => match c with
            | .comparable true lv _ => (.clauseValueCheck .success, .resolved lv, .pass)
            | .comparable false lv rv =>
              (.clauseValueCheck (.comparison (.resolved lv) (some (.resolved rv)) op opNot msg), .resolved lv, .fail)
            | .notComparable lv rv =>
              (.clauseValueCheck (.comparison (.resolved lv) (some (.resolved rv)) op opNot msg), .resolved lv, .fail)
            | .unresolvedRhs q lv =>
              (.clauseValueCheck (.comparison (.resolved lv) (some q) op opNot msg), .resolved lv, .fail))
      | .err e => .err e | .panic s => .panic s | .outOfFuel => .outOfFuel
    | .err e => .err e | .panic s => .panic s | .outOfFuel => .outOfFuel

/-- `real_binary_operation` -/
def realBinaryOperation (env : Env) (lhs rhs : List QR) (op : CmpOp) (opNot : Bool) (msg : Option Str) :
    M (List (QR × Status)) := do
  let op' := if op == .eq && rhs.length > 1 then CmpOp.in_ else op
  let rows ← liftO (mapMOutcome (realBinaryOne env op' opNot msg rhs) lhs)
  let flat := rows.flatten
  for (k, _, _) in flat do emit k
  pure (flat.map fun (_, q, s) => (q, s))

/-! ### The evaluator -/

def mkParamsFrame (names : List Str) (vals : List (List QR)) : Frame :=
  .params ((names.zip vals).foldl (fun acc (n, v) => alInsert n v acc) [])

/-- `accumulate_map` (eval_context.rs:179-232): each value in its own `ValueScope` -/
def accumulateMap (parent : PV) (ks : List (Path × Str)) (vs : List PV)
    (qi : Nat) (query : List QueryPart) (func : PV → PV → M (List QR)) : M (List QR) :=
  if vs.isEmpty then pure [unresolvedAt parent (query.drop qi)]
  else do
    let rows ← (ks.zip vs).mapM fun ((p, k), each) =>
      withValueScope each (func (PV.str p k) each)
    pure rows.flatten

/-- rules of a given name, in file order (`RootScope.rules`) -/
def rulesNamed (name : Str) : M (List Rule) := do
  let st ← get
  pure (st.file.rules.filter fun r => r.name = name)

/-- `find_parameterized_rule`: a `HashMap` keyed by name, so the LAST definition wins -/
def findParamRule (name : Str) : M ParamRule := do
  let st ← get
  match (st.file.prules.filter fun r => r.rule.name = name).getLast? with
  | some r => pure r
  | none => throwErr .MissingValue

mutual

/-- `query_retrieval_with_converter` (eval_context.rs:337-924). -/
def queryRetrieval (env : Env) (fuel : Nat) (qi : Nat) (query : List QueryPart) (current : PV)
    (conv : Option Nat) : M (List QR) :=
  match fuel with
  | 0 => outOfFuel
  | fuel + 1 =>
  match query[qi]? with
  | none => pure [.resolved current]
  | some part =>
  if qi == 0 && part.isVariable then do
    -- variable head
    let retrieved ← resolveVariable env fuel (part.variable.getD [])
    let index := match query[1]? with | some (.allIndices _) => 2 | _ => 1
    let rows ← retrieved.mapM fun each =>
      match each with
      | .unresolved ur => pure [QR.unresolved ur]
      | .literal v | .resolved v =>
        if index < query.length then
          withValueScope v (queryRetrieval env fuel index query v conv)
        else pure [each]
    pure rows.flatten
  else
  match part with
  | .this => queryRetrieval env fuel (qi + 1) query current conv
  | .key key =>
    match parseI32 key with
    | some idx =>
      match current with
      | .list _ list =>
        match retrieveIndex current idx list query with
        | .resolved v => queryRetrieval env fuel (qi + 1) query v conv
        | rest => pure [rest]
      | _ => pure [unresolvedAt current query]
    | none =>
      match current with
      | .map _ ks vs =>
        if part.isVariable then do
          let var := part.variable.getD []
          let keys ← resolveVariable env fuel var
          let keysSel : Except (M (List QR)) (List QR) :=
            match query[qi + 1]? with
            | none => .ok keys
            | some (.allIndices _) | some (.key _) => .ok keys
            | some (.index index) =>
              match keys[index.natAbs]? with
              | some k => .ok [k]
              | none => .error (pure [unresolvedAt current (query.drop qi)])
            | some _ => .error (throwErr .IncompatibleError)
          match keysSel with
          | .error act => act
          | .ok keys =>
            let rows ← keys.mapM fun eachKey =>
              match eachKey with
              | .unresolved _ => pure [unresolvedAt current (query.drop qi)]
              | .resolved key | .literal key =>
                match key with
                | .str _ k =>
                  match PV.lookupKV ks vs k with
                  | some next => queryRetrieval env fuel (qi + 1) query next conv
                  | none => pure [unresolvedAt current (query.drop qi)]
                | .list _ inner => do
                  let rows ← inner.mapM fun ek =>
                    match ek with
                    | .str _ k =>
                      match PV.lookupKV ks vs k with
                      | some next => queryRetrieval env fuel (qi + 1) query next conv
                      | none => pure [unresolvedAt current (query.drop qi)]
                    | _ => throwErr .NotComparable
                  pure rows.flatten
                | _ => throwErr .NotComparable
            pure rows.flatten
        else
          match PV.lookupKV ks vs key with
          | some val => queryRetrieval env fuel (qi + 1) query val conv
          | none =>
            match conv with
            | some c =>
              match PV.lookupKV ks vs (env.caseConv c key) with
              | some val => queryRetrieval env fuel (qi + 1) query val conv
              | none => pure [unresolvedAt current (query.drop qi)]
            | none =>
              match (List.range 7).find? (fun c => (PV.lookupKV ks vs (env.caseConv c key)).isSome) with
              | some c =>
                match PV.lookupKV ks vs (env.caseConv c key) with
                | some val => queryRetrieval env fuel (qi + 1) query val (some c)
                | none => pure [unresolvedAt current (query.drop qi)]
              | none => pure [unresolvedAt current (query.drop qi)]
      | _ => pure [unresolvedAt current (query.drop qi)]
  | .index index =>
    match current with
    | .list _ list =>
      match retrieveIndex current index list query with
      | .resolved v => queryRetrieval env fuel (qi + 1) query v conv
      | rest => pure [rest]
    | _ => pure [unresolvedAt current (query.drop qi)]
  | .allIndices name =>
    match current with
    | .list _ elements => accumulate env fuel current qi query elements conv
    | .map _ ks vs =>
      match name with
      | none => queryRetrieval env fuel (qi + 1) query current conv
      | some n =>
        accumulateMap current ks vs qi query fun key value => do
          addCaptureKey n key
          queryRetrieval env fuel (qi + 1) query value conv
    | rest => queryRetrieval env fuel (qi + 1) query rest conv
  | .allValues name =>
    match current with
    | .list _ elements => accumulate env fuel current qi query elements conv
    | .map _ ks vs =>
      accumulateMap current ks vs qi query fun key value => do
        match name with
        | some n => addCaptureKey n key
        | none => pure ()
        queryRetrieval env fuel (qi + 1) query value conv
    | rest => queryRetrieval env fuel (qi + 1) query rest conv
  | .filter name cnf =>
    match current with
    | .map _ ks vs =>
      if qi == 0 then throwPanic .filterFirst else
      match query[qi - 1]? with
      | some (.key _) =>
        if !vs.isEmpty then
          accumulateMap current ks vs qi query fun key value =>
            checkAndDelegate env fuel cnf name (qi + 1) query key value conv
        else pure []
      | _ =>
        withValueScope current
          (checkAndDelegate env fuel cnf none (qi + 1) query current current conv)
    | .list _ list => do
      let rows ← list.mapM fun each => do
        let status ← withRec RecKind.filter (withValueScope each (evalCnf env fuel cnf))
        match status with
        | .pass => queryRetrieval env fuel (qi + 1) query each conv
        | _ => pure []
      pure rows.flatten
    | _ =>
      if qi == 0 then throwPanic .filterFirst else
      match query[qi - 1]? with
      | some (.allIndices _) => do
        let status ← withRec RecKind.filter (withValueScope current (evalCnf env fuel cnf))
        match status with
        | .pass => queryRetrieval env fuel (qi + 1) query current conv
        | _ => pure []
      | _ => pure [unresolvedAt current (query.drop qi)]
  | .mapKeyFilter _name op opNot withV =>
    match current with
    | .map _ ks vs => do
      let rhs ← match withV with
        | .access q _ => queryRetrieval env fuel 0 q current conv
        | .value v => pure [QR.literal v]
        | .func n ps => resolveFunction env fuel n ps
      let lhs : List QR := ks.map fun (p, k) => QR.resolved (PV.str p k)
      -- the key comparisons are recorded under a `Filter` record (they select entries, they are not checks
      -- of the enclosing clause); its status aggregates them like a body
      let results ← withRec (fun rs => RecKind.filter (bodyStatus (rs.map (·.2))))
        (realBinaryOperation env lhs rhs op opNot none)
      let selected ← results.filterMapM fun (q, s) =>
        match q, s with
        | .resolved key, .pass =>
          match key with
          | .str _ kn =>
            match PV.lookupKV ks vs kn with
            | some v => pure (some (QR.resolved v))
            | none => throwPanic .mapKeyMissing
          | _ => pure none
        | .unresolved ur, _ => pure (some (QR.unresolved ur))
        | _, _ => pure none
      let rows ← selected.mapM fun each =>
        match each with
        | .literal r | .resolved r => queryRetrieval env fuel (qi + 1) query r conv
        | .unresolved ur => pure [QR.unresolved ur]
      pure rows.flatten
    | _ => pure [unresolvedAt current (query.drop qi)]

/-- `accumulate` (eval_context.rs:142-177) -/
def accumulate (env : Env) (fuel : Nat) (parent : PV) (qi : Nat) (query : List QueryPart)
    (elements : List PV) (conv : Option Nat) : M (List QR) :=
  match fuel with
  | 0 => outOfFuel
  | fuel + 1 =>
  if elements.isEmpty then pure [unresolvedAt parent (query.drop qi)]
  else do
    let rows ← elements.mapM fun each => queryRetrieval env fuel (qi + 1) query each conv
    pure rows.flatten

/-- `check_and_delegate` (eval_context.rs:268-313) -/
def checkAndDelegate (env : Env) (fuel : Nat) (cnf : Cnf) (name : Option Str) (index : Nat)
    (query : List QueryPart) (key value : PV) (conv : Option Nat) : M (List QR) :=
  match fuel with
  | 0 => outOfFuel
  | fuel + 1 => do
    let status ← withRec RecKind.filter (evalCnf env fuel cnf)
    match name with
    | some n => if status == .pass then addCaptureKey n key else pure ()
    | none => pure ()
    match status with
    | .pass => queryRetrieval env fuel index query value conv
    | _ => pure []

/-- `resolver.query(q)` for every scope kind: retrieval from the current root -/
def queryCtx (env : Env) (fuel : Nat) (q : List QueryPart) : M (List QR) :=
  match fuel with
  | 0 => outOfFuel
  | fuel + 1 => do
    let root ← currentRoot
    queryRetrieval env fuel 0 q root none

/-- `resolve_variable` along the scope chain (eval_context.rs:1117-1163, 1502-1587,
    eval.rs:1532-1537).  A block scope resolves its own variables with ITSELF as resolver,
    so the frames inside it are set aside while the variable's query runs. -/
def resolveVariable (env : Env) (fuel : Nat) (name : Str) : M (List QR) :=
  match fuel with
  | 0 => outOfFuel
  | fuel + 1 => fun st =>
  match st.frames with
  | [] => .err .MissingValue
  | f :: rest =>
    let delegate : Outcome (List QR × St) :=
      if rest.isEmpty then .err .MissingValue
      else
        match resolveVariable env fuel name { st with frames := rest } with
        | .ok (r, st') => .ok (r, { st' with frames := f :: st'.frames })
        | e => e
    match f with
    | .value _ => delegate
    | .params ps =>
      match alLookup name ps with
      | some r => .ok (r, st)
      | none => delegate
    | .block b =>
      match alLookup name b.lits with
      | some v => .ok ([.literal v], st)
      | none =>
      match alLookup name b.memo with
      | some vals => .ok (vals, st)
      | none =>
      let startVar (k : St → Outcome (List QR × St)) : Outcome (List QR × St) :=
        if b.inProgress.contains name then .err .IncompatibleError
        else
          let nb : BlockFrame := { b with inProgress := name :: b.inProgress }
          k { st with frames := Frame.block nb :: rest }
      let finish (result : List QR) (st' : St) : Outcome (List QR × St) :=
        match st'.frames with
        | .block b' :: rest' =>
          let nb : BlockFrame := { b' with inProgress := b'.inProgress.tail, memo := alInsert name result b'.memo }
          .ok (result, { st' with frames := Frame.block nb :: rest' })
        | _ => .panic .other
      match alLookup name b.funs with
      | some (fname, params) =>
        startVar fun st1 =>
          match resolveFunction env fuel fname params st1 with
          | .ok (result, st') => finish result st'
          | e => e
      | none =>
      match alLookup name b.queries with
      | some (q, matchAll) =>
        startVar fun st1 =>
          match queryRetrieval env fuel 0 q b.root none st1 with
          | .ok (result, st') =>
            let result := if !matchAll then result.filter QR.isResolvedOnly else result
            finish result st'
          | e => e
      | none => delegate

/-- `resolve_function` (eval_context.rs:2437-2472) -/
def resolveFunction (env : Env) (fuel : Nat) (name : FunctionName) (params : List LetValue) :
    M (List QR) :=
  match fuel with
  | 0 => outOfFuel
  | fuel + 1 => do
    let args ← params.mapM fun p =>
      match p with
      | .value v => pure [QR.literal v]
      | .access q _ => queryCtx env fuel q
      | .func n ps => resolveFunction env fuel n ps
    let out ← liftO (callFunction env name args)
    pure (out.filterMap id |>.map QR.resolved)

/-- `eval_conjunction_clauses` (eval.rs:1971-2065) -/
def evalCnf (env : Env) (fuel : Nat) (cnf : Cnf) : M Status :=
  match fuel with
  | 0 => outOfFuel
  | fuel + 1 => do
    let lines ← cnf.mapM fun line =>
      if line.length > 1 then withRec RecKind.disjunction (evalLine env fuel line)
      else evalLine env fuel line
    pure (bodyStatus lines)

/-- one line: alternatives in order up to and including the first PASS -/
def evalLine (env : Env) (fuel : Nat) (line : List Clause) : M Status :=
  match fuel with
  | 0 => outOfFuel
  | fuel + 1 => do
    let sts ← evalAlternatives env fuel line
    pure (lineStatus sts)

def evalAlternatives (env : Env) (fuel : Nat) : List Clause → M (List Status)
  | [] => pure []
  | c :: rest =>
    match fuel with
    | 0 => outOfFuel
    | fuel + 1 => do
      let s ← evalClause env fuel c
      if s == .pass then pure [s]
      else do
        let more ← evalAlternatives env fuel rest
        pure (s :: more)

/-- `eval_guard_clause` / `eval_when_clause` / `eval_rule_clause` dispatch -/
def evalClause (env : Env) (fuel : Nat) (c : Clause) : M Status :=
  match fuel with
  | 0 => outOfFuel
  | fuel + 1 =>
  match c with
  | .access neg q all op opNot withV msg =>
    -- eval_guard_access_clause (eval.rs:1078-1225)
    withRec RecKind.guardClauseBlockCheck do
      let res ←
        if op.isUnary then unaryOperation env fuel q op opNot neg msg
        else do
          let rhs ← match withV with
            | some (.value v) => pure [QR.literal v]
            | some (.access q' _) => queryCtx env fuel q'
            | some (.func n ps) => resolveFunction env fuel n ps
            | none => throwErr .NotComparable
          binaryOperation env fuel q rhs op (opNot != neg) msg
      match res with
      | .emptyQueryResult s => pure s
      | .queryValueResult rs => pure (clauseStatus all (rs.map (·.2)))
  | .named rule neg msg =>
    -- eval_guard_named_clause (eval.rs:1227-1289)
    withRec (fun s => RecKind.clauseValueCheck
        (if s == .pass then .success else .dependentRule rule msg)) do
      let s ← ruleStatus env fuel rule
      pure (namedStatus neg s)
  | .call rule neg msg params => evalParamCall env fuel rule neg msg params
  | .block q all notEmpty lets cnf =>
    -- eval_guard_block_clause (eval.rs:1303-1426)
    withRec RecKind.blockGuardCheck do
      let values ← queryCtx env fuel q
      if values.isEmpty then pure (if notEmpty then .fail else .skip)
      else do
        let sts ← values.mapM fun each =>
          match each with
          | .unresolved ur => do
            emit (.clauseValueCheck (.missingBlockValue (.unresolved ur)))
            pure Status.fail
          | .literal rv | .resolved rv =>
            withValueScope rv (evalGeneralBlock env fuel lets cnf)
        pure (if all then bodyStatus sts else someStatus sts)
  | .whenBlock conds lets cnf =>
    -- eval_when_condition_block (eval.rs:1428-1502)
    withRec RecKind.whenCheck do
      let c ← withRec RecKind.whenCondition (evalCnf env fuel conds)
      if c != .pass then pure .skip
      else evalGeneralBlock env fuel lets cnf
  | .typeBlock name conds lets cnf q =>
    -- eval_type_block_clause (eval.rs:1649-1822)
    withRec (RecKind.typeCheck name) do
      let go : M Status := do
        let values ← queryCtx env fuel q
        if values.isEmpty then pure .skip
        else do
          let sts ← values.mapM fun each =>
            match each with
            | .literal rv | .resolved rv =>
              withRec RecKind.typeBlock (withValueScope rv (evalGeneralBlock env fuel lets cnf))
            | .unresolved _ => throwErr .MissingValue
          pure (bodyStatus sts)
      match conds with
      | some cs => do
        let c ← withRec RecKind.typeCondition (evalCnf env fuel cs)
        if c != .pass then pure .skip else go
      | none => go

/-- `eval_general_block_clause` (eval.rs:1291-1301): a new `BlockScope` rooted at the current root -/
def evalGeneralBlock (env : Env) (fuel : Nat) (lets : List LetExpr) (cnf : Cnf) : M Status :=
  match fuel with
  | 0 => outOfFuel
  | fuel + 1 => do
    let root ← currentRoot
    pushFrame (.block (extractVariables lets root))
    let s ← evalCnf env fuel cnf
    popFrame
    pure s

/-- `unary_operation` (eval.rs:174-405) -/
def unaryOperation (env : Env) (fuel : Nat) (q : List QueryPart) (op : CmpOp) (opNot inverse : Bool)
    (msg : Option Str) : M EvaluationResult :=
  match fuel with
  | 0 => outOfFuel
  | fuel + 1 => do
    let lhs ← queryCtx env fuel q
    let emptyOnExpr ← match q.getLast? with
      | none => throwPanic .emptyQuery
      | some (.filter _ _) | some (.mapKeyFilter _ _ _ _) => pure true
      | some rest => pure (rest.isVariable && q.length == 1)
    if emptyOnExpr && op == .empty then
      if !lhs.isEmpty then do
        let rs ← lhs.mapM fun each => do
          let result : QR := match each with
            | .literal res | .resolved res => QR.resolved res
            | .unresolved ur => QR.unresolved ur
          let st := emptyExprCheck opNot inverse each
          if st then emit (.clauseValueCheck .success)
          else emit (.clauseValueCheck (.unary result op opNot msg))
          pure (result, st)
        pure (.queryValueResult rs)
      else do
        let result := emptyExprNoValue opNot inverse
        if result then emit (.clauseValueCheck .success)
        else emit (.clauseValueCheck (.noValueForEmptyCheck msg))
        pure (.emptyQueryResult (boolStatus result))
    else if lhs.isEmpty then pure (.emptyQueryResult .skip)
    else do
      let rs ← lhs.mapM fun each => do
        let b ← liftO (unaryCheck op opNot inverse each)
        -- the record carries literals as resolved values (eval.rs `record_unary_clause`)
        let shown : QR := match each with | .literal v => .resolved v | other => other
        if b then emit (.clauseValueCheck .success)
        else emit (.clauseValueCheck (.unary shown op opNot msg))
        pure (each, b)
      pure (.queryValueResult rs)

/-- `binary_operation` (eval.rs:765-974) -/
def binaryOperation (env : Env) (fuel : Nat) (q : List QueryPart) (rhs : List QR) (op : CmpOp)
    (opNot : Bool) (msg : Option Str) : M EvaluationResult :=
  match fuel with
  | 0 => outOfFuel
  | fuel + 1 => do
    let lhs ← queryCtx env fuel q
    let results ← liftO (cmpCompare env op opNot lhs rhs)
    match results with
    | .skip => pure (.emptyQueryResult .skip)
    | .result rs =>
      let flat := (rs.map (reportVER op opNot msg)).flatten
      for (k, _, _) in flat do emit k
      pure (.queryValueResult (flat.map fun (_, qr, b) => (qr, b)))

/-- `eval_parameterized_rule_call` (eval.rs:1574-1627) -/
def evalParamCall (env : Env) (fuel : Nat) (rule : Str) (neg : Bool) (msg : Option Str)
    (params : List LetValue) : M Status :=
  match fuel with
  | 0 => outOfFuel
  | fuel + 1 => do
    let pr ← findParamRule rule
    if pr.params.length != params.length then throwErr .IncompatibleError
    else do
      let vals ← params.mapM fun p =>
        match p with
        | .value v => pure [QR.resolved v]
        | .access q _ => queryCtx env fuel q
        | .func n ps => resolveFunction env fuel n ps
      pushFrame (mkParamsFrame pr.params vals)
      let s ← evalRule env fuel pr.rule
      popFrame
      -- ResolvedParameterContext::end_record rewrites the message of the called rule's record
      modify fun st =>
        match st.recs with
        | .node (.ruleCheck n s' _) ch :: rest =>
          if n = rule then { st with recs := .node (.ruleCheck n s' msg) ch :: rest } else st
        | _ => st
      pure (if neg then (match s with | .pass => Status.fail | _ => Status.pass) else s)

/-- `rule_status` (eval_context.rs:1087-1130): memoised, evaluated with the ROOT scope as resolver -/
def ruleStatus (env : Env) (fuel : Nat) (name : Str) : M Status :=
  match fuel with
  | 0 => outOfFuel
  | fuel + 1 => do
    let st ← get
    match alLookup name st.ruleStatus with
    | some s => pure s
    | none =>
      let rules ← rulesNamed name
      if rules.isEmpty then throwErr .MissingValue
      else if st.rulesInProgress.contains name then throwErr .IncompatibleError
      else do
        let inner := st.frames.dropLast
        modify fun st => { st with rulesInProgress := name :: st.rulesInProgress,
                                   frames := st.frames.drop inner.length }
        let s ← firstNonSkip env fuel rules
        modify fun st => { st with rulesInProgress := st.rulesInProgress.tail,
                                   frames := inner ++ st.frames,
                                   ruleStatus := alInsert name s st.ruleStatus }
        pure s

def firstNonSkip (env : Env) (fuel : Nat) : List Rule → M Status
  | [] => pure .skip
  | r :: rest =>
    match fuel with
    | 0 => outOfFuel
    | fuel + 1 => do
      let s ← evalRule env fuel r
      if s != .skip then pure s else firstNonSkip env fuel rest

/-- `eval_rule` (eval.rs:1837-1906) -/
def evalRule (env : Env) (fuel : Nat) (r : Rule) : M Status :=
  match fuel with
  | 0 => outOfFuel
  | fuel + 1 =>
    withRec (fun s => RecKind.ruleCheck r.name s none) do
      match r.conds with
      | some cs => do
        let c ← withRec RecKind.ruleCondition (evalCnf env fuel cs)
        if c != .pass then pure .skip
        else evalGeneralBlock env fuel r.lets r.cnf
      | none => evalGeneralBlock env fuel r.lets r.cnf

end

end Guard

namespace Guard

/-- `eval_rules_file` (eval.rs:1915-1968) -/
def evalRulesFile (env : Env) (fuel : Nat) (file : RulesFile) : M Status :=
  withRec RecKind.fileCheck do
    let sts ← file.rules.mapM (evalRule env fuel)
    pure (bodyStatus sts)

/-- `root_scope(rules, doc)` (eval_context.rs:926-978) -/
def St.init (file : RulesFile) (doc : PV) : St :=
  { file := file, frames := [.block (extractVariables file.lets doc)], ruleStatus := [],
    rulesInProgress := [], recs := [] }

/-- one (rules file, document) evaluation: the returned status and the record tree -/
def runFile (env : Env) (fuel : Nat) (file : RulesFile) (doc : PV) : Outcome (Status × Rec) :=
  match evalRulesFile env fuel file (St.init file doc) with
  | .ok (s, st) =>
    match st.recs with
    | [r] => .ok (s, r)
    | _ => .panic .other
  | .err e => .err e
  | .panic s => .panic s
  | .outOfFuel => .outOfFuel

def RecKind.status? : RecKind → Option Status
  | .fileCheck s | .ruleCheck _ s _ | .ruleCondition s | .typeCheck _ s | .typeCondition s
  | .typeBlock s | .filter s | .whenCheck s | .whenCondition s | .disjunction s
  | .blockGuardCheck s | .guardClauseBlockCheck s => some s
  | .clauseValueCheck c => some (match c with | .success => .pass | _ => .fail)

/-- per-rule statuses in file order, read off the tree's top-level `RuleCheck` children -/
def ruleStatuses (t : Rec) : List (Str × Status) :=
  t.children.filterMap fun r => match r.kind with
    | .ruleCheck n s _ => some (n, s)
    | _ => none

end Guard
