import Guard.Model.Functions
import Guard.Gen.Tables
/-
  Guard.Model.Loader — how the libyaml-based loader of `validate` types a scalar event and a
  CloudFormation short-form tag (libyaml/loader.rs:62-103, 177-231).  libyaml's event stream
  (style, tag, text) is the INPUT of this model; the serde loaders are tied by the correspondence
  (all loaders are run on the same texts and their typed values compared).
-/
namespace Guard.Loader
open Guard

inductive Style | plain | singleQuoted | doubleQuoted | literal | folded
  deriving DecidableEq, Repr

inductive Scalar where
  | null | str (s : Str) | bool (b : Bool) | int (i : Int) | float (f : F64) | bad (s : Str)
  deriving Repr

def lowerAscii (s : Str) : Str := s.map fun c => if 'A' ≤ c ∧ c ≤ 'Z' then Char.ofNat (c.toNat + 32) else c

/-- Rust `str::parse::<bool>()` -/
def parseBool (s : Str) : Option Bool :=
  if s = "true".toList then some true else if s = "false".toList then some false else none

/-- the plain-scalar cascade: i64, then f64, then bool, then `~`/`null` (any case), else string -/
def typePlain (env : Env) (txt : Str) : Scalar :=
  match parseI64 txt with
  | some i => .int i
  | none =>
    match env.f64Parse txt with
    | some f => .float f
    | none =>
      match parseBool txt with
      | some b => .bool b
      | none =>
        let l := lowerAscii txt
        if l = "~".toList || l = "null".toList then .null else .str txt

/-- `handle_type_ref` for `!!bool`, `!!int`, `!!float`, `!!null`, other -/
def typeRef (env : Env) (suffix txt : Str) : Scalar :=
  if suffix = "tag:yaml.org,2002:bool".toList then (match parseBool txt with | some b => .bool b | none => .str txt)
  else if suffix = "tag:yaml.org,2002:int".toList then (match parseI64 txt with | some i => .int i | none => .bad txt)
  else if suffix = "tag:yaml.org,2002:float".toList then (match env.f64Parse txt with | some f => .float f | none => .bad txt)
  else if suffix = "tag:yaml.org,2002:null".toList then .null
  else .str txt

/-- `short_form_to_long`: `none` models the `unreachable!()` -/
def shortToLong (t : String) : Option String := (Gen.shortToLong.find? (·.1 == t)).map (·.2)

/-- result of loading a tagged scalar `!T txt`: either `{Long: "txt"}` or the plain string -/
inductive Tagged | wrapped (long : String) | asIs | panic
  deriving DecidableEq, Repr

def loadTaggedScalar (t : String) : Tagged :=
  if Gen.singleValueFuncRef.contains t || Gen.sequenceValueFuncRef.contains t then (match shortToLong t with | some l => .wrapped l | none => .panic) else .asIs

def loadTaggedSequence (t : String) : Tagged :=
  if Gen.sequenceValueFuncRef.contains t || Gen.singleValueFuncRef.contains t then (match shortToLong t with | some l => .wrapped l | none => .panic) else .asIs

/-- the serde path (`handle_tagged_value`, values.rs:463-473) consults the union of both sets -/
def loadTaggedSerde (t : String) : Tagged :=
  if Gen.singleValueFuncRef.contains t || Gen.sequenceValueFuncRef.contains t then
    (match shortToLong t with | some l => .wrapped l | none => .panic) else .asIs

/-- an untagged scalar event -/
def typeScalar (env : Env) (style : Style) (txt : Str) : Scalar :=
  if style ≠ .plain then .str txt else typePlain env txt

end Guard.Loader
