import Guard.Model.Basic
/-
  Guard.Model.Rulegen — `gen_rules` (rulegen.rs:94-176): resource type -> property name -> set of
  rendered values.  Rendering of a value (trim, newline removal, re-quoting of strings, JSON text of
  everything else) is an input of this model (`Resource.props` holds rendered values); the order in
  which the maps are printed is sorted since fix f746749 and is irrelevant to these theorems.
-/
namespace Guard.Rulegen

structure Resource where
  type : String
  props : List (String × String)       -- (property name, rendered value)
  deriving Repr

abbrev PropMap := List (String × List String)
abbrev RuleMap := List (String × PropMap)

def insertValue (v : String) (vs : List String) : List String := if vs.contains v then vs else vs ++ [v]

def insertProp (p v : String) : PropMap → PropMap
  | [] => [(p, [v])]
  | (q, vs) :: rest => if q == p then (q, insertValue v vs) :: rest else (q, vs) :: insertProp p v rest

def insertRule (t p v : String) : RuleMap → RuleMap
  | [] => [(t, [(p, [v])])]
  | (u, pm) :: rest => if u == t then (u, insertProp p v pm) :: rest else (u, pm) :: insertRule t p v rest

def addResource (m : RuleMap) (r : Resource) : RuleMap :=
  r.props.foldl (fun acc pv => insertRule r.type pv.1 pv.2 acc) m

/-- `gen_rules` -/
def genRules (rs : List Resource) : RuleMap := rs.foldl addResource []

def lookupProp (p : String) (pm : PropMap) : Option (List String) := (pm.find? (·.1 == p)).map (·.2)
def lookupRule (t : String) (m : RuleMap) : Option PropMap := (m.find? (·.1 == t)).map (·.2)

/-- the values recorded for (type, property) -/
def valuesOf (m : RuleMap) (t p : String) : List String :=
  match lookupRule t m with
  | some pm => (lookupProp p pm).getD []
  | none => []

end Guard.Rulegen
