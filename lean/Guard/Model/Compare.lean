import Guard.Model.Value
/-
  Guard.Model.Compare — `compare_values`, `compare_eq`, `compare_lt/le/gt/ge` and the
  `PartialEq for PathAwareValue` impl (path_value.rs:245-291, 1047-1192), `is_within`
  (values.rs:266-278).
-/
namespace Guard

/-- Outcome of handing a (regex, text) pair to `fancy_regex`. -/
inductive RegexResult | compileErr | matchErr | isMatch (b : Bool)
  deriving DecidableEq, Repr, Inhabited

/-- Third-party behaviour the model is parameterised over (DESIGN §2.3). -/
structure Env where
  /-- `fancy_regex::Regex::try_from(re)` followed by `is_match(text)`. -/
  regex : Str → Str → RegexResult
  /-- the seven `cruet` converters of `CONVERTERS`, by index -/
  caseConv : Nat → Str → Str
  f64Parse : Str → Option F64 := fun _ => none
  f64Show : F64 → Str := fun _ => []
  upper : Str → Str := id
  lower : Str → Str := id
  urlDecode : Str → Option Str := some
  regexReplace : Str → Str → Str → Option Str := fun _ _ _ => none
  jsonParse : Str → Option Plain := fun _ => none
  parseEpoch : Str → Option Int := fun _ => none
  now : Int := 0

def LOWER_INCLUSIVE : Nat := 1
def UPPER_INCLUSIVE : Nat := 2

/-- `is_within` (values.rs:266) for a key function into a linear order (`Int`). -/
def isWithinKey (lo hi x : Int) (incl : Nat) : Bool :=
  let lower := if incl % 2 == 1 then lo ≤ x else lo < x
  let upper := if incl / 2 % 2 == 1 then x ≤ hi else x < hi
  lower && upper

/-- `is_within` on floats: every comparison with a NaN operand is false. -/
def isWithinF64 (lo hi x : F64) (incl : Nat) : Bool :=
  if lo.isNaN || hi.isNaN || x.isNaN then false else isWithinKey lo.key hi.key x.key incl

def isWithinChar (lo hi x : Char) (incl : Nat) : Bool :=
  isWithinKey lo.toNat hi.toNat x.toNat incl

/-- `compare_values` (path_value.rs:1047-1068). -/
def compareValues (a b : PV) : Outcome Ordering :=
  match a, b with
  | .null _, .null _ => .ok .eq
  | .int _ i, .int _ j => .ok (compare i j)
  | .str _ s, .str _ t => .ok (Str.cmp s t)
  | .float _ x, .float _ y =>
    match F64.partialCmp x y with
    | some o => .ok o
    | none => .err .NotComparable
  | .char _ c, .char _ d => .ok (cmpChar c d)
  | _, _ => .err .NotComparable

def regexEq (env : Env) (re s : Str) : Outcome Bool :=
  match env.regex re s with
  | .compileErr => .err .RegexError
  | .matchErr => .err .RegexError
  | .isMatch b => .ok b

mutual
/-- `compare_eq` (path_value.rs:1071-1152). -/
def compareEq (env : Env) : PV → PV → Outcome Bool
  | .str _ s, .regex _ r => regexEq env r s
  | .regex _ r, .str _ s => regexEq env r s
  | .str _ s1, .str _ s2 => .ok (s1 == s2)
  | .map _ ks vs, .map _ ks2 vs2 =>
    if vs.length == vs2.length then compareEqMap env ks vs ks2 vs2 else .ok false
  | .list _ xs, .list _ ys =>
    if xs.length == ys.length then compareEqList env xs ys else .ok false
  | .bool _ b1, .bool _ b2 => .ok (b1 == b2)
  | .regex _ r, .regex _ s => .ok (r == s)
  | .int _ v, .rangeInt _ lo hi incl => .ok (isWithinKey lo hi v incl)
  | .float _ v, .rangeFloat _ lo hi incl => .ok (isWithinF64 lo hi v incl)
  | .char _ v, .rangeChar _ lo hi incl => .ok (isWithinChar lo hi v incl)
  | a, b =>
    match compareValues a b with
    | .ok o => .ok (o == .eq)
    | .err e => .err e
    | .panic s => .panic s
    | .outOfFuel => .outOfFuel
/-- the `for (key, value) in map.values.iter()` loop of the map case -/
def compareEqMap (env : Env) : List (Path × Str) → List PV → List (Path × Str) → List PV → Outcome Bool
  | (_, k) :: ks, v :: vs, ks2, vs2 =>
    match PV.lookupKV ks2 vs2 k with
    | some v2 =>
      match compareEq env v v2 with
      | .ok true => compareEqMap env ks vs ks2 vs2
      | r => r
    | none => .ok false
  | _, _, _, _ => .ok true
/-- the `zip` loop of the list case -/
def compareEqList (env : Env) : List PV → List PV → Outcome Bool
  | x :: xs, y :: ys =>
    match compareEq env x y with
    | .ok true => compareEqList env xs ys
    | r => r
  | _, _ => .ok true
end

def cmpWith (f : Ordering → Bool) (a b : PV) : Outcome Bool :=
  match compareValues a b with
  | .ok o => .ok (f o)
  | .err e => .err e
  | .panic s => .panic s
  | .outOfFuel => .outOfFuel

def compareLt := cmpWith (· == .lt)
def compareLe := cmpWith (· != .gt)
def compareGt := cmpWith (· == .gt)
def compareGe := cmpWith (· != .lt)

mutual
/-- `impl PartialEq for PathAwareValue` (path_value.rs:245-291), used by `Vec::contains`.
    `none` models the `is_match(..).unwrap()` panic. -/
def looseEq (env : Env) : PV → PV → Option Bool
  | .map _ ks vs, .map _ ks2 vs2 =>
    -- IndexMap equality: same length and every key maps to an equal value
    if vs.length == vs2.length then looseEqMap env ks vs ks2 vs2 else some false
  | .list _ xs, .list _ ys =>
    if xs.length == ys.length then looseEqList env xs ys else some false
  | .bool _ b1, .bool _ b2 => some (b1 == b2)
  | .str _ s, .regex _ r =>
    match env.regex r s with
    | .compileErr => some false | .matchErr => some false | .isMatch b => some b
  | .regex _ r, .str _ s =>
    match env.regex r s with
    | .compileErr => some false | .matchErr => some false | .isMatch b => some b
  | .regex _ r, .regex _ s => some (r == s)
  | .int _ v, .rangeInt _ lo hi incl => some (isWithinKey lo hi v incl)
  | .float _ v, .rangeFloat _ lo hi incl => some (isWithinF64 lo hi v incl)
  | .char _ v, .rangeChar _ lo hi incl => some (isWithinChar lo hi v incl)
  | a, b =>
    match compareValues a b with
    | .ok o => some (o == .eq)
    | _ => some false
def looseEqMap (env : Env) : List (Path × Str) → List PV → List (Path × Str) → List PV → Option Bool
  | (_, k) :: ks, v :: vs, ks2, vs2 =>
    match PV.lookupKV ks2 vs2 k with
    | some v2 =>
      match looseEq env v v2 with
      | some true => looseEqMap env ks vs ks2 vs2
      | r => r
    | none => some false
  | _, _, _, _ => some true
def looseEqList (env : Env) : List PV → List PV → Option Bool
  | x :: xs, y :: ys =>
    match looseEq env x y with
    | some true => looseEqList env xs ys
    | r => r
  | _, _ => some true
end

/-- `Vec::contains` with the `PartialEq` above; `none` = panic inside a comparison. -/
def looseContains (env : Env) : List PV → PV → Option Bool
  | [], _ => some false
  | y :: ys, x =>
    match looseEq env y x with
    | some true => some true
    | some false => looseContains env ys x
    | none => none

end Guard
