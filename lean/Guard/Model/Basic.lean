/-
  Guard.Model.Basic — strings, paths, IEEE-754 doubles as decoded triples, statuses, errors.
  No imports beyond core: the driver (`Main.lean`) links this as a compiled executable.
-/
namespace Guard

/-- Strings are lists of characters (proofs by list induction; the driver converts). -/
abbrev Str := List Char

def Str.ofString (s : String) : Str := s.toList
def Str.toString (s : Str) : String := String.ofList s

/-- Three-way comparison of characters by code point. -/
def cmpChar (a b : Char) : Ordering := compare a.toNat b.toNat

/-- Lexicographic comparison of strings by code point.  Rust compares `String`s bytewise on
    their UTF-8 encoding, which is the same order (UTF-8 preserves code-point order). -/
def Str.cmp : Str → Str → Ordering
  | [], [] => .eq
  | [], _ :: _ => .lt
  | _ :: _, [] => .gt
  | a :: as, b :: bs =>
    match cmpChar a b with
    | .eq => Str.cmp as bs
    | o => o

/-- `needle` is a prefix of `hay`. -/
def Str.isPrefixOf' : Str → Str → Bool
  | [], _ => true
  | _ :: _, [] => false
  | a :: as, b :: bs => a == b && Str.isPrefixOf' as bs

/-- Rust `str::contains(&str)`: `needle` occurs as a contiguous substring of `hay`. -/
def Str.contains' (hay needle : Str) : Bool :=
  match hay with
  | [] => needle.isEmpty
  | _ :: tl => Str.isPrefixOf' needle hay || Str.contains' tl needle

/-- A document path: slash-separated pointer plus the libyaml mark (0,0 for serde loaders). -/
structure Path where
  ptr : Str
  line : Nat := 0
  col : Nat := 0
  deriving DecidableEq, Repr, Inhabited

def Path.root : Path := { ptr := [] }
def Path.extendStr (p : Path) (part : Str) : Path := { p with ptr := p.ptr ++ '/' :: part }
def Path.extendNat (p : Path) (n : Nat) : Path := p.extendStr (toString n).toList

/-- IEEE-754 binary64 decoded into sign, biased exponent (0..2047) and mantissa (< 2^52). -/
structure F64 where
  neg : Bool
  exp : Nat
  man : Nat
  deriving DecidableEq, Repr, Inhabited

namespace F64
def WF (x : F64) : Prop := x.exp < 2048 ∧ x.man < 2 ^ 52
def isNaN (x : F64) : Bool := x.exp == 2047 && x.man != 0
/-- Magnitude as a natural number: monotone in the real value for non-NaN doubles. -/
def mag (x : F64) : Nat := x.exp * 2 ^ 52 + x.man
/-- Sign-magnitude key: `x < y` as reals iff `key x < key y` (both zeros map to 0). -/
def key (x : F64) : Int := if x.neg then - (x.mag : Int) else (x.mag : Int)
/-- Rust `f64::partial_cmp`. -/
def partialCmp (x y : F64) : Option Ordering :=
  if x.isNaN || y.isNaN then none else some (compare x.key y.key)
def ofBits (b : Nat) : F64 :=
  { neg := b / 2 ^ 63 % 2 == 1, exp := b / 2 ^ 52 % 2048, man := b % 2 ^ 52 }
def toBits (x : F64) : Nat := (if x.neg then 2 ^ 63 else 0) + x.exp * 2 ^ 52 + x.man
end F64

inductive Status | pass | fail | skip
  deriving DecidableEq, Repr, Inhabited

def Status.toStr : Status → String
  | .pass => "PASS" | .fail => "FAIL" | .skip => "SKIP"

/-- Variant names of `rules::errors::Error` that evaluation can raise. -/
inductive ErrKind
  | NotComparable | IncompatibleError | IncompatibleRetrievalError | RetrievalError
  | MissingValue | ParseError | RegexError | JsonError | YamlError | MultipleValues
  | InternalError | FileNotFound | IoError | IllegalArguments | Other
  deriving DecidableEq, Repr, Inhabited

def ErrKind.toStr : ErrKind → String
  | .NotComparable => "NotComparable" | .IncompatibleError => "IncompatibleError"
  | .IncompatibleRetrievalError => "IncompatibleRetrievalError" | .RetrievalError => "RetrievalError"
  | .MissingValue => "MissingValue" | .ParseError => "ParseError" | .RegexError => "RegexError"
  | .JsonError => "JsonError" | .YamlError => "YamlError" | .MultipleValues => "MultipleValues"
  | .InternalError => "InternalError" | .FileNotFound => "FileNotFoundError" | .IoError => "IoError"
  | .IllegalArguments => "IllegalArguments" | .Other => "Other"

/-- Sites in the modelled Rust functions at which the code would panic. -/
inductive PanicSite
  | matchValueUnreachable      -- operators.rs `match_value` `_ => unreachable!()`
  | listInNotList              -- operators.rs `Compare::ListIn` `_ => unreachable!()`
  | unaryOnBinary              -- eval.rs unary_operation `(Eq | Gt | ..) => unreachable!()`
  | clauseStatusSkip           -- eval.rs:1185 `Status::SKIP => unreachable!()`
  | emptyQuery                 -- eval.rs `lhs_query[lhs_query.len() - 1]` on an empty query
  | filterFirst                -- eval_context.rs `query[query_index - 1]` with index 0
  | functionArgIndex           -- eval_context.rs `args[1][0]` / `args[2][0]`
  | mapKeyFilterResult         -- eval_context.rs MapKeyFilter `_ => unreachable!()`
  | mapKeyMissing              -- `map.values.get(key).unwrap()`
  | regexUnwrap                -- path_value.rs PartialEq `is_match(..).unwrap()`
  | floatOfInt                 -- model only: the `Env` float oracle has no entry for an integer's decimal form (`i as f64` cannot fail)
  | other
  deriving DecidableEq, Repr, Inhabited

/-- Result of a model computation: a value, a Rust `Err`, a Rust panic, or fuel exhaustion. -/
inductive Outcome (α : Type)
  | ok (a : α)
  | err (e : ErrKind)
  | panic (site : PanicSite)
  | outOfFuel
  deriving Repr

namespace Outcome
@[inline] def bind {α β} (x : Outcome α) (f : α → Outcome β) : Outcome β :=
  match x with
  | .ok a => f a
  | .err e => .err e
  | .panic s => .panic s
  | .outOfFuel => .outOfFuel
instance : Monad Outcome where
  pure := .ok
  bind := bind
def isOk {α} : Outcome α → Bool | .ok _ => true | _ => false
end Outcome

end Guard
