import Guard.Model.Basic
import Guard.Gen.ExitCodes
/-
  Guard.Model.Cli — exit-code folds of `validate` (validate.rs:242-505, 552-596;
  reporters/validate/structured.rs:29-141; reporters/mod.rs:96-110; xml.rs:14-80), of `test`
  (test.rs:120-472, reporters/test/generic.rs, structured.rs) and of `main` (main.rs:34-44).
  The constants are the GENERATED ones (Guard/Gen/ExitCodes.lean), re-extracted from /repo on
  every run.
-/
namespace Guard.Cli
open Guard

/-- what happened to one rules file (one row of the pair matrix) -/
inductive RuleFile where
  | unreadable                      -- could not be read (e.g. not UTF-8)
  | parseError                      -- does not conform to the grammar
  | empty                           -- parses to no rules (`Ok(None)`)
  | evaluated (cols : List (Option Status))   -- per data file: file status, or `none` = evaluation error
  deriving Repr, Inhabited

inductive Mode | plain | structured | junit
  deriving DecidableEq, Repr, Inhabited

/-- result of `execute`: an exit code or `Err` (which `main` turns into exit(-1) = 255) -/
inductive Exec | code (c : Int) | error
  deriving DecidableEq, Repr, Inhabited

def SUCCESS := Gen.SUCCESS_STATUS_CODE
def FAILURE := Gen.FAILURE_STATUS_CODE
def PARSE_ERROR := Gen.ERROR_STATUS_CODE

def RuleFile.hasEvalError : RuleFile → Bool
  | .evaluated cols => cols.any Option.isNone
  | _ => false
def RuleFile.hasFail : RuleFile → Bool
  | .evaluated cols => cols.any (· == some .fail)
  | _ => false
def RuleFile.isUnreadable : RuleFile → Bool
  | .unreadable => true
  | _ => false
def RuleFile.isParseError : RuleFile → Bool
  | .parseError => true
  | _ => false
def RuleFile.parsed (f : RuleFile) : Bool := !f.isUnreadable && !f.isParseError

/-- plain mode (validate.rs:405-436 + `evaluate_rule`): per rules file in order; the exit code
    is the LAST non-zero per-file code; an evaluation error aborts with `Err`. -/
def plainFold : Int → List RuleFile → Exec
  | code, [] => .code code
  | code, f :: rest =>
    match f with
    | .unreadable => plainFold PARSE_ERROR rest
    | .parseError => plainFold PARSE_ERROR rest
    | .empty => plainFold code rest
    | .evaluated cols =>
      -- `evaluate_against_data_input`: data files in order, `?` on the first evaluation error
      if f.hasEvalError then .error
      else if cols.any (· == some .fail) then plainFold FAILURE rest
      else plainFold code rest

/-- structured json/yaml/sarif (structured.rs): unreadable ⇒ `Err`; parse error ⇒ code 5 and the
    file is dropped; any FAIL pair ⇒ 19 (overrides 5); evaluation error ⇒ `Err`. -/
def structuredExit (files : List RuleFile) : Exec :=
  if files.any RuleFile.isUnreadable then .error
  else if files.any RuleFile.hasEvalError then .error
  else if files.any RuleFile.hasFail then .code FAILURE
  else if files.any RuleFile.isParseError then .code PARSE_ERROR
  else .code SUCCESS

/-- `JunitReporter::update_exit_code` (reporters/mod.rs:96-110) -/
def updateExitCode (cur code : Int) : Int :=
  if code == PARSE_ERROR || (code == FAILURE && cur != PARSE_ERROR) then code else cur

/-- junit (xml.rs): like structured, but a parse error (5) is kept over a FAIL (19) -/
def junitExit (files : List RuleFile) : Exec :=
  if files.any RuleFile.isUnreadable then .error
  else if files.any RuleFile.hasEvalError then .error
  else
    let start := if files.any RuleFile.isParseError then PARSE_ERROR else SUCCESS
    if files.any RuleFile.hasFail then .code (updateExitCode start FAILURE) else .code start

def validateExit (m : Mode) (files : List RuleFile) : Exec :=
  match m with
  | .plain => plainFold SUCCESS files
  | .structured => structuredExit files
  | .junit => junitExit files

/-- `main`: `Ok(code) ⇒ exit(code)`, `Err ⇒ exit(-1)` -/
def mainExit : Exec → Int
  | .code c => c
  | .error => Gen.MAIN_ERROR_EXIT

/-! ### `cfn-guard test` -/

def T_OK := Gen.SUCCESS_STATUS_CODE
def T_ERR := Gen.TEST_ERROR_STATUS_CODE
def T_FAIL := Gen.TEST_FAILURE_STATUS_CODE

/-- one test data file of a `test` run -/
inductive TestFile where
  | unparsable                              -- neither YAML nor JSON list of test specs
  | specs (mismatch : List Bool)            -- per test case: does some expectation mismatch?
  deriving Repr, Inhabited

/-- `GenericReporter::report` (reporters/test/generic.rs:24-72): unparsable ⇒ 1; a test case with
    a mismatch ⇒ 7 (overwrites) -/
def genericFold : Int → List TestFile → Int
  | code, [] => code
  | _, .unparsable :: rest => genericFold T_ERR rest
  | code, .specs ms :: rest => genericFold (if ms.any id then T_FAIL else code) rest

/-- `TestResult::get_exit_code` for one rules file under the structured reporter: an unparsable
    test file ends the run of that rules file with an `Err` result (code 1) -/
def structuredTestCode : List TestFile → Int
  | [] => T_OK
  | .unparsable :: _ => T_ERR
  | .specs ms :: rest =>
    match structuredTestCode rest with
    | c => if c == T_ERR then T_ERR else if ms.any id then T_FAIL else c

/-- `get_exit_code` (test.rs:449-462): 1 is sticky over 7 -/
def mergeTestCode (cur code : Int) : Int :=
  if cur == T_OK then code
  else if cur == T_ERR then cur
  else if code == T_ERR then T_ERR else T_FAIL

/-- one rules file of a `test` run -/
inductive TestRules where
  | bad                                      -- unreadable or unparsable rules file
  | empty
  | ok (files : List TestFile)
  deriving Repr, Inhabited

/-- single rules file, plain and structured (test.rs:296-386) -/
def testSinglePlain : TestRules → Int
  | .bad => T_ERR
  | .empty => T_OK
  | .ok fs => genericFold T_OK fs
def testSingleStructured : TestRules → Int
  | .bad => T_ERR
  | .empty => T_OK
  | .ok fs => mergeTestCode T_OK (structuredTestCode fs)

/-- `--dir`, plain (test.rs:230-294): a parse error counts 7; the FIRST non-zero code wins -/
def testDirPlain : Int → List TestRules → Int
  | code, [] => code
  | code, .bad :: rest => testDirPlain T_FAIL rest   -- `exit_code = TEST_FAILURE_STATUS_CODE` (unconditional)
  | code, .empty :: rest => testDirPlain code rest
  | code, .ok fs :: rest =>
    let t := genericFold T_OK fs
    testDirPlain (if code == T_OK then t else code) rest

/-- `--dir`, structured (test.rs:388-447) -/
def testDirStructured : Int → List TestRules → Int
  | code, [] => code
  | _, .bad :: rest => testDirStructured T_ERR rest
  | code, .empty :: rest => testDirStructured code rest
  | code, .ok fs :: rest => testDirStructured (mergeTestCode code (structuredTestCode fs)) rest

end Guard.Cli
