import Guard.Model.Eval
/-
  Guard.Model.WF — the shape invariants of PARSER OUTPUT that the evaluator's `unreachable!()` / indexing sites rely
  on, as one decidable predicate on rules files.  It is evaluated by the driver on every AST the harness sends
  (`wf` field of the answer), so "the parser only produces well-formed files" is part of the correspondence.
-/
namespace Guard

/-- number of arguments the parser accepts for a built-in function (parser.rs / functions table) -/
def FunctionName.arity : FunctionName → Nat
  | .count | .jsonParse | .parseBoolean | .parseChar | .parseEpoch | .parseFloat | .parseInt | .parseString
  | .toLower | .toUpper | .urlDecode => 1
  | .join => 2
  | .regexReplace | .substring => 3
  | .now => 0

/-- a query never STARTS with a filter (`query[query_index - 1]` in the filter arm of `query_retrieval`) -/
def headOk : List QueryPart → Bool
  | .filter _ _ :: _ => false
  | _ => true

mutual
def QueryPart.wf : QueryPart → Bool
  | .filter _ cnf => wfCnf cnf
  | .mapKeyFilter _ op _ withV => !op.isUnary && withV.wf
  | _ => true
def LetValue.wf : LetValue → Bool
  | .value _ => true
  | .access parts _ => headOk parts && wfParts parts
  | .func name params => lenParams params == name.arity && wfParams params
def LetExpr.wf : LetExpr → Bool
  | .mk _ v => v.wf
def Clause.wf : Clause → Bool
  | .access _ q _ op _ withV _ =>
    headOk q && wfParts q && (if op.isUnary then !q.isEmpty else true) &&
    (match withV with | some v => v.wf | none => true)
  | .named _ _ _ => true
  | .call _ _ _ params => wfParams params
  | .block q _ _ lets cnf => headOk q && wfParts q && wfLets lets && wfCnf cnf
  | .whenBlock conds lets cnf => wfCnf conds && wfLets lets && wfCnf cnf
  | .typeBlock _ conds lets cnf q =>
    (match conds with | some c => wfCnf c | none => true) && wfLets lets && wfCnf cnf && headOk q && wfParts q
def wfParts : List QueryPart → Bool
  | [] => true
  | p :: ps => p.wf && wfParts ps
def lenParams : List LetValue → Nat
  | [] => 0
  | _ :: ps => lenParams ps + 1
def wfParams : List LetValue → Bool
  | [] => true
  | p :: ps => p.wf && wfParams ps
def wfLets : List LetExpr → Bool
  | [] => true
  | l :: ls => l.wf && wfLets ls
def wfLine : List Clause → Bool
  | [] => true
  | c :: cs => c.wf && wfLine cs
def wfCnf : List (List Clause) → Bool
  | [] => true
  | l :: ls => wfLine l && wfCnf ls
end

def wfQuery (q : List QueryPart) : Bool := headOk q && wfParts q

def Rule.wf (r : Rule) : Bool :=
  (match r.conds with | some c => wfCnf c | none => true) && wfLets r.lets && wfCnf r.cnf

def RulesFile.wf (f : RulesFile) : Bool :=
  wfLets f.lets && f.rules.all Rule.wf && f.prules.all (fun p => p.rule.wf)

end Guard
