import Guard.Model.Ops
/-
  Guard.Model.Functions — built-in functions (functions/*.rs) and their dispatch with argument
  indexing (`Callable for FunctionName`, eval_context.rs:1286-1470).
-/
namespace Guard

/-- number of bytes of the UTF-8 encoding of a character -/
def utf8Len (c : Char) : Nat :=
  let n := c.toNat
  if n < 0x80 then 1 else if n < 0x800 then 2 else if n < 0x10000 then 3 else 4

def Str.utf8Len (s : Str) : Nat := (s.map Guard.utf8Len).sum

/-- drop characters totalling exactly `n` bytes; `none` if `n` is not a character boundary -/
def Str.dropBytes : Str → Nat → Option Str
  | s, 0 => some s
  | [], _ + 1 => none
  | c :: cs, n + 1 => if Guard.utf8Len c ≤ n + 1 then Str.dropBytes cs (n + 1 - Guard.utf8Len c) else none

/-- take characters totalling exactly `n` bytes; `none` if `n` is not a character boundary -/
def Str.takeBytes : Str → Nat → Option Str
  | _, 0 => some []
  | [], _ + 1 => none
  | c :: cs, n + 1 =>
    if Guard.utf8Len c ≤ n + 1 then (Str.takeBytes cs (n + 1 - Guard.utf8Len c)).map (c :: ·) else none

/-- `substring` on one string (functions/strings.rs): byte offsets, both on char boundaries -/
def substringOne (s : Str) (from_ to : Nat) : Option Str :=
  let len := s.utf8Len
  if !s.isEmpty && from_ < to && from_ ≤ len && to ≤ len then
    match s.dropBytes from_ with
    | some rest => rest.takeBytes (to - from_)
    | none => none
  else none

def USIZE_MAX : Nat := 2 ^ 64 - 1

/-- `f64 as usize` (saturating; NaN ↦ 0) -/
def F64.toUsize (x : F64) : Nat :=
  if x.isNaN || x.neg then 0
  else if x.exp == 2047 then USIZE_MAX
  else if x.exp == 0 then 0   -- subnormals are < 1
  else
    let m := 2 ^ 52 + x.man
    let v := if x.exp ≥ 1075 then m * 2 ^ (x.exp - 1075) else m / 2 ^ (1075 - x.exp)
    if v > USIZE_MAX then USIZE_MAX else v

def I64_MAX : Int := 9223372036854775807
def I64_MIN : Int := -9223372036854775808

/-- `f64 as i64` (saturating, truncating; NaN ↦ 0) -/
def F64.toI64 (x : F64) : Int :=
  if x.isNaN then 0
  else
    let magN : Nat :=
      if x.exp == 2047 then 2 ^ 70
      else if x.exp == 0 then 0
      else
        let m := 2 ^ 52 + x.man
        if x.exp ≥ 1075 then m * 2 ^ (x.exp - 1075) else m / 2 ^ (1075 - x.exp)
    let v : Int := if x.neg then - (magN : Int) else (magN : Int)
    if v > I64_MAX then I64_MAX else if v < I64_MIN then I64_MIN else v

def offsetOf : QR → Option Nat
  | .literal v | .resolved v =>
    match v with
    | .int _ n => some (if 0 ≤ n then n.toNat else USIZE_MAX)
    | .float _ x => some x.toUsize
    | _ => none
  | .unresolved _ => none

/-- Rust `str::parse::<i64>()` -/
def parseI64 (s : Str) : Option Int :=
  let (neg, digits) := match s with
    | '-' :: r => (true, r)
    | '+' :: r => (false, r)
    | r => (false, r)
  if digits.isEmpty || !digits.all Char.isDigit then none
  else
    let n : Nat := digits.foldl (fun a c => a * 10 + (c.toNat - '0'.toNat)) 0
    let v : Int := if neg then - (n : Int) else (n : Int)
    if I64_MIN ≤ v ∧ v ≤ I64_MAX then some v else none

def showInt (i : Int) : Str := (toString i).toList

def digitOf (c : Char) : Option Nat := if c.isDigit then some (c.toNat - '0'.toNat) else none

/-- per-value map over the first argument; unresolved and unsupported values yield `none` -/
def perValue (f : PV → Outcome (Option PV)) : List QR → Outcome (List (Option PV))
  | [] => .ok []
  | q :: qs =>
    let here : Outcome (Option PV) := match q with
      | .literal v | .resolved v => f v
      | .unresolved _ => .ok none
    match here with
    | .ok h => match perValue f qs with
      | .ok t => .ok (h :: t)
      | e => e
    | .err e => .err e | .panic s => .panic s | .outOfFuel => .outOfFuel

def firstPath : List QR → Path
  | [] => Path.root
  | .literal v :: _ | .resolved v :: _ => v.path
  | .unresolved ur :: _ => ur.traversedTo.path

/-- `count` (functions/collections.rs) -/
def countFn (args : List QR) : PV :=
  .int (firstPath args) ((args.filter fun q => match q with | .unresolved _ => false | _ => true).length)

/-- `join` (functions/strings.rs:166-201) -/
def joinFn (args : List QR) (delim : Str) : Outcome PV :=
  let rec go : List QR → Outcome (List Str)
    | [] => .ok []
    | q :: qs =>
      match q with
      | .resolved (.str _ s) | .literal (.str _ s) =>
        match go qs with
        | .ok t => .ok (s :: t)
        | e => e
      | _ => .err .IncompatibleError
  match go args with
  | .ok ss => .ok (.str (firstPath args) (List.intercalate delim ss))
  | .err e => .err e | .panic s => .panic s | .outOfFuel => .outOfFuel

/-- `Callable for FunctionName` (eval_context.rs:1290-1470) -/
def callFunction (env : Env) (name : FunctionName) (args : List (List QR)) :
    Outcome (List (Option PV)) :=
  let arg (i : Nat) : Outcome (List QR) :=
    match args[i]? with | some a => .ok a | none => .panic .functionArgIndex
  -- `args[i].first()`: an argument whose result set is empty is an error like a wrong type (fix in
  -- eval_context.rs); a missing argument list cannot happen (the parser checks arities)
  let arg0 (i : Nat) : Outcome QR :=
    match args[i]? with
    | some (q :: _) => .ok q
    | some [] => .err .ParseError
    | none => .panic .functionArgIndex
  let strArg (i : Nat) : Outcome Str :=
    match arg0 i with
    | .ok (.resolved (.str _ s)) | .ok (.literal (.str _ s)) => .ok s
    | .ok _ => .err .ParseError
    | .err e => .err e | .panic s => .panic s | .outOfFuel => .outOfFuel
  match name with
  | .count => match arg 0 with
    | .ok a => .ok [some (countFn a)]
    | .err e => .err e | .panic s => .panic s | .outOfFuel => .outOfFuel
  | .now => .ok [some (.int Path.root env.now)]
  | .jsonParse => do
    let a ← arg 0
    perValue (fun v => match v with
      | .str p s => match env.jsonParse s with
        | some plain => .ok (some (PV.ofPlain plain p))
        | none => .err .YamlError
      | _ => .ok none) a
  | .regexReplace => do
    let re ← strArg 1
    let rep ← strArg 2
    let a ← arg 0
    perValue (fun v => match v with
      | .str p s => match env.regexReplace s re rep with
        | some r => .ok (some (.str p r))
        | none => .err .RegexError
      | _ => .ok none) a
  | .substring => do
    let f ← arg0 1
    let t ← arg0 2
    match offsetOf f, offsetOf t with
    | some from_, some to =>
      let a ← arg 0
      perValue (fun v => match v with
        | .str p s => .ok ((substringOne s from_ to).map (PV.str p))
        | _ => .ok none) a
    | _, _ => .err .ParseError
  | .toUpper => do
    let a ← arg 0
    perValue (fun v => match v with | .str p s => .ok (some (.str p (env.upper s))) | _ => .ok none) a
  | .toLower => do
    let a ← arg 0
    perValue (fun v => match v with | .str p s => .ok (some (.str p (env.lower s))) | _ => .ok none) a
  | .join => do
    let d ← arg0 1
    let delim : Outcome Str := match d with
      | .resolved (.str _ s) | .literal (.str _ s) => .ok s
      | .resolved (.char _ c) | .literal (.char _ c) => .ok [c]
      | _ => .err .ParseError
    let delim ← delim
    let a ← arg 0
    let r ← joinFn a delim
    pure [some r]
  | .urlDecode => do
    let a ← arg 0
    perValue (fun v => match v with
      | .str p s => .ok ((env.urlDecode s).map (PV.str p))
      | _ => .ok none) a
  | .parseInt => do
    let a ← arg 0
    perValue (fun v => match v with
      | .str p s => match parseI64 s with
        | some i => .ok (some (.int p i))
        | none => .err .ParseError
      | .int p i => .ok (some (.int p i))
      | .char p c => match digitOf c with
        | some d => .ok (some (.int p d))
        | none => .err .ParseError
      | .float p x => .ok (some (.int p x.toI64))
      | _ => .ok none) a
  | .parseFloat => do
    let a ← arg 0
    perValue (fun v => match v with
      | .str p s => match env.f64Parse s with
        | some x => .ok (some (.float p x))
        | none => .err .ParseError
      | .int p i => match env.f64Parse (showInt i) with     -- `i as f64` = correctly rounded decimal
        | some x => .ok (some (.float p x))
        | none => .panic .floatOfInt
      | .float p x => .ok (some (.float p x))
      | .char p c => match digitOf c with
        | some d => match env.f64Parse (showInt d) with
          | some x => .ok (some (.float p x))
          | none => .panic .floatOfInt
        | none => .err .ParseError
      | _ => .ok none) a
  | .parseString => do
    let a ← arg 0
    perValue (fun v => match v with
      | .int p i => .ok (some (.str p (showInt i)))
      | .float p x => .ok (some (.str p (env.f64Show x)))
      | .bool p b => .ok (some (.str p (if b then "true".toList else "false".toList)))
      | .str p s => .ok (some (.str p s))
      | .char p c => .ok (some (.str p [c]))
      | _ => .ok none) a
  | .parseBoolean => do
    let a ← arg 0
    perValue (fun v => match v with
      | .bool p b => .ok (some (.bool p b))
      | .str p s =>
        let l := env.lower s
        if l = "true".toList then .ok (some (.bool p true))
        else if l = "false".toList then .ok (some (.bool p false))
        else .err .ParseError
      | _ => .ok none) a
  | .parseChar => do
    let a ← arg 0
    perValue (fun v => match v with
      | .int p i =>
        if i < 0 || i > 9 then .err .ParseError
        else .ok (some (.char p (Char.ofNat ('0'.toNat + i.toNat))))
      | .str p s =>
        if s.utf8Len > 1 then .err .ParseError
        else match s with
          | c :: _ => .ok (some (.char p c))
          | [] => .ok none
      | .char p c => .ok (some (.str p [c]))
      | _ => .ok none) a
  | .parseEpoch => do
    let a ← arg 0
    perValue (fun v => match v with
      | .str p s => match env.parseEpoch s with
        | some t => .ok (some (.int p t))
        | none => .err .ParseError
      | _ => .ok none) a

end Guard
