import Guard.Model.Basic
/-
  Guard.Model.Value — `PathAwareValue` (path_value.rs:171-185) with `MapValue` flattened into
  two aligned lists (`keys[i]` is the key of `vals[i]`, like `keys: Vec<_>` / `values: IndexMap`).
-/
namespace Guard

inductive PV where
  | null (p : Path)
  | str (p : Path) (s : Str)
  | regex (p : Path) (s : Str)
  | bool (p : Path) (b : Bool)
  | int (p : Path) (i : Int)
  | float (p : Path) (f : F64)
  | char (p : Path) (c : Char)
  | list (p : Path) (xs : List PV)
  | map (p : Path) (keys : List (Path × Str)) (vals : List PV)
  | rangeInt (p : Path) (lo hi : Int) (incl : Nat)
  | rangeFloat (p : Path) (lo hi : F64) (incl : Nat)
  | rangeChar (p : Path) (lo hi : Char) (incl : Nat)
  deriving Repr, Inhabited

namespace PV

def path : PV → Path
  | null p | str p _ | regex p _ | bool p _ | int p _ | float p _ | char p _ | list p _
  | map p _ _ | rangeInt p _ _ _ | rangeFloat p _ _ _ | rangeChar p _ _ _ => p

def isList : PV → Bool | list _ _ => true | _ => false
def isMap : PV → Bool | map _ _ _ => true | _ => false
def isNull : PV → Bool | null _ => true | _ => false
def isScalar (v : PV) : Bool := !v.isList && !v.isMap

def typeInfo : PV → String
  | null _ => "null" | str _ _ => "String" | regex _ _ => "Regex" | bool _ _ => "bool"
  | int _ _ => "int" | float _ _ => "float" | char _ _ => "char" | list _ _ => "array"
  | map _ _ _ => "map" | rangeInt .. => "range(int, int)" | rangeFloat .. => "range(float, float)"
  | rangeChar .. => "range(char, char)"

/-- `map.values.get(key)`: first entry with that key (keys are unique in a well-formed map). -/
def lookupKV : List (Path × Str) → List PV → Str → Option PV
  | (_, k) :: ks, v :: vs, key => if k = key then some v else lookupKV ks vs key
  | _, _, _ => none

def mapGet (v : PV) (key : Str) : Option PV :=
  match v with
  | map _ ks vs => lookupKV ks vs key
  | _ => none

end PV

/-- Untyped ("plain") values as produced by the serde loaders, before paths are attached. -/
inductive Plain where
  | null | str (s : Str) | regex (s : Str) | bool (b : Bool) | int (i : Int) | float (f : F64)
  | char (c : Char)
  | list (xs : List Plain)
  | map (keys : List Str) (vals : List Plain)
  | rangeInt (lo hi : Int) (incl : Nat) | rangeFloat (lo hi : F64) (incl : Nat)
  | rangeChar (lo hi : Char) (incl : Nat)
  deriving Repr, Inhabited

mutual
/-- `TryFrom<(&Value, Path)> for PathAwareValue` (path_value.rs:359-405). -/
def PV.ofPlain : Plain → Path → PV
  | .null, p => .null p
  | .str s, p => .str p s
  | .regex s, p => .regex p s
  | .bool b, p => .bool p b
  | .int i, p => .int p i
  | .float f, p => .float p f
  | .char c, p => .char p c
  | .rangeInt lo hi i, p => .rangeInt p lo hi i
  | .rangeFloat lo hi i, p => .rangeFloat p lo hi i
  | .rangeChar lo hi i, p => .rangeChar p lo hi i
  | .list xs, p => .list p (PV.ofPlainList xs p 0)
  | .map ks vs, p => .map p (ks.map fun k => (p.extendStr k, k)) (PV.ofPlainVals ks vs p)
def PV.ofPlainList : List Plain → Path → Nat → List PV
  | [], _, _ => []
  | x :: xs, p, i => PV.ofPlain x (p.extendNat i) :: PV.ofPlainList xs p (i + 1)
def PV.ofPlainVals : List Str → List Plain → Path → List PV
  | k :: ks, v :: vs, p => PV.ofPlain v (p.extendStr k) :: PV.ofPlainVals ks vs p
  | _, _, _ => []
end

end Guard
