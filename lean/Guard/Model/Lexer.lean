import Guard.Model.Basic
/-
  Guard.Model.Lexer — the lexical layer of the nom grammar (parser.rs:110-240): white space and
  comments, quoted strings.  A `Str` is the remaining input; `none` = the combinator fails.
-/
namespace Guard.Lexer
open Guard

def isWs (c : Char) : Bool := c == ' ' || c == '\t' || c == '\n' || c == '\r'

/-- `multispace0` -/
def skipSpaces : Str → Str
  | [] => []
  | c :: cs => if isWs c then skipSpaces cs else c :: cs

/-- `take_till(|c| c == '\n')` -/
def skipToEol : Str → Str
  | [] => []
  | c :: cs => if c == '\n' then c :: cs else skipToEol cs

/-- `zero_or_more_ws_or_comment` = `many0(alt((multispace1, comment2)))`, with
    `comment2 = delimited('#', take_till('\n'), multispace0)`; fuel bounds the loop by the input length -/
def skipWsComments : Nat → Str → Str
  | 0, s => s
  | fuel + 1, s =>
    match s with
    | [] => []
    | c :: cs =>
      if isWs c then skipWsComments fuel (skipSpaces cs)
      else if c == '#' then skipWsComments fuel (skipSpaces (skipToEol cs))
      else c :: cs

/-- the body of `parse_string_inner(ch)` after the opening quote: characters up to the closing
    quote; a backslash directly before a quote escapes it (the backslash is dropped) -/
def stringBody (ch : Char) : Str → Option (Str × Str)
  | [] => none
  | [c] => if c == ch then some ([], []) else none
  | c :: d :: ds =>
    if c == ch then some ([], d :: ds)
    else if c == '\\' && d == ch then (stringBody ch ds).map fun (s, r) => (ch :: s, r)
    else (stringBody ch (d :: ds)).map fun (s, r) => (c :: s, r)

/-- `parse_string`: single- or double-quoted -/
def parseString : Str → Option (Str × Str)
  | '\'' :: rest => stringBody '\'' rest
  | '"' :: rest => stringBody '"' rest
  | _ => none

end Guard.Lexer
