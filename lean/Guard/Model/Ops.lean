import Guard.Model.Ast
/-
  Guard.Model.Ops — the comparison layer of eval/operators.rs (`selected`, `flattened`,
  `match_value`, `string_in`, `contained_in`, `CommonOperator`, `EqOperation`, `InOperation`,
  the `(CmpOperator, bool)` negation wrapper with `reverse_diff`).
-/
namespace Guard

structure UnResolved where
  traversedTo : PV
  remaining : Str
  deriving Repr, Inhabited

inductive QR where
  | literal (v : PV)
  | resolved (v : PV)
  | unresolved (ur : UnResolved)
  deriving Repr, Inhabited

def QR.isResolvedOnly : QR → Bool | .resolved _ => true | _ => false
def QR.value? : QR → Option PV
  | .literal v | .resolved v => some v
  | .unresolved _ => none

inductive Compare where
  | value (lhs rhs : PV)
  | queryIn (diff lhs rhs : List PV)
  | listIn (diff : List PV) (lhs rhs : PV)
  | valueIn (lhs rhs : PV)
  deriving Repr, Inhabited

inductive CmpResult where
  | success (c : Compare)
  | fail (c : Compare)
  | notComparable (lhs rhs : PV)
  | rhsUnresolved (ur : UnResolved) (lhs : PV)
  deriving Repr, Inhabited

inductive VER where
  | lhsUnresolved (ur : UnResolved)
  | cmp (r : CmpResult)
  deriving Repr, Inhabited

inductive EvalResult where
  | skip
  | result (rs : List VER)
  deriving Repr, Inhabited

/-- `selected` with `Vec::push`: resolved/literal values in order, and the unresolved ones. -/
def selectedVals : List QR → List PV
  | [] => []
  | .literal v :: qs => v :: selectedVals qs
  | .resolved v :: qs => v :: selectedVals qs
  | .unresolved _ :: qs => selectedVals qs
def unresolvedOf : List QR → List UnResolved
  | [] => []
  | .unresolved u :: qs => u :: unresolvedOf qs
  | _ :: qs => unresolvedOf qs

/-- `flattened`: list values are expanded one level. -/
def flattenedVals : List QR → List PV
  | [] => []
  | .unresolved _ :: qs => flattenedVals qs
  | .literal v :: qs | .resolved v :: qs =>
    match v with
    | .list _ xs => xs ++ flattenedVals qs
    | other => other :: flattenedVals qs

def verSuccess (l r : PV) : VER := .cmp (.success (.value l r))
def verFail (l r : PV) : VER := .cmp (.fail (.value l r))

/-- `match_value` (operators.rs:178-207): an error of the comparator (types that cannot be compared, a
    regex whose evaluation fails) makes the pair not comparable. -/
def matchValue (cmp : PV → PV → Outcome Bool) (l r : PV) : Outcome VER :=
  match cmp l r with
  | .ok true => .ok (verSuccess l r)
  | .ok false => .ok (verFail l r)
  | .err .NotComparable => .ok (.cmp (.notComparable l r))
  | .err _ => .ok (.cmp (.notComparable l r))
  | .panic s => .panic s
  | .outOfFuel => .outOfFuel

def isLiteral : List QR → Option PV
  | [.literal p] => some p
  | _ => none

/-- `string_in` (operators.rs:218-230). -/
def stringIn (l r : PV) : VER :=
  match l, r with
  | .str _ ls, .str _ rs => if Str.contains' rs ls then verSuccess l r else verFail l r
  | _, _ => .cmp (.notComparable l r)

def liftOpt {α} (o : Option α) : Outcome α :=
  match o with
  | some a => .ok a
  | none => .panic .regexUnwrap

/-- elements of `xs` that are NOT contained in `ys` (`filter(|e| !ys.contains(e))`) -/
def notContainedIn (env : Env) (ys : List PV) : List PV → Outcome (List PV)
  | [] => .ok []
  | x :: xs =>
    match liftOpt (looseContains env ys x) with
    | .ok b =>
      match notContainedIn env ys xs with
      | .ok rest => .ok (if b then rest else x :: rest)
      | e => e
    | .err e => .err e
    | .panic s => .panic s
    | .outOfFuel => .outOfFuel

/-- `contained_in` (operators.rs:256-321). -/
def containedIn (env : Env) (l r : PV) : Outcome VER :=
  match l with
  | .list _ lhsl =>
    match r with
    | .list _ rhsl =>
      if (match rhsl with | x :: _ => x.isList | [] => false) then
        match liftOpt (looseContains env rhsl l) with
        | .ok true => .ok (.cmp (.success (.listIn [] l r)))
        | .ok false => .ok (.cmp (.fail (.listIn lhsl l r)))
        | .err e => .err e | .panic s => .panic s | .outOfFuel => .outOfFuel
      else
        match notContainedIn env rhsl lhsl with
        | .ok diff =>
          if diff.isEmpty then .ok (.cmp (.success (.listIn diff l r)))
          else .ok (.cmp (.fail (.listIn diff l r)))
        | .err e => .err e | .panic s => .panic s | .outOfFuel => .outOfFuel
    | _ => .ok (.cmp (.notComparable l r))
  | rest =>
    match r with
    | .list _ rhsl =>
      match liftOpt (looseContains env rhsl rest) with
      | .ok true => .ok (.cmp (.success (.valueIn rest r)))
      | .ok false => .ok (.cmp (.fail (.valueIn rest r)))
      | .err e => .err e | .panic s => .panic s | .outOfFuel => .outOfFuel
    | rhsRest => matchValue (compareEq env) rest rhsRest

def mapMOutcome {α β} (f : α → Outcome β) : List α → Outcome (List β)
  | [] => .ok []
  | x :: xs =>
    match f x with
    | .ok y =>
      match mapMOutcome f xs with
      | .ok ys => .ok (y :: ys)
      | e => e
    | .err e => .err e
    | .panic s => .panic s
    | .outOfFuel => .outOfFuel

/-- `CommonOperator::compare` (operators.rs:146-176): both sides flattened, full cross product. -/
def commonCompare (cmp : PV → PV → Outcome Bool) (lhs rhs : List QR) : Outcome EvalResult :=
  let lhsFlat := flattenedVals lhs
  let rhsFlat := flattenedVals rhs
  let pre : List VER :=
    (unresolvedOf lhs).map VER.lhsUnresolved ++
    (unresolvedOf rhs).flatMap (fun ur => lhsFlat.map (fun l => VER.cmp (.rhsUnresolved ur l)))
  match mapMOutcome (fun l => mapMOutcome (fun r => matchValue cmp l r) rhsFlat) lhsFlat with
  | .ok rows => .ok (.result (pre ++ rows.flatten))
  | .err e => .err e | .panic s => .panic s | .outOfFuel => .outOfFuel

/-- the `'each_lhs` loop of `InOperation` (None, None): lhs values not contained in any rhs -/
def inDiff (env : Env) (rhsSel : List PV) : List PV → Outcome (List PV)
  | [] => .ok []
  | l :: ls =>
    let rec anySucc : List PV → Outcome Bool
      | [] => .ok false
      | r :: rs =>
        match containedIn env l r with
        | .ok (.cmp (.success _)) => .ok true
        | .ok _ => anySucc rs
        | .err e => .err e | .panic s => .panic s | .outOfFuel => .outOfFuel
    match anySucc rhsSel with
    | .ok found =>
      match inDiff env rhsSel ls with
      | .ok rest => .ok (if found then rest else l :: rest)
      | e => e
    | .err e => .err e | .panic s => .panic s | .outOfFuel => .outOfFuel

/-- one selected left-hand value against a literal right-hand side (`InOperation`, (None, Some(r))) -/
def inEachLit (env : Env) (r l : PV) : Outcome (List VER) :=
  match r with
  | .str _ _ =>
    match l with
    | .list _ lhsl => .ok (lhsl.map (fun e => stringIn e r))
    | rest => .ok [stringIn rest r]
  | rest =>
    match containedIn env l rest with
    | .ok v => .ok [v]
    | .err e => .err e | .panic s => .panic s | .outOfFuel => .outOfFuel

/-- `InOperation::compare` (operators.rs:323-451). -/
def inCompare (env : Env) (lhs rhs : List QR) : Outcome EvalResult :=
  match isLiteral lhs, isLiteral rhs with
  | some l, some r =>
    match stringIn l r with
    | .cmp (.success c) => .ok (.result [.cmp (.success c)])
    | _ =>
      match containedIn env l r with
      | .ok v => .ok (.result [v])
      | .err e => .err e | .panic s => .panic s | .outOfFuel => .outOfFuel
  | some l, none =>
    let pre : List VER := (unresolvedOf rhs).map (fun ur => VER.cmp (.rhsUnresolved ur l))
    let rhsSel := selectedVals rhs
    if rhsSel.any PV.isList then
      match mapMOutcome (fun r => containedIn env l r) rhsSel with
      | .ok vs => .ok (.result (pre ++ vs))
      | .err e => .err e | .panic s => .panic s | .outOfFuel => .outOfFuel
    else
      match l with
      | .list _ list =>
        match notContainedIn env rhsSel list with
        | .ok diff =>
          if diff.isEmpty then .ok (.result (pre ++ [.cmp (.success (.queryIn diff [l] rhsSel))]))
          else .ok (.result (pre ++ [.cmp (.fail (.queryIn diff [l] rhsSel))]))
        | .err e => .err e | .panic s => .panic s | .outOfFuel => .outOfFuel
      | _ =>
        match mapMOutcome (fun r => containedIn env l r) rhsSel with
        | .ok vs => .ok (.result (pre ++ vs))
        | .err e => .err e | .panic s => .panic s | .outOfFuel => .outOfFuel
  | none, some r =>
    let pre : List VER := (unresolvedOf lhs).map VER.lhsUnresolved
    match mapMOutcome (inEachLit env r) (selectedVals lhs) with
    | .ok vss => .ok (.result (pre ++ vss.flatten))
    | .err e => .err e | .panic s => .panic s | .outOfFuel => .outOfFuel
  | none, none =>
    let lhsSel := selectedVals lhs
    let rhsSel := selectedVals rhs
    let pre : List VER :=
      (unresolvedOf lhs).map VER.lhsUnresolved ++
      (unresolvedOf rhs).flatMap (fun ur => lhsSel.map (fun l => VER.cmp (.rhsUnresolved ur l)))
    match inDiff env rhsSel lhsSel with
    | .ok diff =>
      if diff.isEmpty then .ok (.result (pre ++ [.cmp (.success (.queryIn diff lhsSel rhsSel))]))
      else .ok (.result (pre ++ [.cmp (.fail (.queryIn diff lhsSel rhsSel))]))
    | .err e => .err e | .panic s => .panic s | .outOfFuel => .outOfFuel

/-- one `match_value` result as a one-element row -/
def mvRow (env : Env) (l r : PV) : Outcome (List VER) :=
  match matchValue (compareEq env) l r with
  | .ok v => .ok [v] | .err e => .err e | .panic s => .panic s | .outOfFuel => .outOfFuel

/-- a literal left-hand side against one selected right-hand value (`EqOperation`, (Some(l), None)) -/
def eqEachRhs (env : Env) (l r : PV) : Outcome (List VER) :=
  match l with
  | .list _ _ => mvRow env l r
  | single =>
    match r with
    | .list _ rhsl => mapMOutcome (fun e => matchValue (compareEq env) single e) rhsl
    | rest => mvRow env single rest

/-- one selected left-hand value against a literal right-hand side (`EqOperation`, (None, Some(r))) -/
def eqEachLhs (env : Env) (r l : PV) : Outcome (List VER) :=
  match r with
  | .list _ rhsl =>
    if l.isScalar && rhsl.length == 1 then
      match rhsl with
      | [r0] => mvRow env l r0
      | _ => .ok []
    else mvRow env l r
  | single =>
    match l with
    | .list _ lhsList => mapMOutcome (fun e => matchValue (compareEq env) e single) lhsList
    | _ => mvRow env l r

/-- `EqOperation::compare` (operators.rs:453-598). -/
def eqCompare (env : Env) (lhs rhs : List QR) : Outcome EvalResult :=
  let mv := matchValue (compareEq env)
  match isLiteral lhs, isLiteral rhs with
  | some l, some r =>
    match mv l r with
    | .ok v => .ok (.result [v])
    | .err e => .err e | .panic s => .panic s | .outOfFuel => .outOfFuel
  | some l, none =>
    let pre : List VER := (unresolvedOf rhs).map (fun ur => VER.cmp (.rhsUnresolved ur l))
    let rhsSel := selectedVals rhs
    match mapMOutcome (eqEachRhs env l) rhsSel with
    | .ok vss => .ok (.result (pre ++ vss.flatten))
    | .err e => .err e | .panic s => .panic s | .outOfFuel => .outOfFuel
  | none, some r =>
    let pre : List VER := (unresolvedOf lhs).map VER.lhsUnresolved
    let lhsSel := selectedVals lhs
    match mapMOutcome (eqEachLhs env r) lhsSel with
    | .ok vss => .ok (.result (pre ++ vss.flatten))
    | .err e => .err e | .panic s => .panic s | .outOfFuel => .outOfFuel
  | none, none =>
    let lhsSel := selectedVals lhs
    let rhsSel := selectedVals rhs
    let pre : List VER :=
      (unresolvedOf lhs).map VER.lhsUnresolved ++
      (unresolvedOf rhs).flatMap (fun ur => lhsSel.map (fun l => VER.cmp (.rhsUnresolved ur l)))
    let diffO :=
      if lhsSel.length > rhsSel.length then notContainedIn env rhsSel lhsSel
      else notContainedIn env lhsSel rhsSel
    match diffO with
    | .ok diff =>
      if diff.isEmpty then .ok (.result (pre ++ [.cmp (.success (.queryIn diff lhsSel rhsSel))]))
      else .ok (.result (pre ++ [.cmp (.fail (.queryIn diff lhsSel rhsSel))]))
    | .err e => .err e | .panic s => .panic s | .outOfFuel => .outOfFuel

/-- `impl Comparator for CmpOperator` (operators.rs:600-635). -/
def opCompare (env : Env) (op : CmpOp) (lhs rhs : List QR) : Outcome EvalResult :=
  if lhs.isEmpty || rhs.isEmpty then .ok .skip
  else match op with
  | .eq => eqCompare env lhs rhs
  | .in_ => inCompare env lhs rhs
  | .lt => commonCompare compareLt lhs rhs
  | .gt => commonCompare compareGt lhs rhs
  | .le => commonCompare compareLe lhs rhs
  | .ge => commonCompare compareGe lhs rhs
  | _ => .err .IncompatibleError

/-- `reverse_diff` (operators.rs:637-646): elements of `other` not contained in `diff`. -/
def reverseDiff (env : Env) (diff other : List PV) : Outcome (List PV) :=
  notContainedIn env diff other

/-- the negation arm of `impl Comparator for (CmpOperator, bool)` for one result -/
def flipVER (env : Env) (op : CmpOp) (lhsLen rhsLen : Nat) : VER → Outcome VER
  | .cmp (.fail c) =>
    match c with
    | .queryIn diff lhs rhs =>
      match (if rhsLen ≥ lhsLen && op == .eq then reverseDiff env diff rhs
             else reverseDiff env diff lhs) with
      | .ok rd =>
        if rd.isEmpty then .ok (.cmp (.success (.queryIn rd lhs rhs)))
        else .ok (.cmp (.fail (.queryIn rd lhs rhs)))
      | .err e => .err e | .panic s => .panic s | .outOfFuel => .outOfFuel
    | .listIn diff lhs rhs =>
      match lhs with
      | .list _ v =>
        match notContainedIn env diff v with
        | .ok rd =>
          if rd.isEmpty then .ok (.cmp (.success (.listIn rd lhs rhs)))
          else .ok (.cmp (.fail (.listIn rd lhs rhs)))
        | .err e => .err e | .panic s => .panic s | .outOfFuel => .outOfFuel
      | _ => .panic .listInNotList
    | rest => .ok (.cmp (.success rest))
  | .cmp (.success c) =>
    match c with
    | .queryIn _ lhs rhs => .ok (.cmp (.fail (.queryIn lhs lhs rhs)))
    | .listIn _ lhs rhs =>
      match lhs with
      | .list _ v => .ok (.cmp (.fail (.listIn v lhs rhs)))
      | _ => .panic .listInNotList
    | rest => .ok (.cmp (.fail rest))
  | rest => .ok rest

/-- `impl Comparator for (CmpOperator, bool)` (operators.rs:648-787). -/
def cmpCompare (env : Env) (op : CmpOp) (opNot : Bool) (lhs rhs : List QR) : Outcome EvalResult :=
  match opCompare env op lhs rhs with
  | .ok .skip => .ok .skip
  | .ok (.result rs) =>
    if opNot then
      match mapMOutcome (flipVER env op lhs.length rhs.length) rs with
      | .ok rs' => .ok (.result rs')
      | .err e => .err e | .panic s => .panic s | .outOfFuel => .outOfFuel
    else .ok (.result rs)
  | .err e => .err e | .panic s => .panic s | .outOfFuel => .outOfFuel

end Guard
