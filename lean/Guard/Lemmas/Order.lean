import Guard.Model.Compare
/-
  Helper lemmas about the three-way comparisons used by `compareValues`.
-/
namespace Guard

theorem compare_int_eq {i j : Int} : compare i j = .eq ↔ i = j := by
  simp [compare, compareOfLessAndEq]; split <;> simp_all <;> omega
theorem compare_int_lt {i j : Int} : compare i j = .lt ↔ i < j := by
  simp [compare, compareOfLessAndEq]; split <;> simp_all
theorem compare_int_gt {i j : Int} : compare i j = .gt ↔ j < i := by
  simp [compare, compareOfLessAndEq]; split <;> simp_all <;> omega

theorem compare_nat_eq {i j : Nat} : compare i j = .eq ↔ i = j := by
  simp [compare, compareOfLessAndEq]; split <;> simp_all <;> omega
theorem compare_nat_lt {i j : Nat} : compare i j = .lt ↔ i < j := by
  simp [compare, compareOfLessAndEq]; split <;> simp_all
theorem compare_nat_gt {i j : Nat} : compare i j = .gt ↔ j < i := by
  simp [compare, compareOfLessAndEq]; split <;> simp_all <;> omega

theorem compare_int_swap (i j : Int) : (compare i j).swap = compare j i := by
  rcases Int.lt_trichotomy i j with h | h | h
  · rw [compare_int_lt.mpr h, compare_int_gt.mpr h]; rfl
  · subst h; rw [compare_int_eq.mpr rfl]; rfl
  · rw [compare_int_gt.mpr h, compare_int_lt.mpr h]; rfl

theorem compare_nat_swap (i j : Nat) : (compare i j).swap = compare j i := by
  rcases Nat.lt_trichotomy i j with h | h | h
  · rw [compare_nat_lt.mpr h, compare_nat_gt.mpr h]; rfl
  · subst h; rw [compare_nat_eq.mpr rfl]; rfl
  · rw [compare_nat_gt.mpr h, compare_nat_lt.mpr h]; rfl

theorem cmpChar_eq {a b : Char} : cmpChar a b = .eq ↔ a = b := by
  unfold cmpChar; rw [compare_nat_eq]; exact Char.toNat_inj

theorem cmpChar_swap (a b : Char) : (cmpChar a b).swap = cmpChar b a := compare_nat_swap _ _

theorem Str.cmp_eq : ∀ {s t : Str}, Str.cmp s t = .eq ↔ s = t
  | [], [] => by simp [Str.cmp]
  | [], _ :: _ => by simp [Str.cmp]
  | _ :: _, [] => by simp [Str.cmp]
  | a :: as, b :: bs => by
    simp only [Str.cmp]
    cases h : cmpChar a b with
    | eq => simp only [List.cons.injEq]; rw [Str.cmp_eq (s := as) (t := bs)]; simp [cmpChar_eq.mp h]
    | lt =>
      simp only [List.cons.injEq]
      constructor
      · intro h'; cases h'
      · intro ⟨h1, _⟩; rw [cmpChar_eq.mpr h1] at h; cases h
    | gt =>
      simp only [List.cons.injEq]
      constructor
      · intro h'; cases h'
      · intro ⟨h1, _⟩; rw [cmpChar_eq.mpr h1] at h; cases h

theorem Str.cmp_swap : ∀ (s t : Str), (Str.cmp s t).swap = Str.cmp t s
  | [], [] => rfl
  | [], _ :: _ => rfl
  | _ :: _, [] => rfl
  | a :: as, b :: bs => by
    simp only [Str.cmp]
    have hs := cmpChar_swap a b
    cases h : cmpChar a b with
    | eq => rw [h] at hs; simp only [Ordering.swap] at hs; rw [← hs]; exact Str.cmp_swap as bs
    | lt => rw [h] at hs; simp only [Ordering.swap] at hs; rw [← hs]; rfl
    | gt => rw [h] at hs; simp only [Ordering.swap] at hs; rw [← hs]; rfl

end Guard
