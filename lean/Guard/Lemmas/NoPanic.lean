import Guard.Lemmas.FramesEval
import Guard.Lemmas.Records
import Guard.Lemmas.PureSites
import Guard.Model.WF
/-
  Guard.Lemmas.NoPanic — on well-formed (parser-shaped) rules files the evaluator model never reaches one of its
  `unreachable!()` / indexing / stack-shape panic sites.  `PN m` bundles, for an action `m`:
  it preserves the scope stack (`Pres`), it never changes the rules file (`FC`), and from a good state every panic
  it can raise is in the residue `Allowed` (`NPG`).
-/
set_option linter.unusedVariables false
set_option linter.unusedSimpArgs false
namespace Guard

/-- what is NOT excluded: `map.values.get(key).unwrap()` in the `keys` filter (guarded by the map representation
    invariant keys.len = values.len, which the model's `PV` does not carry) and the model-only float-oracle miss -/
def Allowed (s : PanicSite) : Prop := s = .mapKeyMissing ∨ s = .floatOfInt

/-- the scope stack ends in the root block scope -/
def Gd (fs : List Frame) : Prop := ∃ pre b, fs = pre ++ [Frame.block b]

def Frame.wf : Frame → Prop
  | .block b => (∀ n q a, (n, (q, a)) ∈ b.queries → wfQuery q = true) ∧
      (∀ n f ps, (n, (f, ps)) ∈ b.funs → (LetValue.func f ps).wf = true)
  | _ => True

def G (st : St) : Prop := Gd st.frames ∧ st.file.wf = true ∧ ∀ f ∈ st.frames, f.wf

def FC {α} (m : M α) : Prop := ∀ st a st', m st = .ok (a, st') → st'.file = st.file
def NPG {α} (m : M α) : Prop := ∀ st, G st → ∀ s, m st = .panic s → Allowed s
/-- from a good state: success keeps the scope stack and the rules file, a panic is in the residue -/
def PN {α} (m : M α) : Prop := ∀ st, G st →
  (∀ a st', m st = .ok (a, st') → FramesSim st.frames st'.frames ∧ st'.file = st.file) ∧
  (∀ s, m st = .panic s → Allowed s)

theorem PN.mk' {α} {m : M α} (hp : Pres m) (hf : FC m) (hn : NPG m) : PN m :=
  fun st hg => ⟨fun a st' h => ⟨hp st a st' h, hf st a st' h⟩, fun s h => hn st hg s h⟩

theorem M.bind_panic {α β} {x : M α} {f : α → M β} {st : St} {s : PanicSite}
    (h : (x >>= f) st = .panic s) : x st = .panic s ∨ ∃ a st₁, x st = .ok (a, st₁) ∧ f a st₁ = .panic s := by
  simp only [bind, StateT.bind] at h
  cases hx : x st with
  | ok p => obtain ⟨a, st₁⟩ := p; rw [hx] at h; exact Or.inr ⟨a, st₁, rfl, h⟩
  | err e => rw [hx] at h; cases h
  | panic s' => rw [hx] at h; cases h; exact Or.inl rfl
  | outOfFuel => rw [hx] at h; cases h

theorem Frame.wf_sim {f g : Frame} (h : f.sim g) (hf : f.wf) : g.wf := by
  cases f with
  | block b =>
    cases g with
    | block b' =>
      simp only [Frame.sim] at h
      obtain ⟨_, _, hq, hfu⟩ := h
      simp only [Frame.wf] at hf ⊢
      rw [← hq, ← hfu]; exact hf
    | value r => simp [Frame.sim] at h
    | params ps => simp [Frame.sim] at h
  | value r => cases g <;> simp_all [Frame.sim, Frame.wf]
  | params ps => cases g <;> simp_all [Frame.sim, Frame.wf]

theorem Gd_sim : ∀ {a b : List Frame}, FramesSim a b → Gd a → Gd b := by
  intro a b hs ⟨pre, blk, e⟩
  subst e
  induction pre generalizing b with
  | nil =>
    cases b with
    | nil => simp [FramesSim] at hs
    | cons g gs =>
      cases gs with
      | nil =>
        cases g with
        | block b' => exact ⟨[], b', rfl⟩
        | value r => simp [FramesSim, Frame.sim] at hs
        | params ps => simp [FramesSim, Frame.sim] at hs
      | cons g2 gs2 => simp [FramesSim] at hs
  | cons f pre ih =>
    cases b with
    | nil => simp [FramesSim] at hs
    | cons g gs =>
      obtain ⟨_, hs2⟩ := hs
      obtain ⟨pre', b', e⟩ := ih hs2
      exact ⟨g :: pre', b', by rw [e]; rfl⟩

theorem wf_sim : ∀ {a b : List Frame}, FramesSim a b → (∀ f ∈ a, f.wf) → ∀ g ∈ b, g.wf
  | [], [], _, _ => by intro g hg; cases hg
  | f :: fs, g :: gs, ⟨h1, h2⟩, hw => by
    intro x hx
    rcases List.mem_cons.mp hx with rfl | hx
    · exact Frame.wf_sim h1 (hw f (by simp))
    · exact wf_sim h2 (fun y hy => hw y (List.mem_cons_of_mem _ hy)) x hx
  | [], _ :: _, h, _ => by simp [FramesSim] at h
  | _ :: _, [], h, _ => by simp [FramesSim] at h

theorem G_step {st st' : St} (hs : FramesSim st.frames st'.frames) (hf : st'.file = st.file) (hg : G st) : G st' :=
  ⟨Gd_sim hs hg.1, by rw [hf]; exact hg.2.1, wf_sim hs hg.2.2⟩

/-! ### combinators -/

theorem pn_pure {α} (a : α) : PN (pure a : M α) :=
  PN.mk' (pres_pure a) (by intro st b st' h; obtain ⟨_, rfl⟩ := M.pure_ok h; rfl) (by intro st _ s h; cases h)

/-- bind, where the continuation may use that its argument was produced from a good state -/
theorem pn_bind_ev {α β} {m : M α} {f : α → M β} (hm : PN m)
    (hf : ∀ a, (∃ st s1, G st ∧ m st = .ok (a, s1)) → PN (f a)) : PN (m >>= f) := by
  intro st hg
  obtain ⟨hmo, hmp⟩ := hm st hg
  constructor
  · intro b st' h
    obtain ⟨a, s1, h1, h2⟩ := M.bind_ok h
    obtain ⟨hs1, hf1⟩ := hmo a s1 h1
    obtain ⟨hs2, hf2⟩ := (hf a ⟨st, s1, hg, h1⟩ s1 (G_step hs1 hf1 hg)).1 b st' h2
    exact ⟨FramesSim.trans hs1 hs2, by rw [hf2, hf1]⟩
  · intro s h
    rcases M.bind_panic h with h | ⟨a, s1, h1, h2⟩
    · exact hmp s h
    · obtain ⟨hs1, hf1⟩ := hmo a s1 h1
      exact (hf a ⟨st, s1, hg, h1⟩ s1 (G_step hs1 hf1 hg)).2 s h2

theorem pn_bind {α β} {m : M α} {f : α → M β} (hm : PN m) (hf : ∀ a, PN (f a)) : PN (m >>= f) :=
  pn_bind_ev hm (fun a _ => hf a)

theorem pn_throwErr {α} (e : ErrKind) : PN (throwErr e : M α) :=
  PN.mk' (pres_throwErr e) (by intro st a st' h; cases h) (by intro st _ s h; cases h)
theorem pn_outOfFuel {α} : PN (outOfFuel : M α) :=
  PN.mk' pres_outOfFuel (by intro st a st' h; cases h) (by intro st _ s h; cases h)
theorem pn_throwPanic {α} (s : PanicSite) (hs : Allowed s) : PN (throwPanic s : M α) :=
  PN.mk' (pres_throwPanic s) (by intro st a st' h; cases h) (by intro st _ s' h; cases h; exact hs)

theorem pn_liftO {α} (o : Outcome α) (ho : ∀ s, o = .panic s → Allowed s) : PN (liftO o) := by
  refine PN.mk' (pres_liftO o) ?_ ?_
  · intro st a st' h; unfold liftO at h; cases o <;> simp at h; rw [h.2]
  · intro st _ s h; unfold liftO at h; cases o <;> simp at h; subst h; exact ho _ rfl

theorem pn_get : PN (get : M St) :=
  PN.mk' pres_get (by intro st a st' h; cases h; rfl) (by intro st _ s h; cases h)

theorem pn_modify {f : St → St} (hf : ∀ st, FramesSim st.frames (f st).frames) (hfile : ∀ st, (f st).file = st.file) :
    PN (modify f : M Unit) :=
  PN.mk' (pres_modify hf) (by intro st a st' h; cases h; exact hfile st) (by intro st _ s h; cases h)

theorem pn_emit (k : RecKind) : PN (emit k) := pn_modify (fun st => FramesSim.refl _) (fun st => rfl)

theorem pn_withRec {α} {mk : α → RecKind} {m : M α} (hm : PN m) : PN (withRec mk m) := by
  intro st hg
  have hg' : G { st with recs := [] } := hg
  obtain ⟨hmo, hmp⟩ := hm { st with recs := [] } hg'
  constructor
  · intro a st' h
    unfold withRec at h
    cases hb : m { st with recs := [] } with
    | ok p =>
      obtain ⟨a', s1⟩ := p; rw [hb] at h; cases h
      exact hmo _ s1 hb
    | err e => rw [hb] at h; cases h
    | panic s => rw [hb] at h; cases h
    | outOfFuel => rw [hb] at h; cases h
  · intro s h
    unfold withRec at h
    cases hb : m { st with recs := [] } with
    | ok p => rw [hb] at h; cases h
    | err e => rw [hb] at h; cases h
    | panic s' => rw [hb] at h; cases h; exact hmp _ hb
    | outOfFuel => rw [hb] at h; cases h

theorem pushFrame_ok (f : Frame) (st : St) : pushFrame f st = .ok ((), { st with frames := f :: st.frames }) := rfl
theorem popFrame_ok (st : St) : popFrame st = .ok ((), { st with frames := st.frames.tail }) := rfl

theorem Gd_cons {f : Frame} {fs : List Frame} (h : Gd fs) : Gd (f :: fs) := by
  obtain ⟨pre, b, e⟩ := h; exact ⟨f :: pre, b, by rw [e]; rfl⟩

theorem G_push {st : St} {f : Frame} (hfw : f.wf) (hg : G st) : G { st with frames := f :: st.frames } :=
  ⟨Gd_cons hg.1, hg.2.1, by
    intro x hx
    rcases List.mem_cons.mp hx with rfl | hx
    · exact hfw
    · exact hg.2.2 x hx⟩

theorem pn_pushPop {α} {f : Frame} {m : M α} (hfw : f.wf) (hm : PN m) :
    PN (do pushFrame f; let r ← m; popFrame; pure r) := by
  intro st hg
  obtain ⟨hmo, hmp⟩ := hm { st with frames := f :: st.frames } (G_push hfw hg)
  constructor
  · intro a st' h
    obtain ⟨_, s1, h1, h2⟩ := M.bind_ok h
    obtain ⟨r, s2, h3, h4⟩ := M.bind_ok h2
    obtain ⟨_, s3, h5, h6⟩ := M.bind_ok h4
    obtain ⟨_, e3⟩ := M.pure_ok h6
    rw [pushFrame_ok] at h1; cases h1
    rw [popFrame_ok] at h5; cases h5
    rw [e3]
    obtain ⟨hs, hfl⟩ := hmo r s2 h3
    exact ⟨FramesSim.tail hs, hfl⟩
  · intro s h
    rcases M.bind_panic h with h | ⟨_, s1, h1, h2⟩
    · rw [pushFrame_ok] at h; cases h
    · rw [pushFrame_ok] at h1; cases h1
      rcases M.bind_panic h2 with h | ⟨r, s2, h3, h4⟩
      · exact hmp s h
      · rcases M.bind_panic h4 with h | ⟨_, s3, h5, h6⟩
        · rw [popFrame_ok] at h; cases h
        · cases h6

theorem pn_withValueScope {α} {root : PV} {m : M α} (hm : PN m) : PN (withValueScope root m) :=
  pn_pushPop (f := .value root) trivial hm

theorem pn_pushPopK {α β} {f : Frame} {m : M α} {k : α → M β} (hfw : f.wf) (hm : PN m) (hk : ∀ a, PN (k a)) :
    PN (do pushFrame f; let r ← m; popFrame; k r) := by
  have h1 := pn_pushPop hfw hm
  have e : (do pushFrame f; let r ← m; popFrame; k r) = ((do pushFrame f; let r ← m; popFrame; pure r) >>= k) := by
    simp only [bind_assoc, pure_bind]
  rw [e]
  exact pn_bind h1 hk

theorem pn_mapM {α β} {f : α → M β} : ∀ (l : List α), (∀ a ∈ l, PN (f a)) → PN (l.mapM f)
  | [], _ => by rw [List.mapM_nil]; exact pn_pure _
  | a :: l, hf => by
    rw [List.mapM_cons]
    exact pn_bind (hf a (by simp)) fun b => pn_bind (pn_mapM l fun x hx => hf x (List.mem_cons_of_mem _ hx)) fun bs => pn_pure _

theorem pn_filterMapM {α β} {f : α → M (Option β)} (hf : ∀ a, PN (f a)) : ∀ (l : List α), PN (l.filterMapM f)
  | [] => by rw [List.filterMapM_nil]; exact pn_pure _
  | a :: l => by
    rw [List.filterMapM_cons]
    refine pn_bind (hf a) fun b => ?_
    cases b with
    | none => exact pn_filterMapM hf l
    | some b => exact pn_bind (pn_filterMapM hf l) fun bs => pn_pure _

theorem pn_forIn {α β} {f : α → β → M (ForInStep β)} (hf : ∀ a b, PN (f a b)) :
    ∀ (l : List α) (b : β), PN (forIn l b f)
  | [], b => by rw [List.forIn_nil]; exact pn_pure _
  | a :: l, b => by
    rw [List.forIn_cons]
    refine pn_bind (hf a b) fun r => ?_
    cases r with
    | done b => exact pn_pure _
    | yield b => exact pn_forIn hf l b

theorem rootOf_Gd : ∀ {fs : List Frame}, Gd fs → ∃ r, rootOfFrames fs = some r := by
  intro fs ⟨pre, b, e⟩
  subst e
  induction pre with
  | nil => exact ⟨b.root, rfl⟩
  | cons f pre ih =>
    cases f with
    | block b' => exact ⟨b'.root, rfl⟩
    | value r => exact ⟨r, rfl⟩
    | params ps => exact ih

/-- `resolver.root()` never fails: the stack always ends in the root scope -/
theorem pn_currentRoot : PN currentRoot := by
  refine PN.mk' pres_currentRoot ?_ ?_
  · intro st a st' h
    unfold currentRoot at h
    split at h
    · cases h; rfl
    · cases h
  · intro st hg s h
    unfold currentRoot at h
    obtain ⟨r, hr⟩ := rootOf_Gd hg.1
    rw [hr] at h; cases h

theorem pn_addCaptureKey (name : Str) (key : PV) : PN (addCaptureKey name key) := by
  refine PN.mk' (pres_addCaptureKey name key) ?_ ?_
  · intro st a st' h
    unfold addCaptureKey at h
    cases h
    show (match st.frames.reverse with
      | Frame.block b :: innerRev => _
      | _ => st).file = st.file
    cases st.frames.reverse with
    | nil => rfl
    | cons f rest => cases f <;> rfl
  · intro st _ s h; cases h


/-! ### well-formedness bookkeeping -/

theorem alLookup_mem {β} {k : Str} {v : β} : ∀ {l : List (Str × β)}, alLookup k l = some v → (k, v) ∈ l
  | [], h => by simp [alLookup] at h
  | (k', v') :: rest, h => by
    unfold alLookup at h
    split at h
    · rename_i hk; cases h; rw [hk]; simp
    · exact List.mem_cons_of_mem _ (alLookup_mem h)

theorem alInsert_mem {β} {k : Str} {v : β} {x : Str × β} : ∀ {l : List (Str × β)}, x ∈ alInsert k v l → x = (k, v) ∨ x ∈ l
  | [], h => by simp [alInsert] at h; exact Or.inl h
  | (k', v') :: rest, h => by
    unfold alInsert at h
    split at h
    · rcases List.mem_cons.mp h with h | h
      · exact Or.inl h
      · exact Or.inr (List.mem_cons_of_mem _ h)
    · rcases List.mem_cons.mp h with h | h
      · exact Or.inr (by rw [h]; simp)
      · rcases alInsert_mem h with h | h
        · exact Or.inl h
        · exact Or.inr (List.mem_cons_of_mem _ h)

theorem wfLets_mem : ∀ {lets : List LetExpr}, wfLets lets = true → ∀ l ∈ lets, l.wf = true
  | [], _, l, hl => by cases hl
  | x :: xs, h, l, hl => by
    simp only [wfLets, Bool.and_eq_true] at h
    rcases List.mem_cons.mp hl with rfl | hl
    · exact h.1
    · exact wfLets_mem h.2 l hl

/-- the block frame built from well-formed `let`s is well formed -/
theorem extractVariables_wf (lets : List LetExpr) (root : PV) (h : wfLets lets = true) :
    (Frame.block (extractVariables lets root)).wf := by
  unfold extractVariables
  have key : ∀ (ls : List LetExpr) (b : BlockFrame), (∀ l ∈ ls, l.wf = true) → (Frame.block b).wf →
      (Frame.block (ls.foldl (fun b l =>
        match l.value with
        | .value v => { b with lits := alInsert l.var v b.lits }
        | .access q a => { b with queries := alInsert l.var (q, a) b.queries }
        | .func n ps => { b with funs := alInsert l.var (n, ps) b.funs }) b)).wf := by
    intro ls
    induction ls with
    | nil => intro b _ hb; exact hb
    | cons l ls ih =>
      intro b hl hb
      rw [List.foldl_cons]
      apply ih _ (fun x hx => hl x (List.mem_cons_of_mem _ hx))
      have hlw := hl l (by simp)
      obtain ⟨var, value⟩ := l
      simp only [LetExpr.value, LetExpr.var]
      simp only [LetExpr.wf] at hlw
      cases value with
      | value v => exact hb
      | access q a =>
        simp only [Frame.wf] at hb ⊢
        refine ⟨?_, hb.2⟩
        intro n q' a' hm
        rcases alInsert_mem hm with h | h
        · cases h
          simp only [LetValue.wf] at hlw
          exact hlw
        · exact hb.1 n q' a' h
      | func fn ps =>
        simp only [Frame.wf] at hb ⊢
        refine ⟨hb.1, ?_⟩
        intro n f' ps' hm
        rcases alInsert_mem hm with h | h
        · cases h; exact hlw
        · exact hb.2 n f' ps' h
  exact key lets _ (wfLets_mem h) ⟨(by intro n q a hm; cases hm), (by intro n f ps hm; cases hm)⟩

theorem wfParts_get : ∀ {query : List QueryPart} {qi : Nat} {part : QueryPart}, wfParts query = true → query[qi]? = some part → part.wf = true
  | [], qi, part, _, h => by simp at h
  | p :: ps, 0, part, hw, h => by
    simp only [wfParts, Bool.and_eq_true] at hw
    simp at h; rw [← h]; exact hw.1
  | p :: ps, qi + 1, part, hw, h => by
    simp only [wfParts, Bool.and_eq_true] at hw
    simp at h
    exact wfParts_get hw.2 h

theorem headOk_not_filter {query : List QueryPart} {name : Option Str} {cnf : Cnf} (h : headOk query = true)
    (hq : query[0]? = some (.filter name cnf)) : False := by
  cases query with
  | nil => simp at hq
  | cons p ps => simp at hq; subst hq; simp [headOk] at h

theorem wfParams_mem : ∀ {ps : List LetValue}, wfParams ps = true → ∀ p ∈ ps, p.wf = true
  | [], _, p, hp => by cases hp
  | x :: xs, h, p, hp => by
    simp only [wfParams, Bool.and_eq_true] at h
    rcases List.mem_cons.mp hp with rfl | hp
    · exact h.1
    · exact wfParams_mem h.2 p hp

theorem lenParams_eq : ∀ (ps : List LetValue), lenParams ps = ps.length
  | [] => rfl
  | _ :: ps => by simp [lenParams, lenParams_eq ps]

theorem wfLine_mem : ∀ {l : List Clause}, wfLine l = true → ∀ c ∈ l, c.wf = true
  | [], _, c, hc => by cases hc
  | x :: xs, h, c, hc => by
    simp only [wfLine, Bool.and_eq_true] at h
    rcases List.mem_cons.mp hc with rfl | hc
    · exact h.1
    · exact wfLine_mem h.2 c hc

theorem wfCnf_mem : ∀ {c : Cnf}, wfCnf c = true → ∀ l ∈ c, wfLine l = true
  | [], _, l, hl => by cases hl
  | x :: xs, h, l, hl => by
    simp only [wfCnf, Bool.and_eq_true] at h
    rcases List.mem_cons.mp hl with rfl | hl
    · exact h.1
    · exact wfCnf_mem h.2 l hl


/-! ### the evaluator -/

theorem pn_accumulateMap {parent : PV} {ks : List (Path × Str)} {vs : List PV} {qi : Nat} {query : List QueryPart}
    {func : PV → PV → M (List QR)} (hf : ∀ k v, PN (func k v)) : PN (accumulateMap parent ks vs qi query func) := by
  unfold accumulateMap
  split
  · exact pn_pure _
  · refine pn_bind (pn_mapM _ (fun x _ => ?_)) (fun _ => pn_pure _)
    obtain ⟨⟨p, k⟩, each⟩ := x
    exact pn_withValueScope (hf _ _)

theorem pn_realBinaryOperation (env : Env) (lhs rhs : List QR) (op : CmpOp) (hop : op.isUnary = false) (opNot : Bool)
    (msg : Option Str) : PN (realBinaryOperation env lhs rhs op opNot msg) := by
  unfold realBinaryOperation
  have hop' : (if op == .eq && rhs.length > 1 then CmpOp.in_ else op).isUnary = false := by
    split
    · rfl
    · exact hop
  refine pn_bind (pn_liftO _ ?_) (fun rows => pn_bind (pn_forIn (fun x _ => ?_) _ _) (fun _ => pn_pure _))
  · intro s h
    exact absurd h (mapMOutcome_np (fun each => realBinaryOne_np env _ hop' opNot msg rhs each) lhs s)
  · obtain ⟨k, _, _⟩ := x
    exact pn_bind (pn_emit k) (fun _ => pn_pure _)

theorem pn_findParamRule (name : Str) : PN (findParamRule name) := by
  unfold findParamRule
  refine pn_bind pn_get (fun st => ?_)
  split
  · exact pn_pure _
  · exact pn_throwErr _

theorem pn_rulesNamed (name : Str) : PN (rulesNamed name) := by
  unfold rulesNamed
  exact pn_bind pn_get (fun st => pn_pure _)

structure AllPN (env : Env) (fuel : Nat) : Prop where
  qr : ∀ qi query current conv, wfParts query = true → (qi = 0 → headOk query = true) →
    PN (queryRetrieval env fuel qi query current conv)
  acc : ∀ parent qi query elements conv, wfParts query = true → PN (accumulate env fuel parent qi query elements conv)
  cad : ∀ cnf name index query key value conv, wfCnf cnf = true → wfParts query = true → index ≠ 0 →
    PN (checkAndDelegate env fuel cnf name index query key value conv)
  qctx : ∀ q, wfQuery q = true → PN (queryCtx env fuel q)
  rvar : ∀ name, PN (resolveVariable env fuel name)
  rfun : ∀ name params, (LetValue.func name params).wf = true → PN (resolveFunction env fuel name params)
  cnf : ∀ c, wfCnf c = true → PN (evalCnf env fuel c)
  line : ∀ l, wfLine l = true → PN (evalLine env fuel l)
  alts : ∀ l, wfLine l = true → PN (evalAlternatives env fuel l)
  clause : ∀ c, c.wf = true → PN (evalClause env fuel c)
  block : ∀ lets c, wfLets lets = true → wfCnf c = true → PN (evalGeneralBlock env fuel lets c)
  unary : ∀ q op opNot inverse msg, wfQuery q = true → q.isEmpty = false → op.isUnary = true →
    PN (unaryOperation env fuel q op opNot inverse msg)
  binary : ∀ q rhs op opNot msg, wfQuery q = true → PN (binaryOperation env fuel q rhs op opNot msg)
  pcall : ∀ rule neg msg params, wfParams params = true → PN (evalParamCall env fuel rule neg msg params)
  rstat : ∀ name, PN (ruleStatus env fuel name)
  fns : ∀ rules, (∀ r ∈ rules, r.wf = true) → PN (firstNonSkip env fuel rules)
  rule : ∀ r, r.wf = true → PN (evalRule env fuel r)

theorem allPN_zero (env : Env) : AllPN env 0 := by
  constructor
  all_goals intros
  all_goals first
    | (simp only [queryRetrieval, accumulate, checkAndDelegate, queryCtx, resolveVariable, resolveFunction, evalCnf, evalLine,
        evalClause, evalGeneralBlock, unaryOperation, binaryOperation, evalParamCall, ruleStatus, evalRule]; exact pn_outOfFuel)
    | skip
  · rename_i l _; cases l <;> simp only [evalAlternatives] <;> first | exact pn_pure _ | exact pn_outOfFuel
  · rename_i l _; cases l <;> simp only [firstNonSkip] <;> first | exact pn_pure _ | exact pn_outOfFuel

syntax "pn_step" : tactic
macro_rules
  | `(tactic| pn_step) => `(tactic| first
      | apply pn_pure | apply pn_throwErr | apply pn_outOfFuel
      | apply pn_emit | apply pn_get | apply pn_currentRoot | apply pn_addCaptureKey
      | apply pn_withRec | apply pn_withValueScope
      | (refine pn_accumulateMap (fun _ _ => ?_))
      | (refine pn_filterMapM (fun _ => ?_) _) | (refine pn_forIn (fun _ _ => ?_) _ _)
      | (refine pn_bind ?_ (fun _ => ?_))
      | split)


theorem pn_acc (env : Env) (fuel : Nat) (ih : AllPN env fuel) (parent qi query elements conv) (hw : wfParts query = true) :
    PN (accumulate env (fuel + 1) parent qi query elements conv) := by
  simp only [accumulate]
  split
  · exact pn_pure _
  · exact pn_bind (pn_mapM _ (fun each _ => ih.qr (qi + 1) query each conv hw (by intro h; omega))) (fun _ => pn_pure _)

theorem pn_cad (env : Env) (fuel : Nat) (ih : AllPN env fuel) (cnf name index query key value conv)
    (hc : wfCnf cnf = true) (hw : wfParts query = true) (hi : index ≠ 0) :
    PN (checkAndDelegate env (fuel + 1) cnf name index query key value conv) := by
  simp only [checkAndDelegate]
  repeat (any_goals (first
    | exact ih.cnf cnf hc
    | exact ih.qr index query value conv hw (fun h => absurd h hi)
    | pn_step))

theorem pn_qctx (env : Env) (fuel : Nat) (ih : AllPN env fuel) (q) (hq : wfQuery q = true) : PN (queryCtx env (fuel + 1) q) := by
  simp only [queryCtx]
  simp only [wfQuery, Bool.and_eq_true] at hq
  exact pn_bind pn_currentRoot (fun root => ih.qr 0 q root none hq.2 (fun _ => hq.1))

theorem pn_cnf (env : Env) (fuel : Nat) (ih : AllPN env fuel) (c : Cnf) (hc : wfCnf c = true) : PN (evalCnf env (fuel + 1) c) := by
  simp only [evalCnf]
  refine pn_bind (pn_mapM _ (fun line hl => ?_)) (fun _ => pn_pure _)
  have := wfCnf_mem hc line hl
  split
  · exact pn_withRec (ih.line line this)
  · exact ih.line line this

theorem pn_line (env : Env) (fuel : Nat) (ih : AllPN env fuel) (l : List Clause) (hl : wfLine l = true) : PN (evalLine env (fuel + 1) l) := by
  simp only [evalLine]
  exact pn_bind (ih.alts l hl) (fun _ => pn_pure _)

theorem pn_alts (env : Env) (fuel : Nat) (ih : AllPN env fuel) : ∀ (l : List Clause), wfLine l = true → PN (evalAlternatives env (fuel + 1) l)
  | [], _ => by simp only [evalAlternatives]; exact pn_pure _
  | c :: rest, hl => by
    simp only [evalAlternatives]
    simp only [wfLine, Bool.and_eq_true] at hl
    refine pn_bind (ih.clause c hl.1) (fun s => ?_)
    split
    · exact pn_pure _
    · exact pn_bind (ih.alts rest hl.2) (fun _ => pn_pure _)

theorem pn_block (env : Env) (fuel : Nat) (ih : AllPN env fuel) (lets : List LetExpr) (c : Cnf) (hl : wfLets lets = true)
    (hc : wfCnf c = true) : PN (evalGeneralBlock env (fuel + 1) lets c) := by
  simp only [evalGeneralBlock]
  refine pn_bind pn_currentRoot (fun root => ?_)
  exact pn_pushPopK (extractVariables_wf lets root hl) (ih.cnf c hc) (fun s => pn_pure _)

theorem pn_fns (env : Env) (fuel : Nat) (ih : AllPN env fuel) : ∀ (rules : List Rule), (∀ r ∈ rules, r.wf = true) →
    PN (firstNonSkip env (fuel + 1) rules)
  | [], _ => by simp only [firstNonSkip]; exact pn_pure _
  | r :: rest, h => by
    simp only [firstNonSkip]
    refine pn_bind (ih.rule r (h r (by simp))) (fun s => ?_)
    split
    · exact pn_pure _
    · exact ih.fns rest (fun x hx => h x (List.mem_cons_of_mem _ hx))

theorem pn_rule (env : Env) (fuel : Nat) (ih : AllPN env fuel) (r : Rule) (hr : r.wf = true) : PN (evalRule env (fuel + 1) r) := by
  simp only [evalRule]
  simp only [Rule.wf, Bool.and_eq_true] at hr
  apply pn_withRec
  split
  · rename_i cs hcs
    rw [hcs] at hr
    refine pn_bind (pn_withRec (ih.cnf cs hr.1.1)) (fun c => ?_)
    split
    · exact pn_pure _
    · exact ih.block _ _ hr.1.2 hr.2
  · exact ih.block _ _ hr.1.2 hr.2


theorem M.mapM_length {α β} (f : α → M β) : ∀ (l : List α) (st : St) (res : List β) (st' : St),
    l.mapM f st = .ok (res, st') → res.length = l.length
  | [], st, res, st', h => by
    rw [List.mapM_nil] at h; obtain ⟨rfl, _⟩ := M.pure_ok h; rfl
  | a :: l, st, res, st', h => by
    rw [List.mapM_cons] at h
    obtain ⟨b, s1, h1, h2⟩ := M.bind_ok h
    obtain ⟨bs, s2, h3, h4⟩ := M.bind_ok h2
    obtain ⟨rfl, _⟩ := M.pure_ok h4
    simp [M.mapM_length f l s1 bs s2 h3]

/-- evaluating one function / rule argument -/
theorem pn_argValue (env : Env) (fuel : Nat) (ih : AllPN env fuel) (lit : PV → QR) (p : LetValue) (hp : p.wf = true) :
    PN (match p with
      | .value v => pure [lit v]
      | .access q _ => queryCtx env fuel q
      | .func n ps => resolveFunction env fuel n ps) := by
  cases p with
  | value v => exact pn_pure _
  | access q a => simp only [LetValue.wf] at hp; exact ih.qctx q hp
  | func n ps => exact ih.rfun n ps hp

theorem pn_rfun (env : Env) (fuel : Nat) (ih : AllPN env fuel) (name : FunctionName) (params : List LetValue)
    (hw : (LetValue.func name params).wf = true) : PN (resolveFunction env (fuel + 1) name params) := by
  simp only [resolveFunction]
  simp only [LetValue.wf, Bool.and_eq_true, beq_iff_eq] at hw
  refine pn_bind_ev (pn_mapM _ (fun p hp => pn_argValue env fuel ih QR.literal p (wfParams_mem hw.2 p hp))) (fun args hev => ?_)
  obtain ⟨st, s1, _, hm⟩ := hev
  have hlen : args.length = name.arity := by
    rw [M.mapM_length _ _ _ _ _ hm, ← lenParams_eq]; exact hw.1
  refine pn_bind (pn_liftO _ ?_) (fun out => pn_pure _)
  intro s h
  by_cases hs : s = .floatOfInt
  · exact Or.inr hs
  · exact absurd h (callFunction_arity env name args s hlen hs)

theorem pn_binary (env : Env) (fuel : Nat) (ih : AllPN env fuel) (q : List QueryPart) (rhs : List QR) (op : CmpOp) (opNot : Bool)
    (msg : Option Str) (hq : wfQuery q = true) : PN (binaryOperation env (fuel + 1) q rhs op opNot msg) := by
  simp only [binaryOperation]
  refine pn_bind (ih.qctx q hq) (fun lhs => pn_bind (pn_liftO _ ?_) (fun results => ?_))
  · intro s h; exact absurd h (cmpCompare_np env op opNot lhs rhs s)
  · split
    · exact pn_pure _
    · refine pn_bind (pn_forIn (fun x _ => ?_) _ _) (fun _ => pn_pure _)
      obtain ⟨k, _, _⟩ := x
      exact pn_bind (pn_emit k) (fun _ => pn_pure _)


theorem getLast?_ne_none {α} : ∀ {l : List α}, l.isEmpty = false → l.getLast? ≠ none
  | [], h => by simp at h
  | x :: xs, _ => by simp [List.getLast?_cons]

theorem pn_unary (env : Env) (fuel : Nat) (ih : AllPN env fuel) (q : List QueryPart) (op : CmpOp) (opNot inverse : Bool)
    (msg : Option Str) (hq : wfQuery q = true) (hne : q.isEmpty = false) (hop : op.isUnary = true) :
    PN (unaryOperation env (fuel + 1) q op opNot inverse msg) := by
  simp only [unaryOperation]
  refine pn_bind (ih.qctx q hq) (fun lhs => ?_)
  cases hl : q.getLast? with
  | none => exact absurd hl (getLast?_ne_none hne)
  | some part =>
    repeat (any_goals (first
      | exact pn_liftO _ (fun s h => absurd h (unaryCheck_np op hop _ _ _ s))
      | (refine pn_mapM _ (fun _ _ => ?_))
      | (rename_i hh; cases hh; done)
      | pn_step))


theorem pn_clause (env : Env) (fuel : Nat) (ih : AllPN env fuel) (c : Clause) (hc : c.wf = true) : PN (evalClause env (fuel + 1) c) := by
  cases c with
  | access neg q all op opNot withV msg =>
    simp only [evalClause]
    unfold Clause.wf at hc
    simp only [Bool.and_eq_true] at hc
    obtain ⟨⟨⟨hh, hp⟩, hu⟩, hv⟩ := hc
    have hq : wfQuery q = true := by simp [wfQuery, hh, hp]
    apply pn_withRec
    have hfin : ∀ res : EvaluationResult, PN (match res with
        | .emptyQueryResult s => (pure s : M Status)
        | .queryValueResult rs => pure (clauseStatus all (rs.map (·.2)))) := by
      intro res; split <;> exact pn_pure _
    split
    · rename_i hop
      simp only [hop, ↓reduceIte, Bool.not_eq_true'] at hu
      exact pn_bind (ih.unary q op opNot neg msg hq hu hop) hfin
    · split
      · exact pn_bind (pn_pure _) (fun rhs => pn_bind (ih.binary q rhs op _ msg hq) hfin)
      · rename_i q' a
        simp only [LetValue.wf] at hv
        exact pn_bind (ih.qctx q' hv) (fun rhs => pn_bind (ih.binary q rhs op _ msg hq) hfin)
      · exact pn_bind (ih.rfun _ _ hv) (fun rhs => pn_bind (ih.binary q rhs op _ msg hq) hfin)
      · exact pn_bind (pn_throwErr _) (fun rhs => pn_bind (ih.binary q rhs op _ msg hq) hfin)
  | named rule neg msg =>
    simp only [evalClause]
    exact pn_withRec (pn_bind (ih.rstat rule) (fun _ => pn_pure _))
  | call rule neg msg params =>
    simp only [evalClause]
    unfold Clause.wf at hc
    exact ih.pcall rule neg msg params hc
  | block q all notEmpty lets cnf =>
    simp only [evalClause]
    unfold Clause.wf at hc
    simp only [Bool.and_eq_true] at hc
    obtain ⟨⟨⟨hh, hp⟩, hl⟩, hcn⟩ := hc
    have hq : wfQuery q = true := by simp [wfQuery, hh, hp]
    apply pn_withRec
    refine pn_bind (ih.qctx q hq) (fun values => ?_)
    split
    · exact pn_pure _
    · refine pn_bind (pn_mapM _ (fun each _ => ?_)) (fun _ => pn_pure _)
      split
      · exact pn_bind (pn_emit _) (fun _ => pn_pure _)
      · exact pn_withValueScope (ih.block lets cnf hl hcn)
      · exact pn_withValueScope (ih.block lets cnf hl hcn)
  | whenBlock conds lets cnf =>
    simp only [evalClause]
    unfold Clause.wf at hc
    simp only [Bool.and_eq_true] at hc
    obtain ⟨⟨hcd, hl⟩, hcn⟩ := hc
    apply pn_withRec
    refine pn_bind (pn_withRec (ih.cnf conds hcd)) (fun c => ?_)
    split
    · exact pn_pure _
    · exact ih.block lets cnf hl hcn
  | typeBlock name conds lets cnf q =>
    simp only [evalClause]
    have hc' : (match conds with | some c => wfCnf c | none => true) = true ∧ wfLets lets = true ∧ wfCnf cnf = true ∧
        headOk q = true ∧ wfParts q = true := by
      unfold Clause.wf at hc
      cases conds <;> simp only [Bool.and_eq_true] at hc <;> simp [hc]
    obtain ⟨hcd, hl, hcn, hh, hp⟩ := hc'
    have hq : wfQuery q = true := by simp [wfQuery, hh, hp]
    apply pn_withRec
    have hgo : PN (do
        let values ← queryCtx env fuel q
        if values.isEmpty then pure Status.skip
        else do
          let sts ← values.mapM fun each =>
            match each with
            | .literal rv | .resolved rv =>
              withRec RecKind.typeBlock (withValueScope rv (evalGeneralBlock env fuel lets cnf))
            | .unresolved _ => throwErr .MissingValue
          pure (bodyStatus sts) : M Status) := by
      refine pn_bind (ih.qctx q hq) (fun values => ?_)
      split
      · exact pn_pure _
      · refine pn_bind (pn_mapM _ (fun each _ => ?_)) (fun _ => pn_pure _)
        split
        · exact pn_withRec (pn_withValueScope (ih.block lets cnf hl hcn))
        · exact pn_withRec (pn_withValueScope (ih.block lets cnf hl hcn))
        · exact pn_throwErr _
    cases conds with
    | none => exact hgo
    | some cs =>
      simp only at hcd ⊢
      refine pn_bind (pn_withRec (ih.cnf cs hcd)) (fun c => ?_)
      split
      · exact pn_pure _
      · exact hgo


syntax "pn_qr_auto" : tactic
set_option hygiene false in
macro_rules
  | `(tactic| pn_qr_auto) => `(tactic| repeat (any_goals (first
      | exact hnext _ _
      | exact ih.acc _ qi query _ conv hw
      | exact ih.rvar _
      | contradiction
      | (refine pn_mapM _ (fun _ _ => ?_))
      | pn_step)))

set_option maxHeartbeats 4000000 in
theorem pn_qr (env : Env) (fuel : Nat) (ih : AllPN env fuel) (qi : Nat) (query : List QueryPart) (current : PV) (conv : Option Nat)
    (hw : wfParts query = true) (hh0 : qi = 0 → headOk query = true) : PN (queryRetrieval env (fuel + 1) qi query current conv) := by
  simp only [queryRetrieval]
  have hnext : ∀ v c, PN (queryRetrieval env fuel (qi + 1) query v c) := fun v c => ih.qr (qi + 1) query v c hw (fun h => absurd h (by omega))
  cases hq : query[qi]? with
  | none => exact pn_pure _
  | some part =>
    have hpw := wfParts_get hw hq
    simp only
    split
    · -- variable head
      refine pn_bind (ih.rvar _) (fun retrieved => pn_bind (pn_mapM _ (fun each _ => ?_)) (fun _ => pn_pure _))
      repeat (any_goals (first
        | exact pn_withValueScope (ih.qr _ query _ conv hw (fun h => absurd h (by omega)))
        | pn_step))
    · cases part with
      | filter name cnf =>
        have hcnf : wfCnf cnf = true := by unfold QueryPart.wf at hpw; exact hpw
        have hq0 : (qi == 0) = false := by
          cases h0 : (qi == 0) with
          | false => rfl
          | true =>
            have : qi = 0 := by simpa using h0
            subst this
            exact (headOk_not_filter (hh0 rfl) hq).elim
        simp only [hq0, Bool.false_eq_true, ↓reduceIte]
        repeat (any_goals (first
          | exact hnext _ _
          | exact ih.cad cnf _ (qi + 1) query _ _ conv hcnf hw (by omega)
          | exact ih.cnf cnf hcnf
          | (refine pn_mapM _ (fun _ _ => ?_))
          | pn_step))
      | mapKeyFilter name op opNot withV =>
        have hop : op.isUnary = false ∧ withV.wf = true := by
          unfold QueryPart.wf at hpw
          simp only [Bool.and_eq_true, Bool.not_eq_true'] at hpw
          exact hpw
        simp only
        split
        · rename_i p ks vs
          have hrest : ∀ rhs : List QR, PN (do
              let results ← withRec (fun rs => RecKind.filter (bodyStatus (rs.map (·.2))))
                (realBinaryOperation env (ks.map fun (p, k) => QR.resolved (PV.str p k)) rhs op opNot none)
              let selected ← results.filterMapM fun (q, s) =>
                match q, s with
                | .resolved key, .pass =>
                  match key with
                  | .str _ kn =>
                    match PV.lookupKV ks vs kn with
                    | some v => pure (some (QR.resolved v))
                    | none => throwPanic .mapKeyMissing
                  | _ => pure none
                | .unresolved ur, _ => pure (some (QR.unresolved ur))
                | _, _ => pure none
              let rows ← selected.mapM fun each =>
                match each with
                | .literal r | .resolved r => queryRetrieval env fuel (qi + 1) query r conv
                | .unresolved ur => pure [QR.unresolved ur]
              pure rows.flatten : M (List QR)) := by
            intro rhs
            refine pn_bind (pn_withRec (pn_realBinaryOperation env _ rhs op hop.1 opNot none)) (fun results => ?_)
            refine pn_bind (pn_filterMapM (fun x => ?_) _) (fun selected => ?_)
            · obtain ⟨q, st⟩ := x
              repeat (any_goals (first
                | exact pn_throwPanic _ (Or.inl rfl)
                | pn_step))
            · refine pn_bind (pn_mapM _ (fun each _ => ?_)) (fun _ => pn_pure _)
              split
              · exact hnext _ _
              · exact hnext _ _
              · exact pn_pure _
          cases withV with
          | value v => exact pn_bind (pn_pure _) hrest
          | access q a =>
            have := hop.2; simp only [LetValue.wf, Bool.and_eq_true] at this
            exact pn_bind (ih.qr 0 q _ conv this.2 (fun _ => this.1)) hrest
          | func n ps => exact pn_bind (ih.rfun n ps hop.2) hrest
        · exact pn_pure _
      | this => simp only; pn_qr_auto
      | index i => simp only; pn_qr_auto
      | allIndices name => simp only; pn_qr_auto
      | allValues name => simp only; pn_qr_auto
      | key k =>
        simp only
        pn_qr_auto
        all_goals (
          rename_i hsel
          (repeat' (split at hsel))
          all_goals first
            | (cases hsel; done)
            | (cases hsel; first | exact pn_pure _ | exact pn_throwErr _))


theorem findParamRule_spec {name : Str} {st s1 : St} {pr : ParamRule} (h : findParamRule name st = .ok (pr, s1)) :
    pr ∈ st.file.prules := by
  unfold findParamRule at h
  obtain ⟨x, s2, hg, h2⟩ := M.bind_ok h
  have : x = st := by
    change (Outcome.ok (st, st)) = .ok (x, s2) at hg
    cases hg; rfl
  subst this
  cases hr : (x.file.prules.filter fun r => r.rule.name = name).getLast? with
  | some r =>
    simp only [hr] at h2
    obtain ⟨rfl, _⟩ := M.pure_ok h2
    have := List.mem_of_getLast? hr
    exact (List.mem_filter.mp this).1
  | none =>
    simp only [hr] at h2
    cases h2

theorem pn_pcall (env : Env) (fuel : Nat) (ih : AllPN env fuel) (rule : Str) (neg : Bool) (msg : Option Str)
    (params : List LetValue) (hp : wfParams params = true) : PN (evalParamCall env (fuel + 1) rule neg msg params) := by
  simp only [evalParamCall]
  refine pn_bind_ev (pn_findParamRule rule) (fun pr hev => ?_)
  obtain ⟨st, s1, hg, hf⟩ := hev
  have hpr : pr.rule.wf = true := by
    have hm := findParamRule_spec hf
    have hfw := hg.2.1
    simp only [RulesFile.wf, Bool.and_eq_true, List.all_eq_true] at hfw
    exact hfw.2 pr hm
  split
  · exact pn_throwErr _
  · refine pn_bind (pn_mapM _ (fun p hpm => pn_argValue env fuel ih QR.resolved p (wfParams_mem hp p hpm))) (fun vals => ?_)
    refine pn_pushPopK (f := mkParamsFrame pr.params vals) (by unfold mkParamsFrame; trivial) (ih.rule pr.rule hpr) (fun s => ?_)
    refine pn_bind (pn_modify ?_ ?_) (fun _ => pn_pure _)
    · intro st; split
      · split <;> exact FramesSim.refl _
      · exact FramesSim.refl _
    · intro st; split
      · split <;> rfl
      · rfl


theorem get_ok (st : St) : (get : M St) st = .ok (st, st) := rfl

theorem rulesNamed_spec {name : Str} {st s1 : St} {rules : List Rule} (h : rulesNamed name st = .ok (rules, s1)) :
    s1 = st ∧ rules = st.file.rules.filter (fun r => r.name = name) := by
  unfold rulesNamed at h
  obtain ⟨x, s2, hg, hp⟩ := M.bind_ok h
  rw [get_ok] at hg; cases hg
  obtain ⟨rfl, rfl⟩ := M.pure_ok hp
  exact ⟨rfl, rfl⟩

theorem G_root_only {st : St} (hg : G st) (rip : List Str) :
    G { st with rulesInProgress := rip, frames := st.frames.drop st.frames.dropLast.length } := by
  obtain ⟨⟨pre, b, e⟩, hf, hw⟩ := hg
  refine ⟨?_, hf, ?_⟩
  · refine ⟨[], b, ?_⟩
    show st.frames.drop st.frames.dropLast.length = [Frame.block b]
    rw [e]; simp
  · intro f hfm
    exact hw f (List.mem_of_mem_drop hfm)

theorem modify_ok (f : St → St) (st : St) : (modify f : M Unit) st = .ok ((), f st) := rfl

theorem pn_rstat (env : Env) (fuel : Nat) (ih : AllPN env fuel) (name : Str) : PN (ruleStatus env (fuel + 1) name) := by
  intro st0 hg
  constructor
  · intro a st' h0
    refine ⟨(allPres env (fuel + 1)).rstat name st0 a st' h0, ?_⟩
    simp only [ruleStatus] at h0
    obtain ⟨stg, s1, hg1, h1⟩ := M.bind_ok h0
    rw [get_ok] at hg1; cases hg1
    cases hlk : alLookup name st0.ruleStatus with
    | some sv => rw [hlk] at h1; obtain ⟨_, e⟩ := M.pure_ok h1; rw [e]
    | none =>
      rw [hlk] at h1
      obtain ⟨rules, s2, hr, h2⟩ := M.bind_ok h1
      obtain ⟨e2, erules⟩ := rulesNamed_spec hr
      rw [e2] at h2
      by_cases he : rules.isEmpty = true
      · simp only [he, ↓reduceIte] at h2; cases h2
      · by_cases hp : st0.rulesInProgress.contains name = true
        · simp only [he, hp, ↓reduceIte] at h2; cases h2
        · simp only [he, hp, ↓reduceIte] at h2
          obtain ⟨_, s3, hm1, h3⟩ := M.bind_ok h2
          obtain ⟨s, s4, hfns, h4⟩ := M.bind_ok h3
          obtain ⟨_, s5, hm2, h5⟩ := M.bind_ok h4
          obtain ⟨_, e6⟩ := M.pure_ok h5
          rw [modify_ok] at hm1; cases hm1
          rw [modify_ok] at hm2; cases hm2
          have hwf : ∀ r ∈ rules, r.wf = true := by
            intro r hrm
            rw [erules] at hrm
            have hfw := hg.2.1
            simp only [RulesFile.wf, Bool.and_eq_true, List.all_eq_true] at hfw
            exact hfw.1.2 r (List.mem_filter.mp hrm).1
          have := ((ih.fns rules hwf) _ (G_root_only hg (name :: st0.rulesInProgress))).1 s s4 hfns
          rw [e6]
          exact this.2
  · intro sp h0
    simp only [ruleStatus] at h0
    rcases M.bind_panic h0 with h | ⟨stg, s1, hg1, h1⟩
    · rw [get_ok] at h; cases h
    rw [get_ok] at hg1; cases hg1
    cases hlk : alLookup name st0.ruleStatus with
    | some sv => rw [hlk] at h1; cases h1
    | none =>
      rw [hlk] at h1
      rcases M.bind_panic h1 with h | ⟨rules, s2, hr, h2⟩
      · exact ((pn_rulesNamed name) st0 hg).2 sp h
      obtain ⟨e2, erules⟩ := rulesNamed_spec hr
      rw [e2] at h2
      by_cases he : rules.isEmpty = true
      · simp only [he, ↓reduceIte] at h2; cases h2
      · by_cases hp : st0.rulesInProgress.contains name = true
        · simp only [he, hp, ↓reduceIte] at h2; cases h2
        · simp only [he, hp, ↓reduceIte] at h2
          rcases M.bind_panic h2 with h | ⟨_, s3, hm1, h3⟩
          · rw [modify_ok] at h; cases h
          rw [modify_ok] at hm1; cases hm1
          have hwf : ∀ r ∈ rules, r.wf = true := by
            intro r hrm
            rw [erules] at hrm
            have hfw := hg.2.1
            simp only [RulesFile.wf, Bool.and_eq_true, List.all_eq_true] at hfw
            exact hfw.1.2 r (List.mem_filter.mp hrm).1
          rcases M.bind_panic h3 with h | ⟨s, s4, hfns, h4⟩
          · exact ((ih.fns rules hwf) _ (G_root_only hg (name :: st0.rulesInProgress))).2 sp h
          rcases M.bind_panic h4 with h | ⟨_, s5, hm2, h5⟩
          · rw [modify_ok] at h; cases h
          · cases h5


theorem G_tail {st : St} {f : Frame} {rest : List Frame} (hg : G st) (hf : st.frames = f :: rest) (hne : rest.isEmpty = false) :
    G { st with frames := rest } := by
  obtain ⟨⟨pre, b, e⟩, hfile, hw⟩ := hg
  refine ⟨?_, hfile, ?_⟩
  · rw [hf] at e
    cases pre with
    | nil => simp at e; rw [e.2] at hne; simp at hne
    | cons p pre' => simp at e; exact ⟨pre', b, e.2⟩
  · intro x hx; exact hw x (by rw [hf]; exact List.mem_cons_of_mem _ hx)

theorem G_top {st : St} {b nb : BlockFrame} {rest : List Frame} (hg : G st) (hf : st.frames = Frame.block b :: rest)
    (hq : nb.queries = b.queries) (hfu : nb.funs = b.funs) : G { st with frames := Frame.block nb :: rest } := by
  obtain ⟨⟨pre, b0, e⟩, hfile, hw⟩ := hg
  refine ⟨?_, hfile, ?_⟩
  · rw [hf] at e
    cases pre with
    | nil => simp at e; exact ⟨[], nb, by rw [e.2]; rfl⟩
    | cons p pre' => simp at e; exact ⟨Frame.block nb :: pre', b0, by rw [e.2]; rfl⟩
  · intro x hx
    rcases List.mem_cons.mp hx with rfl | hx
    · have := hw (Frame.block b) (by rw [hf]; simp)
      simp only [Frame.wf] at this ⊢
      rw [hq, hfu]; exact this
    · exact hw x (by rw [hf]; exact List.mem_cons_of_mem _ hx)

set_option maxHeartbeats 2000000 in
theorem pn_rvar (env : Env) (fuel : Nat) (ih : AllPN env fuel) (name : Str) : PN (resolveVariable env (fuel + 1) name) := by
  intro st hg
  constructor
  · -- success: the scope stack is preserved (`allPres`), the file is untouched
    intro a st' h
    refine ⟨(allPres env (fuel + 1)).rvar name st a st' h, ?_⟩
    simp only [resolveVariable] at h
    cases hf : st.frames with
    | nil => rw [hf] at h; cases h
    | cons f rest =>
      rw [hf] at h; simp only at h
      have hdel : ∀ {a st'}, (if rest.isEmpty = true then (Outcome.err ErrKind.MissingValue : Outcome (List QR × St))
            else match resolveVariable env fuel name { st with frames := rest } with
              | .ok (r, st') => .ok (r, { st' with frames := f :: st'.frames })
              | e => e) = .ok (a, st') → st'.file = st.file := by
        intro a st' hd
        by_cases hre : rest.isEmpty = true
        · simp only [hre, ↓reduceIte] at hd; cases hd
        · simp only [hre, Bool.false_eq_true, ↓reduceIte] at hd
          have hre' : rest.isEmpty = false := by cases hh : rest.isEmpty <;> simp_all
          cases hr : resolveVariable env fuel name { st with frames := rest } with
          | ok p =>
            obtain ⟨r, s2⟩ := p
            rw [hr] at hd; cases hd
            exact ((ih.rvar name) _ (G_tail hg hf hre')).1 _ _ hr |>.2
          | err e => rw [hr] at hd; cases hd
          | panic sp => rw [hr] at hd; cases hd
          | outOfFuel => rw [hr] at hd; cases hd
      cases f with
      | value r => exact hdel h
      | params ps =>
        simp only at h
        split at h
        · cases h; rfl
        · exact hdel h
      | block b =>
        simp only at h
        split at h
        · cases h; rfl
        · split at h
          · cases h; rfl
          · split at h
            · rename_i fname params hfun
              split at h
              · cases h
              · split at h
                · rename_i result s2 hr
                  split at h
                  · cases h
                    have hwf : (LetValue.func fname params).wf = true := by
                      have := hg.2.2 (Frame.block b) (by rw [hf]; simp)
                      exact this.2 name fname params (alLookup_mem hfun)
                    exact ((ih.rfun fname params hwf) _ (G_top (nb := { b with inProgress := name :: b.inProgress }) hg hf rfl rfl)).1 _ _ hr |>.2
                  · cases h
                · rename_i e hne
                  exact (hne _ _ h).elim
            · split at h
              · rename_i q matchAll hqu
                split at h
                · cases h
                · split at h
                  · rename_i result s2 hr
                    split at h
                    · cases h
                      have hwf : wfQuery q = true := by
                        have := hg.2.2 (Frame.block b) (by rw [hf]; simp)
                        exact this.1 name q matchAll (alLookup_mem hqu)
                      simp only [wfQuery, Bool.and_eq_true] at hwf
                      exact ((ih.qr 0 q b.root none hwf.2 (fun _ => hwf.1)) _ (G_top (nb := { b with inProgress := name :: b.inProgress }) hg hf rfl rfl)).1 _ _ hr |>.2
                    · cases h
                  · rename_i e hne
                    exact (hne _ _ h).elim
              · exact hdel h
  · intro sp h
    simp only [resolveVariable] at h
    cases hf : st.frames with
    | nil => rw [hf] at h; cases h
    | cons f rest =>
      rw [hf] at h; simp only at h
      have hdel : (if rest.isEmpty = true then (Outcome.err ErrKind.MissingValue : Outcome (List QR × St))
            else match resolveVariable env fuel name { st with frames := rest } with
              | .ok (r, st') => .ok (r, { st' with frames := f :: st'.frames })
              | e => e) = .panic sp → Allowed sp := by
        intro hd
        by_cases hre : rest.isEmpty = true
        · simp only [hre, ↓reduceIte] at hd; cases hd
        · simp only [hre, Bool.false_eq_true, ↓reduceIte] at hd
          have hre' : rest.isEmpty = false := by cases hh : rest.isEmpty <;> simp_all
          cases hr : resolveVariable env fuel name { st with frames := rest } with
          | ok p => rw [hr] at hd; cases hd
          | err e => rw [hr] at hd; cases hd
          | panic sp' => rw [hr] at hd; cases hd; exact ((ih.rvar name) _ (G_tail hg hf hre')).2 _ hr
          | outOfFuel => rw [hr] at hd; cases hd
      cases f with
      | value r => exact hdel h
      | params ps =>
        simp only at h
        split at h
        · cases h
        · exact hdel h
      | block b =>
        simp only at h
        split at h
        · cases h
        · split at h
          · cases h
          · split at h
            · rename_i fname params hfun
              have hwf : (LetValue.func fname params).wf = true := by
                have := hg.2.2 (Frame.block b) (by rw [hf]; simp)
                exact this.2 name fname params (alLookup_mem hfun)
              split at h
              · cases h
              · have hG := G_top (nb := { b with inProgress := name :: b.inProgress }) hg hf rfl rfl
                cases hr : resolveFunction env fuel fname params { st with frames := Frame.block { b with inProgress := name :: b.inProgress } :: rest } with
                | ok p =>
                  obtain ⟨result, s2⟩ := p
                  rw [hr] at h; simp only at h
                  -- the `finish` pattern match cannot fail: the stack is preserved
                  have hs := ((ih.rfun fname params hwf) _ hG).1 result s2 hr |>.1
                  obtain ⟨g, gs, e, hgs, _⟩ := FramesSim.cons_inv hs
                  rw [e] at h
                  cases g with
                  | block b' => cases h
                  | value r => simp [Frame.sim] at hgs
                  | params ps => simp [Frame.sim] at hgs
                | err e => rw [hr] at h; cases h
                | panic sp' => rw [hr] at h; cases h; exact ((ih.rfun fname params hwf) _ hG).2 _ hr
                | outOfFuel => rw [hr] at h; cases h
            · split at h
              · rename_i q matchAll hqu
                have hwf : wfQuery q = true := by
                  have := hg.2.2 (Frame.block b) (by rw [hf]; simp)
                  exact this.1 name q matchAll (alLookup_mem hqu)
                simp only [wfQuery, Bool.and_eq_true] at hwf
                split at h
                · cases h
                · have hG := G_top (nb := { b with inProgress := name :: b.inProgress }) hg hf rfl rfl
                  cases hr : queryRetrieval env fuel 0 q b.root none { st with frames := Frame.block { b with inProgress := name :: b.inProgress } :: rest } with
                  | ok p =>
                    obtain ⟨result, s2⟩ := p
                    rw [hr] at h; simp only at h
                    have hs := ((ih.qr 0 q b.root none hwf.2 (fun _ => hwf.1)) _ hG).1 result s2 hr |>.1
                    obtain ⟨g, gs, e, hgs, _⟩ := FramesSim.cons_inv hs
                    rw [e] at h
                    cases g with
                    | block b' => cases h
                    | value r => simp [Frame.sim] at hgs
                    | params ps => simp [Frame.sim] at hgs
                  | err e => rw [hr] at h; cases h
                  | panic sp' => rw [hr] at h; cases h; exact ((ih.qr 0 q b.root none hwf.2 (fun _ => hwf.1)) _ hG).2 _ hr
                  | outOfFuel => rw [hr] at h; cases h
              · exact hdel h


theorem allPN_succ (env : Env) (fuel : Nat) (ih : AllPN env fuel) : AllPN env (fuel + 1) where
  qr := pn_qr env fuel ih
  acc := pn_acc env fuel ih
  cad := pn_cad env fuel ih
  qctx := pn_qctx env fuel ih
  rvar := pn_rvar env fuel ih
  rfun := pn_rfun env fuel ih
  cnf := pn_cnf env fuel ih
  line := pn_line env fuel ih
  alts := pn_alts env fuel ih
  clause := pn_clause env fuel ih
  block := pn_block env fuel ih
  unary := fun q op opNot inverse msg hq hne hop => pn_unary env fuel ih q op opNot inverse msg hq hne hop
  binary := fun q rhs op opNot msg hq => pn_binary env fuel ih q rhs op opNot msg hq
  pcall := pn_pcall env fuel ih
  rstat := pn_rstat env fuel ih
  fns := pn_fns env fuel ih
  rule := pn_rule env fuel ih

/-- every function of the evaluator, on well-formed arguments and from a good state, can only raise a residue panic -/
theorem allPN (env : Env) : ∀ fuel, AllPN env fuel
  | 0 => allPN_zero env
  | fuel + 1 => allPN_succ env fuel (allPN env fuel)

theorem G_init (file : RulesFile) (doc : PV) (hw : file.wf = true) : G (St.init file doc) := by
  have hl : wfLets file.lets = true := by
    simp only [RulesFile.wf, Bool.and_eq_true] at hw; exact hw.1.1
  refine ⟨⟨[], extractVariables file.lets doc, rfl⟩, hw, ?_⟩
  intro f hf
  simp only [St.init, List.mem_singleton] at hf
  rw [hf]; exact extractVariables_wf file.lets doc hl

/-- **the evaluator never reaches an `unreachable!()`, an out-of-bounds index or a broken scope stack on parser
    output**: for every well-formed rules file (`RulesFile.wf`: queries do not start with a filter, unary clauses
    have a query, `keys` filters use binary operators, built-in functions are called with their arity - checked
    on every AST the harness sends), every document, `Env` and fuel, an evaluation that panics can only have
    panicked at `map.values.get(key).unwrap()` of the `keys` filter or at the model-only float-oracle site. -/
theorem runFile_panics_only (env : Env) (fuel : Nat) (file : RulesFile) (doc : PV) (hw : file.wf = true) (s : PanicSite)
    (h : runFile env fuel file doc = .panic s) : s = .mapKeyMissing ∨ s = .floatOfInt := by
  unfold runFile at h
  have hwr : ∀ r ∈ file.rules, r.wf = true := by
    intro r hr
    simp only [RulesFile.wf, Bool.and_eq_true, List.all_eq_true] at hw
    exact hw.1.2 r hr
  have hpn : PN (evalRulesFile env fuel file) := by
    unfold evalRulesFile
    exact pn_withRec (pn_bind (pn_mapM _ (fun r hr => (allPN env fuel).rule r (hwr r hr))) (fun _ => pn_pure _))
  cases hev : evalRulesFile env fuel file (St.init file doc) with
  | ok p =>
    obtain ⟨s0, st⟩ := p
    rw [hev] at h; simp only at h
    obtain ⟨r, hr⟩ := runFile_never_panics_on_records env fuel file doc s0 st hev
    rw [hr] at h; cases h
  | err e => rw [hev] at h; cases h
  | panic s' => rw [hev] at h; cases h; exact (hpn _ (G_init file doc hw)).2 _ hev
  | outOfFuel => rw [hev] at h; cases h

end Guard
