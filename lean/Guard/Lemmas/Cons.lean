import Guard.Judge.C02
import Guard.Lemmas.Records
/-
  Guard.Lemmas.Cons — towards: every record tree the evaluator builds is `Consistent`.
  `Inv m P`: whenever `m` succeeds it pushes the records `ps` (in chronological order) on top of the caller's,
  all of them consistent trees, and `P result ps` holds.
-/
set_option linter.unusedVariables false
set_option linter.unusedSimpArgs false
namespace Guard

def Inv {α} (m : M α) (P : α → List Rec → Prop) : Prop :=
  ∀ st a st', m st = .ok (a, st') → ∃ ps, st'.recs = ps.reverse ++ st.recs ∧ ConsistentList ps = true ∧ P a ps

theorem consList_append : ∀ (a b : List Rec), ConsistentList (a ++ b) = (ConsistentList a && ConsistentList b)
  | [], b => by simp [ConsistentList]
  | r :: a, b => by simp [ConsistentList, consList_append a b, Bool.and_assoc]

theorem consList_flatten : ∀ (l : List (List Rec)), (∀ x ∈ l, ConsistentList x = true) → ConsistentList l.flatten = true
  | [], _ => rfl
  | x :: l, h => by
    simp only [List.flatten_cons, consList_append, Bool.and_eq_true]
    exact ⟨h x (by simp), consList_flatten l fun y hy => h y (List.mem_cons_of_mem _ hy)⟩

theorem lineRecs_append (a b : List Rec) : lineRecs (a ++ b) = lineRecs a ++ lineRecs b := by
  simp [lineRecs]

theorem inv_pure {α} {P : α → List Rec → Prop} (a : α) (h : P a []) : Inv (pure a : M α) P := by
  intro st b st' hh
  obtain ⟨rfl, rfl⟩ := M.pure_ok hh
  exact ⟨[], rfl, rfl, h⟩

theorem inv_bind {α β} {m : M α} {f : α → M β} {P1 : α → List Rec → Prop} {P2 : α → β → List Rec → Prop}
    {P : β → List Rec → Prop} (hm : Inv m P1) (hf : ∀ a, Inv (f a) (P2 a))
    (hc : ∀ a ps1 b ps2, P1 a ps1 → P2 a b ps2 → P b (ps1 ++ ps2)) : Inv (m >>= f) P := by
  intro st b st' h
  obtain ⟨a, st₁, h1, h2⟩ := M.bind_ok h
  obtain ⟨ps1, e1, c1, p1⟩ := hm st a st₁ h1
  obtain ⟨ps2, e2, c2, p2⟩ := hf a st₁ b st' h2
  refine ⟨ps1 ++ ps2, ?_, ?_, hc a ps1 b ps2 p1 p2⟩
  · rw [e2, e1, List.reverse_append, List.append_assoc]
  · rw [consList_append, c1, c2]; rfl

theorem inv_weaken {α} {m : M α} {P Q : α → List Rec → Prop} (hm : Inv m P) (h : ∀ a ps, ConsistentList ps = true → P a ps → Q a ps) :
    Inv m Q := by
  intro st a st' hh
  obtain ⟨ps, e, c, p⟩ := hm st a st' hh
  exact ⟨ps, e, c, h a ps c p⟩

theorem inv_fail {α} {P : α → List Rec → Prop} {m : M α} (h : ∀ st a st', m st ≠ .ok (a, st')) : Inv m P := by
  intro st a st' hh; exact absurd hh (h st a st')

theorem inv_throwErr {α} {P : α → List Rec → Prop} (e : ErrKind) : Inv (throwErr e : M α) P := by intro st a st' h; cases h
theorem inv_throwPanic {α} {P : α → List Rec → Prop} (s : PanicSite) : Inv (throwPanic s : M α) P := by intro st a st' h; cases h
theorem inv_outOfFuel {α} {P : α → List Rec → Prop} : Inv (outOfFuel : M α) P := by intro st a st' h; cases h

/-- `withRec`: the body's records become the children of ONE new record -/
theorem inv_withRec {α} {mk : α → RecKind} {m : M α} {P1 P : α → List Rec → Prop} (hm : Inv m P1)
    (h : ∀ a ps, ConsistentList ps = true → P1 a ps → nodeOk (mk a) ps = true ∧ P a [Rec.node (mk a) ps]) : Inv (withRec mk m) P := by
  intro st a st' hh
  obtain ⟨st'', hb, e⟩ := withRec_ok hh
  obtain ⟨ps, e1, c1, p1⟩ := hm _ a st'' hb
  simp only [List.append_nil] at e1
  obtain ⟨hn, hp⟩ := h a ps c1 p1
  refine ⟨[Rec.node (mk a) ps], ?_, ?_, hp⟩
  · rw [e, e1]; simp
  · simp [ConsistentList, Consistent, hn, c1]

/-- an action that does not touch the records -/
theorem inv_norecs {α} {m : M α} {P : α → List Rec → Prop} (hrec : ∀ st a st', m st = .ok (a, st') → st'.recs = st.recs)
    (hp : ∀ st a st', m st = .ok (a, st') → P a []) : Inv m P := by
  intro st a st' hh
  exact ⟨[], by simp [hrec st a st' hh], rfl, hp st a st' hh⟩

theorem inv_emit {P : Unit → List Rec → Prop} (k : RecKind) (hk : nodeOk k [] = true) (hp : P () [Rec.node k []]) : Inv (emit k) P := by
  intro st a st' hh
  change (Outcome.ok ((), _)) = .ok (a, st') at hh
  cases hh
  exact ⟨[Rec.node k []], rfl, by simp [ConsistentList, Consistent, hk], hp⟩

theorem inv_framesOnly {α} {m : M α} {P : α → List Rec → Prop} {g : St → St} (hg : ∀ st, (g st).recs = st.recs)
    (hm : Inv m P) : Inv (fun st => m (g st)) P := by
  intro st a st' hh
  obtain ⟨ps, e, c, p⟩ := hm (g st) a st' hh
  exact ⟨ps, by rw [e, hg], c, p⟩

theorem inv_withValueScope {α} {root : PV} {m : M α} {P : α → List Rec → Prop} (hm : Inv m P) :
    Inv (withValueScope root m) P := by
  intro st a st' h
  unfold withValueScope at h
  obtain ⟨_, s1, h1, h2⟩ := M.bind_ok h
  obtain ⟨r, s2, h3, h4⟩ := M.bind_ok h2
  obtain ⟨_, s3, h5, h6⟩ := M.bind_ok h4
  obtain ⟨e6, e7⟩ := M.pure_ok h6
  have e1 : s1.recs = st.recs := by
    change (Outcome.ok ((), _)) = .ok (_, s1) at h1
    cases h1; rfl
  have e3 : s3.recs = s2.recs := by
    change (Outcome.ok ((), _)) = .ok (_, s3) at h5
    cases h5; rfl
  obtain ⟨ps, e, c, p⟩ := hm s1 r s2 h3
  exact ⟨ps, by rw [e7, e3, e, e1], c, by rw [e6]; exact p⟩

/-! ### query level: only `Filter` records -/

def OnlyF (ps : List Rec) : Prop := lineRecs ps = []

def InvF {α} (m : M α) : Prop := Inv m (fun _ ps => OnlyF ps)

theorem onlyF_append {a b : List Rec} (ha : OnlyF a) (hb : OnlyF b) : OnlyF (a ++ b) := by
  unfold OnlyF at *; rw [lineRecs_append, ha, hb]; rfl

theorem invf_pure {α} (a : α) : InvF (pure a : M α) := inv_pure a rfl
theorem invf_bind {α β} {m : M α} {f : α → M β} (hm : InvF m) (hf : ∀ a, InvF (f a)) : InvF (m >>= f) :=
  inv_bind (P2 := fun _ _ ps => OnlyF ps) hm hf fun _ _ _ _ h1 h2 => onlyF_append h1 h2
theorem invf_throwErr {α} (e : ErrKind) : InvF (throwErr e : M α) := inv_throwErr e
theorem invf_throwPanic {α} (s : PanicSite) : InvF (throwPanic s : M α) := inv_throwPanic s
theorem invf_outOfFuel {α} : InvF (outOfFuel : M α) := inv_outOfFuel

theorem invf_liftO {α} (o : Outcome α) : InvF (liftO o) := by
  apply inv_norecs
  · intro st a st' h; cases o <;> simp [liftO] at h; rw [h.2]
  · intro st a st' h; rfl

theorem invf_get : InvF (get : M St) := by
  apply inv_norecs
  · intro st a st' h
    change (Outcome.ok (st, st)) = .ok (a, st') at h
    cases h; rfl
  · intro st a st' h; rfl

theorem invf_modify {f : St → St} (hf : ∀ st, (f st).recs = st.recs) : InvF (modify f : M Unit) := by
  apply inv_norecs
  · intro st a st' h
    change (Outcome.ok ((), f st)) = .ok (a, st') at h
    cases h; exact hf st
  · intro st a st' h; rfl

theorem invf_currentRoot : InvF currentRoot := by
  apply inv_norecs
  · intro st a st' h; unfold currentRoot at h; split at h
    · cases h; rfl
    · cases h
  · intro st a st' h; rfl

theorem invf_pushFrame (f : Frame) : InvF (pushFrame f) := invf_modify fun _ => rfl
theorem invf_popFrame : InvF popFrame := invf_modify fun _ => rfl

theorem invf_addCaptureKey (name : Str) (key : PV) : InvF (addCaptureKey name key) := by
  apply invf_modify; intro st; split <;> rfl

theorem invf_withValueScope {α} {root : PV} {m : M α} (hm : InvF m) : InvF (withValueScope root m) := inv_withValueScope hm

theorem invf_mapM {α β} {f : α → M β} (hf : ∀ a, InvF (f a)) : ∀ (l : List α), InvF (l.mapM f)
  | [] => by rw [List.mapM_nil]; exact invf_pure _
  | a :: l => by
    rw [List.mapM_cons]
    exact invf_bind (hf a) fun b => invf_bind (invf_mapM hf l) fun bs => invf_pure _

theorem invf_filterMapM {α β} {f : α → M (Option β)} (hf : ∀ a, InvF (f a)) : ∀ (l : List α), InvF (l.filterMapM f)
  | [] => by rw [List.filterMapM_nil]; exact invf_pure _
  | a :: l => by
    rw [List.filterMapM_cons]
    refine invf_bind (hf a) fun b => ?_
    cases b with
    | none => exact invf_filterMapM hf l
    | some b => exact invf_bind (invf_filterMapM hf l) fun bs => invf_pure _

theorem invf_accumulateMap {parent : PV} {ks : List (Path × Str)} {vs : List PV} {qi : Nat} {query : List QueryPart}
    {func : PV → PV → M (List QR)} (hf : ∀ k v, InvF (func k v)) : InvF (accumulateMap parent ks vs qi query func) := by
  unfold accumulateMap
  split
  · exact invf_pure _
  · refine invf_bind (invf_mapM (fun x => ?_) _) (fun _ => invf_pure _)
    obtain ⟨⟨p, k⟩, each⟩ := x
    exact invf_withValueScope (hf _ _)

/-! ### lines and what explains a status -/

/-- `sts` picks, for every line record, one of the statuses that record may contribute -/
def Explains : List Rec → List Status → Prop
  | [], [] => True
  | L :: ls, s :: ss => s ∈ lineOptions L ∧ Explains ls ss
  | _, _ => False

theorem explains_append : ∀ {l1 l2 : List Rec} {s1 s2 : List Status}, Explains l1 s1 → Explains l2 s2 → Explains (l1 ++ l2) (s1 ++ s2)
  | [], _, [], _, _, h => h
  | L :: ls, _, s :: ss, _, ⟨h1, h2⟩, h => ⟨h1, explains_append h2 h⟩
  | [], _, _ :: _, _, h, _ => by simp [Explains] at h
  | _ :: _, _, [], _, h, _ => by simp [Explains] at h

theorem explains_choices : ∀ {ls : List Rec} {sts : List Status}, Explains ls sts → sts ∈ choices (ls.map lineOptions)
  | [], [], _ => by simp [choices]
  | L :: ls, s :: ss, ⟨h1, h2⟩ => by
    simp only [List.map_cons, choices, List.mem_flatMap, List.mem_map]
    exact ⟨ss, explains_choices h2, s, h1, rfl⟩
  | [], _ :: _, h => by simp [Explains] at h
  | _ :: _, [], h => by simp [Explains] at h

theorem aggOk_of_explains {agg : List Status → Status} {s : Status} {ls : List Rec} {sts : List Status}
    (h : Explains ls sts) (hs : s = agg sts) : aggOk agg s ls = true := by
  unfold aggOk
  rw [List.any_eq_true]
  exact ⟨sts, explains_choices h, by rw [hs]; simp⟩

/-- the filter record of a query step: its status is explained by the lines of its condition -/
theorem invf_filter {m : M Status} (hm : Inv m fun s ps => ∃ sts, Explains (lineRecs ps) sts ∧ s = bodyStatus sts) :
    InvF (withRec RecKind.filter m) := by
  apply inv_withRec hm
  intro s ps _ ⟨sts, he, hs⟩
  refine ⟨?_, ?_⟩
  · simp only [nodeOk]; exact aggOk_of_explains he hs
  · simp [OnlyF, lineRecs, Rec.kind, RecKind.isFilter]

end Guard
