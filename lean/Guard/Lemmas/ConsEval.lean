import Guard.Lemmas.ConsOps
/-
  Guard.Lemmas.ConsEval — every function of the evaluator's mutual block pushes only consistent record trees, and
  what it pushes explains the status it returns.
-/
set_option linter.unusedVariables false
set_option linter.unusedSimpArgs false
set_option maxHeartbeats 4000000
namespace Guard

/-- no line record is a condition record (`RuleCondition` / `WhenCondition` / `TypeCondition`) -/
def NoCond (ps : List Rec) : Prop := ∀ r ∈ lineRecs ps, isCond r.kind = false
def PCnf (s : Status) (ps : List Rec) : Prop := (∃ sts, Explains (lineRecs ps) sts ∧ s = bodyStatus sts) ∧ NoCond ps
def PAlts (sts : List Status) (ps : List Rec) : Prop :=
  Explains (lineRecs ps) sts ∧ stopsAtFirstPass sts = true ∧ NoCond ps
def PClause (s : Status) (ps : List Rec) : Prop := ∃ L, lineRecs ps = [L] ∧ s ∈ lineOptions L ∧ isCond L.kind = false
def IsRuleRec (r : Rec) : Prop := ∃ n s m ch, r = Rec.node (.ruleCheck n s m) ch
def AllRule (ps : List Rec) : Prop := ∀ r ∈ lineRecs ps, IsRuleRec r
def VC (ps : List Rec) : List Status := (ps.filter isValueCheck).map Rec.status
def POp (res : EvaluationResult) (ps : List Rec) : Prop :=
  match res with
  | .emptyQueryResult s => VC ps = [] ∨ ∃ b, VC ps = [boolStatus b] ∧ s = boolStatus b
  | .queryValueResult rs => (VC ps).map (· == Status.pass) = rs.map (·.2)

/-- besides filter records, only value-check leaves -/
def AllVC (ps : List Rec) : Prop := (lineRecs ps).all isValueCheck = true
def POpV (res : EvaluationResult) (ps : List Rec) : Prop := POp res ps ∧ AllVC ps

structure AllInv (env : Env) (fuel : Nat) : Prop where
  qr : ∀ qi query current conv, InvF (queryRetrieval env fuel qi query current conv)
  acc : ∀ parent qi query elements conv, InvF (accumulate env fuel parent qi query elements conv)
  cad : ∀ cnf name index query key value conv, InvF (checkAndDelegate env fuel cnf name index query key value conv)
  qctx : ∀ q, InvF (queryCtx env fuel q)
  rvar : ∀ name, InvF (resolveVariable env fuel name)
  rfun : ∀ name params, InvF (resolveFunction env fuel name params)
  cnf : ∀ c, Inv (evalCnf env fuel c) PCnf
  line : ∀ l, Inv (evalLine env fuel l) (fun s ps => (∃ sts, Explains (lineRecs ps) sts ∧ stopsAtFirstPass sts = true ∧
      s = lineStatus sts ∧ sts.length ≤ l.length ∧ (l ≠ [] → sts ≠ [])) ∧ NoCond ps)
  alts : ∀ l, Inv (evalAlternatives env fuel l) (fun sts ps => PAlts sts ps ∧ (l ≠ [] → sts ≠ []) ∧ sts.length ≤ l.length)
  clause : ∀ c, Inv (evalClause env fuel c) PClause
  block : ∀ lets c, Inv (evalGeneralBlock env fuel lets c) PCnf
  unary : ∀ q op opNot inverse msg, Inv (unaryOperation env fuel q op opNot inverse msg) POpV
  binary : ∀ q rhs op opNot msg, Inv (binaryOperation env fuel q rhs op opNot msg) POpV
  pcall : ∀ rule neg msg params, Inv (evalParamCall env fuel rule neg msg params) PClause
  rstat : ∀ name, Inv (ruleStatus env fuel name) (fun _ ps => AllRule ps)
  fns : ∀ rules, Inv (firstNonSkip env fuel rules) (fun _ ps => AllRule ps)
  rule : ∀ r, Inv (evalRule env fuel r) (fun s ps => ∃ ch, ps = [Rec.node (.ruleCheck r.name s none) ch])

syntax "cf_step" : tactic
macro_rules
  | `(tactic| cf_step) => `(tactic| first
      | apply invf_pure | apply invf_throwErr | apply invf_throwPanic | apply invf_outOfFuel | apply invf_liftO
      | apply invf_get | apply invf_currentRoot | apply invf_addCaptureKey | apply invf_pushFrame | apply invf_popFrame
      | apply invf_withValueScope | (refine invf_mapM (fun _ => ?_) _)
      | (refine invf_accumulateMap (fun _ _ => ?_))
      | (refine invf_filterMapM (fun _ => ?_) _)
      | exact invf_keysFilter _ _ _ _ _
      | (refine invf_filter ?_)
      | (refine invf_bind ?_ (fun _ => ?_))
      | split)

macro "cf_ih" ih:ident : tactic => `(tactic| first
  | exact ($ih).qr _ _ _ _ | exact ($ih).acc _ _ _ _ _ | exact ($ih).cad _ _ _ _ _ _ _ | exact ($ih).qctx _
  | exact ($ih).rvar _ | exact ($ih).rfun _ _ | exact inv_weaken (($ih).cnf _) (fun _ _ _ h => h.1)
  | exact inv_withValueScope (inv_weaken (($ih).cnf _) (fun _ _ _ h => h.1)))

macro "cf_auto" ih:ident : tactic => `(tactic| repeat (any_goals (first | cf_ih $ih | cf_step)))

theorem cf_acc (env : Env) (fuel : Nat) (ih : AllInv env fuel) (parent qi query elements conv) :
    InvF (accumulate env (fuel + 1) parent qi query elements conv) := by
  simp only [accumulate]; cf_auto ih

theorem cf_cad (env : Env) (fuel : Nat) (ih : AllInv env fuel) (cnf name index query key value conv) :
    InvF (checkAndDelegate env (fuel + 1) cnf name index query key value conv) := by
  simp only [checkAndDelegate]; cf_auto ih

theorem cf_qctx (env : Env) (fuel : Nat) (ih : AllInv env fuel) (q) : InvF (queryCtx env (fuel + 1) q) := by
  simp only [queryCtx]; cf_auto ih

theorem cf_rfun (env : Env) (fuel : Nat) (ih : AllInv env fuel) (name params) :
    InvF (resolveFunction env (fuel + 1) name params) := by
  simp only [resolveFunction]; cf_auto ih

theorem cf_qr (env : Env) (fuel : Nat) (ih : AllInv env fuel) (qi : Nat) (query : List QueryPart) (current : PV)
    (conv : Option Nat) : InvF (queryRetrieval env (fuel + 1) qi query current conv) := by
  simp only [queryRetrieval]
  cf_auto ih
  rename_i hsel
  split at hsel
  · cases hsel
  · cases hsel
  · cases hsel
  · split at hsel
    · cases hsel
    · cases hsel; exact invf_pure _
  · cases hsel; exact invf_throwErr _

theorem cf_rvar (env : Env) (fuel : Nat) (ih : AllInv env fuel) (name : Str) :
    InvF (resolveVariable env (fuel + 1) name) := by
  intro st a st' h
  simp only [resolveVariable] at h
  cases hf : st.frames with
  | nil => rw [hf] at h; cases h
  | cons f rest =>
    rw [hf] at h; simp only at h
    have hdel : ∀ {a st'}, (if rest.isEmpty = true then (Outcome.err ErrKind.MissingValue : Outcome (List QR × St))
          else match resolveVariable env fuel name { st with frames := rest } with
            | .ok (r, st') => .ok (r, { st' with frames := f :: st'.frames })
            | e => e) = .ok (a, st') → ∃ ps, st'.recs = ps.reverse ++ st.recs ∧ ConsistentList ps = true ∧ OnlyF ps := by
      intro a st' hd
      split at hd
      · cases hd
      · split at hd
        · rename_i r s2 hr
          cases hd
          obtain ⟨ps, e, c, p⟩ := ih.rvar name _ _ _ hr
          exact ⟨ps, e, c, p⟩
        · rename_i e hne
          exact (hne _ _ hd).elim
    cases f with
    | value r => exact hdel h
    | params ps =>
      simp only at h
      split at h
      · cases h; exact ⟨[], rfl, rfl, rfl⟩
      · exact hdel h
    | block b =>
      simp only at h
      split at h
      · cases h; exact ⟨[], rfl, rfl, rfl⟩
      · split at h
        · cases h; exact ⟨[], rfl, rfl, rfl⟩
        · split at h
          · split at h
            · cases h
            · split at h
              · rename_i result s2 hr
                split at h
                · cases h
                  obtain ⟨ps, e, c, p⟩ := ih.rfun _ _ _ _ _ hr
                  exact ⟨ps, e, c, p⟩
                · cases h
              · rename_i e hne
                exact (hne _ _ h).elim
          · split at h
            · split at h
              · cases h
              · split at h
                · rename_i result s2 hr
                  split at h
                  · cases h
                    obtain ⟨ps, e, c, p⟩ := ih.qr _ _ _ _ _ _ _ hr
                    exact ⟨ps, e, c, p⟩
                  · cases h
                · rename_i e hne
                  exact (hne _ _ h).elim
            · exact hdel h

/-! ### lines -/

theorem stops_cons {s : Status} {more : List Status} (hs : (s == Status.pass) = false) (hm : stopsAtFirstPass more = true) :
    stopsAtFirstPass (s :: more) = true := by
  cases more with
  | nil => rfl
  | cons m ms =>
    simp only [stopsAtFirstPass, Bool.and_eq_true, bne_iff_ne, ne_eq]
    exact ⟨by intro h; simp [h] at hs, hm⟩

theorem noCond_append {a b : List Rec} (ha : NoCond a) (hb : NoCond b) : NoCond (a ++ b) := by
  intro r hr
  rw [lineRecs_append, List.mem_append] at hr
  rcases hr with h | h
  · exact ha r h
  · exact hb r h

theorem cf_alts (env : Env) (fuel : Nat) (ih : AllInv env fuel) : ∀ (l : List Clause),
    Inv (evalAlternatives env (fuel + 1) l) (fun sts ps => PAlts sts ps ∧ (l ≠ [] → sts ≠ []) ∧ sts.length ≤ l.length)
  | [] => by
    simp only [evalAlternatives]
    exact inv_pure _ ⟨⟨trivial, rfl, by intro r hr; simp [lineRecs] at hr⟩, by simp, by simp⟩
  | c :: rest => by
    simp only [evalAlternatives]
    intro st a st' h
    obtain ⟨s, s1, h1, h2⟩ := M.bind_ok h
    obtain ⟨ps1, e1, c1, L, hL, hs, hk⟩ := ih.clause c st s s1 h1
    by_cases hp : (s == Status.pass) = true
    · simp only [hp, ↓reduceIte] at h2
      obtain ⟨rfl, rfl⟩ := M.pure_ok h2
      refine ⟨ps1, e1, c1, ⟨?_, rfl, ?_⟩, by simp, by simp⟩
      · rw [hL]; exact ⟨hs, trivial⟩
      · intro r hr; rw [hL] at hr; simp at hr; rw [hr]; exact hk
    · have hp' : (s == Status.pass) = false := by
        cases hh : (s == Status.pass)
        · rfl
        · exact absurd hh hp
      simp only [hp', Bool.false_eq_true, ↓reduceIte] at h2
      obtain ⟨more, s2, h3, h4⟩ := M.bind_ok h2
      obtain ⟨rfl, rfl⟩ := M.pure_ok h4
      obtain ⟨ps2, e2, c2, ⟨hE, hst, hnc⟩, _, hlen⟩ := ih.alts rest s1 more _ h3
      refine ⟨ps1 ++ ps2, ?_, ?_, ⟨?_, stops_cons hp' hst, ?_⟩, by simp, by simp; omega⟩
      · rw [e2, e1, List.reverse_append, List.append_assoc]
      · rw [consList_append, c1, c2]; rfl
      · rw [lineRecs_append, hL]; exact ⟨hs, hE⟩
      · apply noCond_append _ hnc
        intro r hr; rw [hL] at hr; simp at hr; rw [hr]; exact hk

theorem explains_nonempty {ls : List Rec} {sts : List Status} (h : Explains ls sts) (hs : sts ≠ []) : ls ≠ [] := by
  cases ls with
  | nil => cases sts with
    | nil => exact absurd rfl hs
    | cons _ _ => simp [Explains] at h
  | cons _ _ => simp

theorem cf_line (env : Env) (fuel : Nat) (ih : AllInv env fuel) (l : List Clause) :
    Inv (evalLine env (fuel + 1) l) (fun s ps => (∃ sts, Explains (lineRecs ps) sts ∧ stopsAtFirstPass sts = true ∧
      s = lineStatus sts ∧ sts.length ≤ l.length ∧ (l ≠ [] → sts ≠ [])) ∧ NoCond ps) := by
  simp only [evalLine]
  intro st a st' h
  obtain ⟨sts, s1, h1, h2⟩ := M.bind_ok h
  obtain ⟨rfl, rfl⟩ := M.pure_ok h2
  obtain ⟨ps, e, c, ⟨hE, hst, hnc⟩, hne, hlen⟩ := ih.alts l st sts _ h1
  exact ⟨ps, e, c, ⟨sts, hE, hst, rfl, hlen, hne⟩, hnc⟩

/-! ### conjunctions of lines -/

/-- what one line of a conjunction contributes: one line record that may carry the line's status, or nothing (an
    empty line, which the parser never produces) -/
def PerLine (s : Status) (ps : List Rec) : Prop :=
  (∃ L, lineRecs ps = [L] ∧ s ∈ lineOptions L ∧ isCond L.kind = false) ∨ (lineRecs ps = [] ∧ s = Status.skip)

theorem lineStatus_single (s : Status) : lineStatus [s] = s := by cases s <;> rfl

theorem explains_length : ∀ {ls : List Rec} {sts : List Status}, Explains ls sts → ls.length = sts.length
  | [], [], _ => rfl
  | _ :: ls, _ :: ss, ⟨_, h⟩ => by simp [explains_length h]
  | [], _ :: _, h => by simp [Explains] at h
  | _ :: _, [], h => by simp [Explains] at h

theorem cf_perLine (env : Env) (fuel : Nat) (ih : AllInv env fuel) (line : List Clause) :
    Inv (if line.length > 1 then withRec RecKind.disjunction (evalLine env fuel line) else evalLine env fuel line) PerLine := by
  split
  · rename_i hlen
    apply inv_withRec (ih.line line)
    intro s ps _ ⟨⟨sts, hE, hst, hs, _, hne⟩, _⟩
    have hl : line ≠ [] := by intro h; rw [h] at hlen; simp at hlen
    refine ⟨?_, Or.inl ⟨Rec.node (RecKind.disjunction s) ps, by simp [lineRecs, Rec.kind, RecKind.isFilter],
      by simp [lineOptions, Rec.kind, RecKind.status?], rfl⟩⟩
    simp only [nodeOk, Bool.and_eq_true, Bool.not_eq_true', List.any_eq_true]
    refine ⟨?_, sts, explains_choices hE, by rw [hs, hst]; simp⟩
    have := explains_nonempty hE (hne hl)
    cases hh : lineRecs ps with
    | nil => exact absurd hh this
    | cons _ _ => rfl
  · rename_i hlen
    refine inv_weaken (ih.line line) ?_
    intro s ps _ ⟨⟨sts, hE, hst, hs, hlen', _⟩, hnc⟩
    have : sts.length ≤ 1 := by omega
    cases sts with
    | nil =>
      right
      have := explains_length hE
      refine ⟨List.eq_nil_of_length_eq_zero (by simpa using this), by rw [hs]; rfl⟩
    | cons s1 rest =>
      cases rest with
      | cons _ _ => simp at this
      | nil =>
        left
        cases hls : lineRecs ps with
        | nil => rw [hls] at hE; simp [Explains] at hE
        | cons L ls =>
          rw [hls] at hE
          cases ls with
          | cons _ _ => simp [Explains] at hE
          | nil =>
            refine ⟨L, rfl, ?_, hnc L (by rw [hls]; simp)⟩
            rw [hs, lineStatus_single]; exact hE.1

theorem bodyStatus_cons (x : Status) (l : List Status) :
    bodyStatus (x :: l) = (match x with
      | .fail => Status.fail
      | .pass => if bodyStatus l = .fail then Status.fail else Status.pass
      | .skip => bodyStatus l) := by
  cases x <;> simp only [bodyStatus, List.any_cons] <;>
    by_cases h1 : l.any (· == Status.fail) = true <;> by_cases h2 : l.any (· == Status.pass) = true <;> simp [h1, h2]

theorem bodyStatus_congr (x : Status) {a b : List Status} (h : bodyStatus a = bodyStatus b) :
    bodyStatus (x :: a) = bodyStatus (x :: b) := by
  rw [bodyStatus_cons, bodyStatus_cons, h]

def Acc (sts : List Status) (ps : List Rec) : Prop :=
  (∃ sts', Explains (lineRecs ps) sts' ∧ bodyStatus sts' = bodyStatus sts) ∧ NoCond ps

theorem noCond_nil : NoCond [] := by intro r hr; simp [lineRecs] at hr

theorem inv_mapM_perLine {α} {A : α → M Status} (hA : ∀ a, Inv (A a) PerLine) : ∀ (l : List α), Inv (l.mapM A) Acc
  | [] => by rw [List.mapM_nil]; exact inv_pure _ ⟨⟨[], trivial, rfl⟩, noCond_nil⟩
  | a :: l => by
    rw [List.mapM_cons]
    intro st res st' h
    obtain ⟨s, s1, h1, h2⟩ := M.bind_ok h
    obtain ⟨ss, s2, h3, h4⟩ := M.bind_ok h2
    obtain ⟨rfl, rfl⟩ := M.pure_ok h4
    obtain ⟨ps1, e1, c1, p1⟩ := hA a st s s1 h1
    obtain ⟨ps2, e2, c2, ⟨sts', hE, hb⟩, hnc⟩ := inv_mapM_perLine hA l s1 ss _ h3
    refine ⟨ps1 ++ ps2, by rw [e2, e1, List.reverse_append, List.append_assoc], by rw [consList_append, c1, c2]; rfl, ?_⟩
    rcases p1 with ⟨L, hL, hs, hk⟩ | ⟨hL, hs⟩
    · refine ⟨⟨s :: sts', ?_, bodyStatus_congr s hb⟩, ?_⟩
      · rw [lineRecs_append, hL]; exact ⟨hs, hE⟩
      · apply noCond_append _ hnc
        intro r hr; rw [hL] at hr; simp at hr; rw [hr]; exact hk
    · refine ⟨⟨sts', ?_, ?_⟩, ?_⟩
      · rw [lineRecs_append, hL]; exact hE
      · rw [hs, bodyStatus_cons]; exact hb
      · apply noCond_append _ hnc
        intro r hr; rw [hL] at hr; simp at hr

theorem cf_cnf (env : Env) (fuel : Nat) (ih : AllInv env fuel) (c : Cnf) : Inv (evalCnf env (fuel + 1) c) PCnf := by
  simp only [evalCnf]
  intro st a st' h
  obtain ⟨lines, s1, h1, h2⟩ := M.bind_ok h
  obtain ⟨rfl, rfl⟩ := M.pure_ok h2
  obtain ⟨ps, e, cc, ⟨sts', hE, hb⟩, hnc⟩ := inv_mapM_perLine (cf_perLine env fuel ih) c st lines _ h1
  exact ⟨ps, e, cc, ⟨sts', hE, hb.symm⟩, hnc⟩

theorem cf_block (env : Env) (fuel : Nat) (ih : AllInv env fuel) (lets : List LetExpr) (c : Cnf) :
    Inv (evalGeneralBlock env (fuel + 1) lets c) PCnf := by
  simp only [evalGeneralBlock]
  intro st a st' h
  obtain ⟨root, s1, h1, h2⟩ := M.bind_ok h
  obtain ⟨_, s2, h3, h4⟩ := M.bind_ok h2
  obtain ⟨s, s3, h5, h6⟩ := M.bind_ok h4
  obtain ⟨_, s4, h7, h8⟩ := M.bind_ok h6
  obtain ⟨ea, es⟩ := M.pure_ok h8
  have e1 : s1.recs = st.recs := by
    unfold currentRoot at h1; split at h1
    · cases h1; rfl
    · cases h1
  have e2 : s2.recs = s1.recs := by
    change (Outcome.ok ((), _)) = .ok (_, s2) at h3
    cases h3; rfl
  have e4 : s4.recs = s3.recs := by
    change (Outcome.ok ((), _)) = .ok (_, s4) at h7
    cases h7; rfl
  obtain ⟨ps, e, cc, p⟩ := ih.cnf c s2 s s3 h5
  exact ⟨ps, by rw [es, e4, e, e2, e1], cc, by rw [ea]; exact p⟩

/-! ### rules -/

theorem isCond_ruleCondition (c : Status) : isCond (RecKind.ruleCondition c) = true := rfl

/-- the children of a rule (or `when` block) record: an optional condition record, then the lines of the body -/
theorem nodeOk_rule_nocond {name : Str} {s : Status} {m : Option Str} {ps : List Rec}
    (h : PCnf s ps) : nodeOk (.ruleCheck name s m) ps = true := by
  obtain ⟨⟨sts, hE, hs⟩, hnc⟩ := h
  simp only [nodeOk]
  split
  · rename_i c ch rest hl
    have := hnc (Rec.node (.ruleCondition c) ch) (by rw [hl]; simp)
    simp [Rec.kind, isCond] at this
  · exact aggOk_of_explains hE hs

theorem cf_rule (env : Env) (fuel : Nat) (ih : AllInv env fuel) (r : Rule) :
    Inv (evalRule env (fuel + 1) r) (fun s ps => ∃ ch, ps = [Rec.node (.ruleCheck r.name s none) ch]) := by
  simp only [evalRule]
  refine inv_withRec (P1 := fun s ps => nodeOk (.ruleCheck r.name s none) ps = true) ?_ (fun s ps _ h => ⟨h, ps, rfl⟩)
  split
  · rename_i cs hcs
    -- a condition record, then (if it passed) the body
    intro st a st' h
    obtain ⟨c, s1, h1, h2⟩ := M.bind_ok h
    have hcond : Inv (withRec RecKind.ruleCondition (evalCnf env fuel cs))
        (fun c ps => ∃ ch, ps = [Rec.node (.ruleCondition c) ch]) := by
      apply inv_withRec (ih.cnf cs)
      intro c ps _ ⟨⟨sts, hE, hs⟩, _⟩
      exact ⟨by simp only [nodeOk]; exact aggOk_of_explains hE hs, ps, rfl⟩
    obtain ⟨ps1, e1, c1, ch, hps1⟩ := hcond st c s1 h1
    by_cases hc : (c != Status.pass) = true
    · simp only [hc, ↓reduceIte] at h2
      obtain ⟨rfl, rfl⟩ := M.pure_ok h2
      refine ⟨ps1, e1, c1, ?_⟩
      rw [hps1]
      simp [nodeOk, lineRecs, Rec.kind, RecKind.isFilter, hc]
    · simp only [hc, Bool.false_eq_true, ↓reduceIte] at h2
      obtain ⟨ps2, e2, c2, ⟨sts, hE, hs⟩, hnc⟩ := ih.block r.lets r.cnf s1 a st' h2
      refine ⟨ps1 ++ ps2, by rw [e2, e1, List.reverse_append, List.append_assoc], by rw [consList_append, c1, c2]; rfl, ?_⟩
      rw [hps1]
      simp only [nodeOk, List.cons_append, List.nil_append]
      have hl : lineRecs (Rec.node (RecKind.ruleCondition c) ch :: ps2) = Rec.node (RecKind.ruleCondition c) ch :: lineRecs ps2 := by
        simp [lineRecs, Rec.kind, RecKind.isFilter]
      rw [hl]
      simp only [hc, Bool.false_eq_true, ↓reduceIte]
      exact aggOk_of_explains hE hs
  · exact inv_weaken (ih.block r.lets r.cnf) fun s ps _ h => nodeOk_rule_nocond h

theorem allRule_nil : AllRule [] := by intro r hr; simp [lineRecs] at hr

theorem allRule_append {a b : List Rec} (ha : AllRule a) (hb : AllRule b) : AllRule (a ++ b) := by
  intro r hr
  rw [lineRecs_append, List.mem_append] at hr
  rcases hr with h | h
  · exact ha r h
  · exact hb r h

theorem allRule_single (n : Str) (s : Status) (m : Option Str) (ch : List Rec) : AllRule [Rec.node (.ruleCheck n s m) ch] := by
  intro r hr
  simp [lineRecs, Rec.kind, RecKind.isFilter] at hr
  exact ⟨n, s, m, ch, hr⟩

theorem cf_fns (env : Env) (fuel : Nat) (ih : AllInv env fuel) : ∀ (rules : List Rule),
    Inv (firstNonSkip env (fuel + 1) rules) (fun _ ps => AllRule ps)
  | [] => by simp only [firstNonSkip]; exact inv_pure _ allRule_nil
  | r :: rest => by
    simp only [firstNonSkip]
    intro st a st' h
    obtain ⟨s, s1, h1, h2⟩ := M.bind_ok h
    obtain ⟨ps1, e1, c1, ch, hps1⟩ := ih.rule r st s s1 h1
    by_cases hs : (s != Status.skip) = true
    · simp only [hs, ↓reduceIte] at h2
      obtain ⟨rfl, rfl⟩ := M.pure_ok h2
      exact ⟨ps1, e1, c1, by rw [hps1]; exact allRule_single _ _ _ _⟩
    · simp only [hs, Bool.false_eq_true, ↓reduceIte] at h2
      obtain ⟨ps2, e2, c2, p2⟩ := ih.fns rest s1 a st' h2
      refine ⟨ps1 ++ ps2, by rw [e2, e1, List.reverse_append, List.append_assoc], by rw [consList_append, c1, c2]; rfl, ?_⟩
      exact allRule_append (by rw [hps1]; exact allRule_single _ _ _ _) p2

theorem cf_rstat (env : Env) (fuel : Nat) (ih : AllInv env fuel) (name : Str) :
    Inv (ruleStatus env (fuel + 1) name) (fun _ ps => AllRule ps) := by
  intro st0 a st' h0
  simp only [ruleStatus] at h0
  obtain ⟨stg, s1, hg, h1⟩ := M.bind_ok h0
  have eg : stg = st0 ∧ s1 = st0 := by
    change (Outcome.ok (st0, st0)) = .ok (stg, s1) at hg
    cases hg; exact ⟨rfl, rfl⟩
  rw [eg.1, eg.2] at h1
  clear hg eg h0
  cases hlk : alLookup name st0.ruleStatus with
  | some sv => rw [hlk] at h1; obtain ⟨_, e⟩ := M.pure_ok h1; exact ⟨[], by rw [e]; rfl, rfl, allRule_nil⟩
  | none =>
    rw [hlk] at h1
    obtain ⟨rules, s2, hr, h2⟩ := M.bind_ok h1
    have e2 : s2 = st0 := by
      unfold rulesNamed at hr
      obtain ⟨x, s3, hg2, hp⟩ := M.bind_ok hr
      have : s3 = st0 := by
        change (Outcome.ok (st0, st0)) = .ok (x, s3) at hg2
        cases hg2; rfl
      rw [← this]; exact (M.pure_ok hp).2
    rw [e2] at h2
    by_cases he : rules.isEmpty = true
    · simp only [he, ↓reduceIte] at h2; cases h2
    · by_cases hp : st0.rulesInProgress.contains name = true
      · simp only [he, hp, ↓reduceIte] at h2; cases h2
      · simp only [he, hp, ↓reduceIte] at h2
        obtain ⟨_, s3, hm1, h3⟩ := M.bind_ok h2
        obtain ⟨s, s4, hfns, h4⟩ := M.bind_ok h3
        obtain ⟨_, s5, hm2, h5⟩ := M.bind_ok h4
        obtain ⟨_, e6⟩ := M.pure_ok h5
        have e3 : s3.recs = st0.recs := by
          change (Outcome.ok ((), _)) = .ok (_, s3) at hm1
          cases hm1; rfl
        have e5 : s5.recs = s4.recs := by
          change (Outcome.ok ((), _)) = .ok (_, s5) at hm2
          cases hm2; rfl
        obtain ⟨ps, en, cc, p⟩ := ih.fns _ _ _ _ hfns
        exact ⟨ps, by rw [e6, e5, en, e3], cc, p⟩

theorem consistent_rule_msg {n : Str} {s : Status} {m m' : Option Str} {ch : List Rec}
    (h : Consistent (Rec.node (.ruleCheck n s m) ch) = true) : Consistent (Rec.node (.ruleCheck n s m') ch) = true := by
  simp only [Consistent, nodeOk] at h ⊢
  exact h

theorem cf_pcall (env : Env) (fuel : Nat) (ih : AllInv env fuel) (rule : Str) (neg : Bool) (msg : Option Str)
    (params : List LetValue) : Inv (evalParamCall env (fuel + 1) rule neg msg params) PClause := by
  simp only [evalParamCall]
  intro st a st' h
  obtain ⟨pr, s0, hpr, h⟩ := M.bind_ok h
  have e0 : s0 = st := by
    unfold findParamRule at hpr
    obtain ⟨x, s3, hg2, hp⟩ := M.bind_ok hpr
    have : s3 = st := by
      change (Outcome.ok (st, st)) = .ok (x, s3) at hg2
      cases hg2; rfl
    rw [← this]
    revert hp
    generalize (List.filter (fun r => decide (r.rule.name = rule)) x.file.prules).getLast? = g
    intro hp
    cases g with
    | some r => exact (M.pure_ok hp).2
    | none => cases hp
  rw [e0] at h
  split at h
  · cases h
  · obtain ⟨vals, s1, hv, h⟩ := M.bind_ok h
    have hvals : InvF (params.mapM fun p => match p with
        | .value v => (pure [QR.resolved v] : M (List QR))
        | .access q _ => queryCtx env fuel q
        | .func n ps => resolveFunction env fuel n ps) := by
      refine invf_mapM (fun p => ?_) _
      cases p with
      | value v => exact invf_pure _
      | access q a => exact ih.qctx q
      | func n ps => exact ih.rfun n ps
    obtain ⟨ps1, e1, c1, f1⟩ := hvals st vals s1 hv
    obtain ⟨_, s2, h2, h⟩ := M.bind_ok h
    obtain ⟨s, s3, h3, h⟩ := M.bind_ok h
    obtain ⟨_, s4, h4, h⟩ := M.bind_ok h
    obtain ⟨_, s5, h5, h6⟩ := M.bind_ok h
    obtain ⟨ea, e6⟩ := M.pure_ok h6
    have e2 : s2.recs = s1.recs := by
      change (Outcome.ok ((), _)) = .ok (_, s2) at h2
      cases h2; rfl
    obtain ⟨ps3, e3, c3, ch, hps3⟩ := ih.rule pr.rule s2 s s3 h3
    have e4 : s4.recs = s3.recs := by
      change (Outcome.ok ((), _)) = .ok (_, s4) at h4
      cases h4; rfl
    have e5 : s5 = (match s4.recs with
        | .node (.ruleCheck n s' _) ch :: rest =>
          if n = rule then { s4 with recs := .node (.ruleCheck n s' msg) ch :: rest } else s4
        | _ => s4) := by
      change (Outcome.ok ((), _)) = .ok (_, s5) at h5
      cases h5; rfl
    have hrecs4 : s4.recs = Rec.node (.ruleCheck pr.rule.name s none) ch :: (ps1.reverse ++ st.recs) := by
      rw [e4, e3, hps3, e2, e1]; rfl
    -- whichever message the record ends up with, it is the same consistent `RuleCheck`
    have hfinal : ∃ m', s5.recs = Rec.node (.ruleCheck pr.rule.name s m') ch :: (ps1.reverse ++ st.recs) := by
      rw [e5, hrecs4]
      simp only
      split
      · exact ⟨msg, rfl⟩
      · exact ⟨none, hrecs4⟩
    obtain ⟨m', hm'⟩ := hfinal
    have hcons : Consistent (Rec.node (.ruleCheck pr.rule.name s m') ch) = true := by
      rw [hps3] at c3
      simp only [ConsistentList, Bool.and_true] at c3
      exact consistent_rule_msg c3
    refine ⟨ps1 ++ [Rec.node (.ruleCheck pr.rule.name s m') ch], ?_, ?_, Rec.node (.ruleCheck pr.rule.name s m') ch, ?_, ?_, rfl⟩
    · rw [e6, hm']; simp
    · rw [consList_append, c1]; simp [ConsistentList, hcons]
    · rw [lineRecs_append, f1]; simp [lineRecs, Rec.kind, RecKind.isFilter]
    · rw [ea]
      simp only [lineOptions, Rec.kind]
      cases neg <;> cases s <;> simp

/-! ### comparisons -/

theorem VC_append (a b : List Rec) : VC (a ++ b) = VC a ++ VC b := by simp [VC]

theorem VC_onlyF : ∀ {ps : List Rec}, OnlyF ps → VC ps = []
  | [], _ => rfl
  | r :: ps, h => by
    unfold OnlyF lineRecs at h
    rw [List.filter_cons] at h
    split at h
    · cases h
    · rename_i hk
      have hf : r.kind.isFilter = true := by simpa using hk
      have ih : VC ps = [] := VC_onlyF (by unfold OnlyF lineRecs; exact h)
      have : isValueCheck r = false := by
        cases r with
        | node k ch => cases k <;> simp_all [isValueCheck, Rec.kind, RecKind.isFilter]
      simp only [VC, List.filter_cons, this] at ih ⊢
      simpa using ih

theorem VC_leaves {γ} : ∀ (es : List (RecKind × QR × γ)), (∀ e ∈ es, ∃ c, e.1 = .clauseValueCheck c) →
    VC (leaves es) = es.map fun e => (Rec.node e.1 []).status
  | [], _ => rfl
  | e :: es, h => by
    obtain ⟨c, hc⟩ := h e (by simp)
    have ih := VC_leaves es fun e' he' => h e' (List.mem_cons_of_mem _ he')
    simp only [VC, leaves] at ih ⊢
    rw [List.map_cons, List.filter_cons]
    simp only [hc, isValueCheck, ↓reduceIte, List.map_cons]
    exact congrArg _ ih

theorem reportVER_good (op : CmpOp) (opNot : Bool) (msg : Option Str) (v : VER) : ∀ e ∈ reportVER op opNot msg v, GoodB e := by
  intro e he
  cases v with
  | lhsUnresolved ur => simp [reportVER] at he; subst he; exact ⟨⟨_, rfl⟩, by simp [Rec.status, RecKind.status?]⟩
  | cmp c =>
    cases c with
    | rhsUnresolved ur lhs => simp [reportVER] at he; subst he; exact ⟨⟨_, rfl⟩, by simp [Rec.status, RecKind.status?]⟩
    | notComparable l r => simp [reportVER] at he; subst he; exact ⟨⟨_, rfl⟩, by simp [Rec.status, RecKind.status?]⟩
    | success cc =>
      cases cc with
      | listIn d l r => simp [reportVER] at he; subst he; exact ⟨⟨_, rfl⟩, by simp [Rec.status, RecKind.status?]⟩
      | queryIn d l r =>
        simp only [reportVER, List.mem_map] at he
        obtain ⟨x, _, rfl⟩ := he
        exact ⟨⟨_, rfl⟩, by simp [Rec.status, RecKind.status?]⟩
      | value l r => simp [reportVER] at he; subst he; exact ⟨⟨_, rfl⟩, by simp [Rec.status, RecKind.status?]⟩
      | valueIn l r => simp [reportVER] at he; subst he; exact ⟨⟨_, rfl⟩, by simp [Rec.status, RecKind.status?]⟩
    | fail cc =>
      cases cc with
      | listIn d l r => simp [reportVER] at he; subst he; exact ⟨⟨_, rfl⟩, by simp [Rec.status, RecKind.status?]⟩
      | queryIn d l r =>
        simp only [reportVER, List.mem_map] at he
        obtain ⟨x, _, rfl⟩ := he
        exact ⟨⟨_, rfl⟩, by simp [Rec.status, RecKind.status?]⟩
      | value l r => simp [reportVER] at he; subst he; exact ⟨⟨_, rfl⟩, by simp [Rec.status, RecKind.status?]⟩
      | valueIn l r => simp [reportVER] at he; subst he; exact ⟨⟨_, rfl⟩, by simp [Rec.status, RecKind.status?]⟩

theorem AllVC_nil : AllVC [] := rfl

theorem AllVC_onlyF {ps : List Rec} (h : OnlyF ps) : AllVC ps := by
  unfold AllVC; unfold OnlyF at h; rw [h]; rfl

theorem AllVC_append {a b : List Rec} (ha : AllVC a) (hb : AllVC b) : AllVC (a ++ b) := by
  unfold AllVC at *; rw [lineRecs_append, List.all_append, ha, hb]; rfl

theorem AllVC_leaf (c : ClauseCheck) : AllVC [Rec.node (.clauseValueCheck c) []] := by
  simp [AllVC, lineRecs, Rec.kind, RecKind.isFilter, isValueCheck]

theorem AllVC_leaves {γ} : ∀ (es : List (RecKind × QR × γ)), (∀ e ∈ es, ∃ c, e.1 = .clauseValueCheck c) → AllVC (leaves es)
  | [], _ => rfl
  | e :: es, h => by
    obtain ⟨c, hc⟩ := h e (by simp)
    have ih := AllVC_leaves es fun e' he' => h e' (List.mem_cons_of_mem _ he')
    have : leaves (e :: es) = [Rec.node (.clauseValueCheck c) []] ++ leaves es := by simp [leaves, hc]
    rw [this]; exact AllVC_append (AllVC_leaf c) ih

theorem cf_binary (env : Env) (fuel : Nat) (ih : AllInv env fuel) (q : List QueryPart) (rhs : List QR) (op : CmpOp)
    (opNot : Bool) (msg : Option Str) : Inv (binaryOperation env (fuel + 1) q rhs op opNot msg) POpV := by
  simp only [binaryOperation]
  intro st res st' h
  obtain ⟨lhs, s1, h1, h2⟩ := M.bind_ok h
  obtain ⟨ps1, e1, c1, f1⟩ := ih.qctx q st lhs s1 h1
  obtain ⟨results, s2, h3, h4⟩ := M.bind_ok h2
  obtain ⟨_, es2⟩ := liftO_ok h3
  rw [es2] at h4
  cases results with
  | skip =>
    simp only at h4
    obtain ⟨rfl, rfl⟩ := M.pure_ok h4
    exact ⟨ps1, e1, c1, Or.inl (VC_onlyF f1), AllVC_onlyF f1⟩
  | result rs =>
    simp only at h4
    obtain ⟨_, s3, h5, h6⟩ := M.bind_ok h4
    obtain ⟨eres, es3⟩ := M.pure_ok h6
    have hgood : ∀ e ∈ (rs.map (reportVER op opNot msg)).flatten, GoodB e := by
      intro e he
      obtain ⟨row, hrow, her⟩ := List.mem_flatten.mp he
      obtain ⟨v, _, rfl⟩ := List.mem_map.mp hrow
      exact reportVER_good op opNot msg v e her
    have hemit := inv_forIn_emit (rs.map (reportVER op opNot msg)).flatten (fun e he => (hgood e he).1)
    have h5' : (forIn (rs.map (reportVER op opNot msg)).flatten PUnit.unit fun (x : RecKind × QR × Bool) (_ : PUnit) => do
          emit x.1
          pure (ForInStep.yield PUnit.unit) : M PUnit) s1 = .ok (PUnit.unit, s3) := h5
    obtain ⟨ps2, e2, c2, p2⟩ := hemit s1 _ s3 h5'
    refine ⟨ps1 ++ ps2, by rw [es3, e2, e1, List.reverse_append, List.append_assoc], by rw [consList_append, c1, c2]; rfl, ?_⟩
    rw [eres]
    refine ⟨?_, AllVC_append (AllVC_onlyF f1) (by rw [p2]; exact AllVC_leaves _ (fun e he => (hgood e he).1))⟩
    simp only [POp]
    rw [VC_append, VC_onlyF f1, p2, VC_leaves _ (fun e he => (hgood e he).1)]
    simp only [List.nil_append, List.map_map]
    apply List.map_congr_left
    intro e he
    exact (hgood e he).2

theorem VC_single (c : ClauseCheck) : VC [Rec.node (.clauseValueCheck c) []] = [(Rec.node (.clauseValueCheck c) []).status] := by
  unfold VC
  rw [List.filter_cons]
  simp only [isValueCheck, ↓reduceIte, List.filter_nil, List.map_cons, List.map_nil]

/-- one value, one leaf: the check emits exactly one value-check record whose status is the reported outcome -/
def PEach (r : QR × Bool) (ps : List Rec) : Prop :=
  ∃ c, ps = [Rec.node (.clauseValueCheck c) []] ∧ ((Rec.node (.clauseValueCheck c) []).status == Status.pass) = r.2

theorem inv_mapM_each {α} {f : α → M (QR × Bool)} (hf : ∀ a, Inv (f a) PEach) : ∀ (l : List α),
    Inv (l.mapM f) (fun rs ps => (VC ps).map (· == Status.pass) = rs.map (·.2) ∧ AllVC ps)
  | [] => by rw [List.mapM_nil]; exact inv_pure _ ⟨rfl, AllVC_nil⟩
  | a :: l => by
    rw [List.mapM_cons]
    intro st res st' h
    obtain ⟨r, s1, h1, h2⟩ := M.bind_ok h
    obtain ⟨rs, s2, h3, h4⟩ := M.bind_ok h2
    obtain ⟨eres, es⟩ := M.pure_ok h4
    obtain ⟨ps1, e1, c1, c, hps, hb⟩ := hf a st r s1 h1
    obtain ⟨ps2, e2, c2, p2, v2⟩ := inv_mapM_each hf l s1 rs s2 h3
    refine ⟨ps1 ++ ps2, by rw [es, e2, e1, List.reverse_append, List.append_assoc], by rw [consList_append, c1, c2]; rfl, ?_,
      AllVC_append (by rw [hps]; exact AllVC_leaf c) v2⟩
    show (VC (ps1 ++ ps2)).map (· == Status.pass) = res.map (·.2)
    rw [eres, VC_append, List.map_append, p2, hps]
    have : VC [Rec.node (.clauseValueCheck c) []] = [(Rec.node (.clauseValueCheck c) []).status] := by
      unfold VC
      rw [List.filter_cons]
      simp only [isValueCheck, ↓reduceIte, List.filter_nil, List.map_cons, List.map_nil]
    rw [this]
    simp [hb]

theorem inv_emit_leaf (c : ClauseCheck) (r : QR × Bool)
    (hb : ((Rec.node (.clauseValueCheck c) []).status == Status.pass) = r.2) :
    Inv (do emit (.clauseValueCheck c); pure r : M (QR × Bool)) PEach := by
  intro st a st' h
  obtain ⟨_, s1, h1, h2⟩ := M.bind_ok h
  obtain ⟨ea, es⟩ := M.pure_ok h2
  have e1 : s1 = { st with recs := Rec.node (.clauseValueCheck c) [] :: st.recs } := by
    change (Outcome.ok ((), _)) = .ok (_, s1) at h1
    cases h1; rfl
  refine ⟨[Rec.node (.clauseValueCheck c) []], by rw [es, e1]; rfl, by simp [ConsistentList, Consistent, nodeOk_valueCheck], c, rfl, ?_⟩
  rw [ea]; exact hb

/-- a single emitted leaf followed by a result -/
theorem emit_then_pure {α} (c : ClauseCheck) (x : α) (st st' : St) (a : α)
    (h : (do emit (.clauseValueCheck c); pure x : M α) st = .ok (a, st')) :
    a = x ∧ st'.recs = [Rec.node (.clauseValueCheck c) []].reverse ++ st.recs := by
  obtain ⟨_, s1, h1, h2⟩ := M.bind_ok h
  obtain ⟨ea, es⟩ := M.pure_ok h2
  have e1 : s1 = { st with recs := Rec.node (.clauseValueCheck c) [] :: st.recs } := by
    change (Outcome.ok ((), _)) = .ok (_, s1) at h1
    cases h1; rfl
  exact ⟨ea, by rw [es, e1]; rfl⟩

theorem cf_unary (env : Env) (fuel : Nat) (ih : AllInv env fuel) (q : List QueryPart) (op : CmpOp) (opNot inverse : Bool)
    (msg : Option Str) : Inv (unaryOperation env (fuel + 1) q op opNot inverse msg) POpV := by
  intro st res st' h
  have key : ∃ (lhs : List QR) (s1 : St) (ps1 : List Rec), st.recs = st.recs ∧ s1.recs = ps1.reverse ++ st.recs ∧ ConsistentList ps1 = true ∧ OnlyF ps1 ∧
      ∃ ps2, st'.recs = ps2.reverse ++ s1.recs ∧ ConsistentList ps2 = true ∧ POp res ps2 ∧ AllVC ps2 := by
    cases hq : q.getLast? with
    | none =>
      simp only [unaryOperation, hq] at h
      obtain ⟨lhs, s1, h1, h2⟩ := M.bind_ok h
      obtain ⟨eoe, s2, h3, h4⟩ := M.bind_ok h2
      cases h3
    | some part =>
    cases part
    all_goals (simp only [unaryOperation, hq] at h)
    all_goals (obtain ⟨lhs, s1, h1, h2⟩ := M.bind_ok h)
    all_goals (obtain ⟨ps1, e1, c1, f1⟩ := ih.qctx q st lhs s1 h1)
    all_goals (refine ⟨lhs, s1, ps1, rfl, e1, c1, f1, ?_⟩)
    all_goals (obtain ⟨eoe, s2, h3, h4⟩ := M.bind_ok h2)
    all_goals (
      have es2 : s2 = s1 := (M.pure_ok h3).2
      rw [es2] at h4
      clear h3 h2 h h1
      split at h4
      · split at h4
        · obtain ⟨rs, s3, h5, h6⟩ := M.bind_ok h4
          obtain ⟨eres, es3⟩ := M.pure_ok h6
          have hm := inv_mapM_each (f := fun each => do
              let result : QR := match each with
                | .literal res | .resolved res => QR.resolved res
                | .unresolved ur => QR.unresolved ur
              let st := emptyExprCheck opNot inverse each
              if st then emit (.clauseValueCheck .success)
              else emit (.clauseValueCheck (.unary result op opNot msg))
              pure (result, st)) (fun each => by
                by_cases hb : emptyExprCheck opNot inverse each = true
                · simp only [hb, ↓reduceIte]
                  exact inv_emit_leaf .success _ (by simp [Rec.status, RecKind.status?, hb])
                · have hb' : emptyExprCheck opNot inverse each = false := by
                    cases hh : emptyExprCheck opNot inverse each
                    · rfl
                    · exact absurd hh hb
                  simp only [hb', Bool.false_eq_true, ↓reduceIte]
                  exact inv_emit_leaf _ _ (by simp [Rec.status, RecKind.status?, hb'])) lhs
          obtain ⟨ps2, e2, c2, p2, v2⟩ := hm s1 rs s3 h5
          refine ⟨ps2, by rw [es3]; exact e2, c2, ?_, v2⟩
          rw [eres]; exact p2
        · by_cases hr : emptyExprNoValue opNot inverse = true
          · simp only [hr, ↓reduceIte] at h4
            obtain ⟨ea, er⟩ := emit_then_pure _ _ _ _ _ h4
            refine ⟨[_], er, by simp [ConsistentList, Consistent, nodeOk_valueCheck], ?_, AllVC_leaf _⟩
            rw [ea]
            right
            exact ⟨true, by rw [VC_single, status_valueCheck]; rfl, rfl⟩
          · have hr' : emptyExprNoValue opNot inverse = false := by
              cases hh : emptyExprNoValue opNot inverse
              · rfl
              · exact absurd hh hr
            simp only [hr', Bool.false_eq_true, ↓reduceIte] at h4
            obtain ⟨ea, er⟩ := emit_then_pure _ _ _ _ _ h4
            refine ⟨[_], er, by simp [ConsistentList, Consistent, nodeOk_valueCheck], ?_, AllVC_leaf _⟩
            rw [ea]
            right
            exact ⟨false, by rw [VC_single, status_valueCheck]; rfl, rfl⟩
      · split at h4
        · obtain ⟨eres, es3⟩ := M.pure_ok h4
          refine ⟨[], by rw [es3]; rfl, rfl, ?_, AllVC_nil⟩
          rw [eres]; exact Or.inl rfl
        · obtain ⟨rs, s3, h5, h6⟩ := M.bind_ok h4
          obtain ⟨eres, es3⟩ := M.pure_ok h6
          have hm := inv_mapM_each (f := fun each => do
              let b ← liftO (unaryCheck op opNot inverse each)
              let shown : QR := match each with | .literal v => .resolved v | other => other
              if b then emit (.clauseValueCheck .success)
              else emit (.clauseValueCheck (.unary shown op opNot msg))
              pure (each, b)) (fun each => by
                intro st0 a0 st0' h0
                obtain ⟨b, t1, hb1, hb2⟩ := M.bind_ok h0
                obtain ⟨_, et1⟩ := liftO_ok hb1
                rw [et1] at hb2
                by_cases hb : b = true
                · simp only [hb, ↓reduceIte] at hb2
                  exact inv_emit_leaf .success _ (by simp [Rec.status, RecKind.status?, hb]) st0 a0 st0' hb2
                · have hb' : b = false := by cases b <;> simp_all
                  simp only [hb', Bool.false_eq_true, ↓reduceIte] at hb2
                  exact inv_emit_leaf _ _ (by simp [Rec.status, RecKind.status?, hb']) st0 a0 st0' hb2) lhs
          obtain ⟨ps2, e2, c2, p2, v2⟩ := hm s1 rs s3 h5
          refine ⟨ps2, by rw [es3]; exact e2, c2, ?_, v2⟩
          rw [eres]; exact p2)
  obtain ⟨lhs, s1, ps1, _, e1, c1, f1, ps2, e2, c2, p2, v2⟩ := key
  refine ⟨ps1 ++ ps2, by rw [e2, e1, List.reverse_append, List.append_assoc], by rw [consList_append, c1, c2]; rfl, ?_,
    AllVC_append (AllVC_onlyF f1) v2⟩
  cases res with
  | emptyQueryResult s =>
    simp only [POp, VC_append, VC_onlyF f1, List.nil_append] at p2 ⊢
    exact p2
  | queryValueResult rs =>
    simp only [POp, VC_append, VC_onlyF f1, List.nil_append] at p2 ⊢
    exact p2

/-! ### clauses -/

theorem clauseStatus_true_single (b : Bool) : clauseStatus true [b] = boolStatus b := by cases b <;> rfl

def resStatus (all : Bool) : EvaluationResult → Status
  | .emptyQueryResult s => s
  | .queryValueResult rs => clauseStatus all (rs.map (·.2))

theorem nodeOk_gcbc_of_POp (all : Bool) (res : EvaluationResult) (ps : List Rec) (hh : POpV res ps) :
    nodeOk (.guardClauseBlockCheck (resStatus all res)) ps = true := by
  obtain ⟨h, hv⟩ := hh
  simp only [nodeOk]
  rw [show ((lineRecs ps).all isValueCheck) = true from hv, Bool.true_and]
  change (if (VC ps).isEmpty then true else
    (resStatus all res == clauseStatus true ((VC ps).map (· == Status.pass)) ||
     resStatus all res == clauseStatus false ((VC ps).map (· == Status.pass)))) = true
  cases res with
  | emptyQueryResult s =>
    simp only [POp] at h
    rcases h with h | ⟨b, hv, hs⟩
    · simp [h]
    · rw [hv, hs]
      cases b <;> simp [boolStatus, clauseStatus, resStatus]
  | queryValueResult rs =>
    simp only [POp] at h
    by_cases he : (VC ps).isEmpty = true
    · simp [he]
    · simp only [he, Bool.false_eq_true, ↓reduceIte, h, resStatus]
      cases all <;> simp

theorem POp_prefix {res : EvaluationResult} {ps1 ps2 : List Rec} (h1 : OnlyF ps1) (hh : POpV res ps2) : POpV res (ps1 ++ ps2) := by
  obtain ⟨h2, hv⟩ := hh
  refine ⟨?_, AllVC_append (AllVC_onlyF h1) hv⟩
  cases res with
  | emptyQueryResult s => simp only [POp, VC_append, VC_onlyF h1, List.nil_append] at h2 ⊢; exact h2
  | queryValueResult rs => simp only [POp, VC_append, VC_onlyF h1, List.nil_append] at h2 ⊢; exact h2

theorem finish_clause {all : Bool} {res : EvaluationResult} {ps : List Rec} {s1 st' : St} {a : Status} (hp : POpV res ps)
    (h2 : (match res with
      | .emptyQueryResult s => (pure s : M Status)
      | .queryValueResult rs => pure (clauseStatus all (rs.map (fun x : QR × Bool => x.2)))) s1 = .ok (a, st')) :
    st' = s1 ∧ nodeOk (.guardClauseBlockCheck a) ps = true := by
  have ha : a = resStatus all res ∧ st' = s1 := by
    cases res with
    | emptyQueryResult s => exact M.pure_ok h2
    | queryValueResult rs => exact M.pure_ok h2
  exact ⟨ha.2, by rw [ha.1]; exact nodeOk_gcbc_of_POp all res ps hp⟩

theorem cf_clause_access (env : Env) (fuel : Nat) (ih : AllInv env fuel) (neg : Bool) (q : List QueryPart) (all : Bool)
    (op : CmpOp) (opNot : Bool) (withV : Option LetValue) (msg : Option Str) :
    Inv (evalClause env (fuel + 1) (.access neg q all op opNot withV msg)) PClause := by
  simp only [evalClause]
  refine inv_withRec (P1 := fun s ps => nodeOk (.guardClauseBlockCheck s) ps = true) ?_ ?_
  · intro st a st' h
    -- after the right-hand side (only filter records) and the operation (`POp`), the status is `resStatus`
    have fin : ∀ (rhs : List QR) (s0 : St) (ps0 : List Rec), s0.recs = ps0.reverse ++ st.recs → ConsistentList ps0 = true → OnlyF ps0 →
        (do let res ← binaryOperation env fuel q rhs op (opNot != neg) msg
            match res with
              | .emptyQueryResult s => (pure s : M Status)
              | .queryValueResult rs => pure (clauseStatus all (rs.map (fun x : QR × Bool => x.2)))) s0 = .ok (a, st') →
        ∃ ps, st'.recs = ps.reverse ++ st.recs ∧ ConsistentList ps = true ∧ nodeOk (.guardClauseBlockCheck a) ps = true := by
      intro rhs s0 ps0 e0 c0 f0 hb
      obtain ⟨res, s1, hb1, hb2⟩ := M.bind_ok hb
      obtain ⟨psb, eb, cb, pb⟩ := ih.binary q rhs op (opNot != neg) msg s0 res s1 hb1
      obtain ⟨es, hn⟩ := finish_clause (ps := ps0 ++ psb) (POp_prefix f0 pb) hb2
      exact ⟨ps0 ++ psb, by rw [es, eb, e0, List.reverse_append, List.append_assoc], by rw [consList_append, c0, cb]; rfl, hn⟩
    split at h
    · obtain ⟨res, s1, h1, h2⟩ := M.bind_ok h
      obtain ⟨ps, e, c, p⟩ := ih.unary q op opNot neg msg st res s1 h1
      obtain ⟨es, hn⟩ := finish_clause p h2
      exact ⟨ps, by rw [es]; exact e, c, hn⟩
    · split at h
      · obtain ⟨rhs, s0, hr, hb⟩ := M.bind_ok h
        obtain ⟨_, es⟩ := M.pure_ok hr
        exact fin rhs s0 [] (by rw [es]; rfl) rfl rfl hb
      · obtain ⟨rhs, s0, hr, hb⟩ := M.bind_ok h
        obtain ⟨ps0, e0, c0, f0⟩ := ih.qctx _ st rhs s0 hr
        exact fin rhs s0 ps0 e0 c0 f0 hb
      · obtain ⟨rhs, s0, hr, hb⟩ := M.bind_ok h
        obtain ⟨ps0, e0, c0, f0⟩ := ih.rfun _ _ st rhs s0 hr
        exact fin rhs s0 ps0 e0 c0 f0 hb
      · obtain ⟨rhs, s0, hr, hb⟩ := M.bind_ok h
        cases hr
  · intro s ps _ h
    exact ⟨h, Rec.node (.guardClauseBlockCheck s) ps, by simp [lineRecs, Rec.kind, RecKind.isFilter],
      by simp [lineOptions, Rec.kind, RecKind.status?], rfl⟩

theorem cf_clause_named (env : Env) (fuel : Nat) (ih : AllInv env fuel) (rule : Str) (neg : Bool) (msg : Option Str) :
    Inv (evalClause env (fuel + 1) (.named rule neg msg)) PClause := by
  simp only [evalClause]
  refine inv_withRec (P1 := fun s ps => AllRule ps ∧ (s = Status.pass ∨ s = Status.fail)) ?_ ?_
  · intro st a st' h
    obtain ⟨s, s1, h1, h2⟩ := M.bind_ok h
    obtain ⟨ea, es⟩ := M.pure_ok h2
    obtain ⟨ps, e, c, p⟩ := ih.rstat rule st s s1 h1
    refine ⟨ps, by rw [es]; exact e, c, p, ?_⟩
    rw [ea]
    cases s <;> cases neg <;> simp [namedStatus]
  · intro s ps _ ⟨hall, hs⟩
    have hlines : (lineRecs ps).all (fun r => match r.kind with | .ruleCheck .. => true | _ => false) = true := by
      rw [List.all_eq_true]
      intro r hr
      obtain ⟨n, s', m, ch, rfl⟩ := hall r hr
      rfl
    refine ⟨?_, Rec.node (.clauseValueCheck (if s == Status.pass then ClauseCheck.success else ClauseCheck.dependentRule rule msg)) ps,
      by simp [lineRecs, Rec.kind, RecKind.isFilter], ?_, rfl⟩
    · rw [List.all_eq_true] at hlines
      rcases hs with rfl | rfl <;> simp [nodeOk] <;> exact hlines
    · rcases hs with rfl | rfl <;> simp [lineOptions, Rec.kind, RecKind.status?]

theorem cf_clause_when (env : Env) (fuel : Nat) (ih : AllInv env fuel) (conds : Cnf) (lets : List LetExpr) (cnf : Cnf) :
    Inv (evalClause env (fuel + 1) (.whenBlock conds lets cnf)) PClause := by
  simp only [evalClause]
  refine inv_withRec (P1 := fun s ps => nodeOk (.whenCheck s) ps = true) ?_ ?_
  · intro st a st' h
    obtain ⟨c, s1, h1, h2⟩ := M.bind_ok h
    have hcond : Inv (withRec RecKind.whenCondition (evalCnf env fuel conds))
        (fun c ps => ∃ ch, ps = [Rec.node (.whenCondition c) ch]) := by
      apply inv_withRec (ih.cnf conds)
      intro c ps _ ⟨⟨sts, hE, hs⟩, _⟩
      exact ⟨by simp only [nodeOk]; exact aggOk_of_explains hE hs, ps, rfl⟩
    obtain ⟨ps1, e1, c1, ch, hps1⟩ := hcond st c s1 h1
    by_cases hc : (c != Status.pass) = true
    · simp only [hc, ↓reduceIte] at h2
      obtain ⟨rfl, rfl⟩ := M.pure_ok h2
      refine ⟨ps1, e1, c1, ?_⟩
      rw [hps1]
      simp [nodeOk, lineRecs, Rec.kind, RecKind.isFilter, hc]
    · simp only [hc, Bool.false_eq_true, ↓reduceIte] at h2
      obtain ⟨ps2, e2, c2, ⟨sts, hE, hs⟩, hnc⟩ := ih.block lets cnf s1 a st' h2
      refine ⟨ps1 ++ ps2, by rw [e2, e1, List.reverse_append, List.append_assoc], by rw [consList_append, c1, c2]; rfl, ?_⟩
      rw [hps1]
      simp only [nodeOk, List.cons_append, List.nil_append]
      have hl : lineRecs (Rec.node (RecKind.whenCondition c) ch :: ps2) = Rec.node (RecKind.whenCondition c) ch :: lineRecs ps2 := by
        simp [lineRecs, Rec.kind, RecKind.isFilter]
      rw [hl]
      simp only [hc, Bool.false_eq_true, ↓reduceIte]
      exact aggOk_of_explains hE hs
  · intro s ps _ h
    exact ⟨h, Rec.node (.whenCheck s) ps, by simp [lineRecs, Rec.kind, RecKind.isFilter],
      by simp [lineOptions, Rec.kind, RecKind.status?], rfl⟩

/-- the records of a type block body: `TypeBlock` records only (besides filters), carrying the statuses aggregated -/
def PType (s : Status) (ps : List Rec) : Prop :=
  (∀ r ∈ lineRecs ps, ∃ st ch, r = Rec.node (.typeBlock st) ch) ∧ s = bodyStatus ((lineRecs ps).map Rec.status)

def PTypeAcc (sts : List Status) (ps : List Rec) : Prop :=
  (∀ r ∈ lineRecs ps, ∃ st ch, r = Rec.node (.typeBlock st) ch) ∧ (lineRecs ps).map Rec.status = sts

theorem inv_mapM_typeBlocks {α} {f : α → M Status}
    (hf : ∀ a, Inv (f a) (fun s ps => ∃ ch, ps = [Rec.node (.typeBlock s) ch])) : ∀ (l : List α), Inv (l.mapM f) PTypeAcc
  | [] => by rw [List.mapM_nil]; exact inv_pure _ ⟨by intro r hr; simp [lineRecs] at hr, rfl⟩
  | a :: l => by
    rw [List.mapM_cons]
    intro st res st' h
    obtain ⟨s, s1, h1, h2⟩ := M.bind_ok h
    obtain ⟨ss, s2, h3, h4⟩ := M.bind_ok h2
    obtain ⟨eres, es⟩ := M.pure_ok h4
    obtain ⟨ps1, e1, c1, ch, hps⟩ := hf a st s s1 h1
    obtain ⟨ps2, e2, c2, hk, hst⟩ := inv_mapM_typeBlocks hf l s1 ss s2 h3
    refine ⟨ps1 ++ ps2, by rw [es, e2, e1, List.reverse_append, List.append_assoc], by rw [consList_append, c1, c2]; rfl, ?_, ?_⟩
    · intro r hr
      rw [lineRecs_append, hps, List.mem_append] at hr
      rcases hr with hr | hr
      · simp [lineRecs, Rec.kind, RecKind.isFilter] at hr; exact ⟨s, ch, hr⟩
      · exact hk r hr
    · rw [eres, lineRecs_append, hps, List.map_append, hst]
      simp [lineRecs, Rec.kind, RecKind.isFilter, Rec.status, RecKind.status?]

theorem cf_clause_type (env : Env) (fuel : Nat) (ih : AllInv env fuel) (name : Str) (conds : Option Cnf)
    (lets : List LetExpr) (cnf : Cnf) (q : List QueryPart) :
    Inv (evalClause env (fuel + 1) (.typeBlock name conds lets cnf q)) PClause := by
  simp only [evalClause]
  -- the body without the condition
  have hgo : Inv (do
        let values ← queryCtx env fuel q
        if values.isEmpty then pure Status.skip
        else do
          let sts ← values.mapM fun each =>
            match each with
            | .literal rv | .resolved rv =>
              withRec RecKind.typeBlock (withValueScope rv (evalGeneralBlock env fuel lets cnf))
            | .unresolved _ => throwErr .MissingValue
          pure (bodyStatus sts) : M Status) PType := by
    intro st a st' h
    obtain ⟨values, s1, h1, h2⟩ := M.bind_ok h
    obtain ⟨ps1, e1, c1, f1⟩ := ih.qctx q st values s1 h1
    split at h2
    · obtain ⟨ea, es⟩ := M.pure_ok h2
      refine ⟨ps1, by rw [es]; exact e1, c1, ?_, ?_⟩
      · intro r hr; rw [f1] at hr; simp at hr
      · rw [ea, f1]; rfl
    · obtain ⟨sts, s2, h3, h4⟩ := M.bind_ok h2
      obtain ⟨ea, es⟩ := M.pure_ok h4
      have heach : ∀ each : QR, Inv (match each with
            | .literal rv | .resolved rv =>
              withRec RecKind.typeBlock (withValueScope rv (evalGeneralBlock env fuel lets cnf))
            | .unresolved _ => (throwErr .MissingValue : M Status)) (fun s ps => ∃ ch, ps = [Rec.node (.typeBlock s) ch]) := by
        intro each
        have hb : ∀ rv, Inv (withRec RecKind.typeBlock (withValueScope rv (evalGeneralBlock env fuel lets cnf)))
            (fun s ps => ∃ ch, ps = [Rec.node (.typeBlock s) ch]) := by
          intro rv
          apply inv_withRec (inv_withValueScope (ih.block lets cnf))
          intro s ps _ ⟨⟨sts, hE, hs⟩, _⟩
          exact ⟨by simp only [nodeOk]; exact aggOk_of_explains hE hs, ps, rfl⟩
        cases each with
        | literal rv => exact hb rv
        | resolved rv => exact hb rv
        | unresolved u => exact inv_throwErr _
      obtain ⟨ps2, e2, c2, hk, hst⟩ := inv_mapM_typeBlocks heach values s1 sts s2 h3
      refine ⟨ps1 ++ ps2, by rw [es, e2, e1, List.reverse_append, List.append_assoc], by rw [consList_append, c1, c2]; rfl, ?_, ?_⟩
      · intro r hr
        rw [lineRecs_append, f1, List.nil_append] at hr
        exact hk r hr
      · rw [ea, lineRecs_append, f1, List.nil_append, hst]
  -- a body's records explain a `TypeCheck` without condition
  have hbody : ∀ s ps, PType s ps → nodeOk (.typeCheck name s) ps = true := by
    intro s ps ⟨hk, hs⟩
    simp only [nodeOk]
    have hall : ((lineRecs ps).all fun r => match r.kind with | .typeBlock _ => true | _ => false) = true := by
      rw [List.all_eq_true]; intro r hr
      obtain ⟨st, ch, rfl⟩ := hk r hr; rfl
    split
    · rename_i c ch rest hl
      obtain ⟨st, ch', e⟩ := hk (Rec.node (.typeCondition c) ch) (by rw [hl]; simp)
      cases e
    · rw [List.all_eq_true] at hall
      simp [hs]; exact hall
  refine inv_withRec (P1 := fun s ps => nodeOk (.typeCheck name s) ps = true) ?_ ?_
  · cases conds with
    | none => exact inv_weaken hgo fun s ps _ h => hbody s ps h
    | some cs =>
      simp only
      intro st a st' h
      obtain ⟨c, s1, h1, h2⟩ := M.bind_ok h
      have hcond : Inv (withRec RecKind.typeCondition (evalCnf env fuel cs))
          (fun c ps => ∃ ch, ps = [Rec.node (.typeCondition c) ch]) := by
        apply inv_withRec (ih.cnf cs)
        intro c ps _ ⟨⟨sts, hE, hs⟩, _⟩
        exact ⟨by simp only [nodeOk]; exact aggOk_of_explains hE hs, ps, rfl⟩
      obtain ⟨ps1, e1, c1, ch, hps1⟩ := hcond st c s1 h1
      by_cases hc : (c != Status.pass) = true
      · simp only [hc, ↓reduceIte] at h2
        obtain ⟨rfl, rfl⟩ := M.pure_ok h2
        refine ⟨ps1, e1, c1, ?_⟩
        rw [hps1]
        simp [nodeOk, lineRecs, Rec.kind, RecKind.isFilter, hc]
      · simp only [hc, Bool.false_eq_true, ↓reduceIte] at h2
        obtain ⟨ps2, e2, c2, hk, hs⟩ := hgo s1 a st' h2
        refine ⟨ps1 ++ ps2, by rw [e2, e1, List.reverse_append, List.append_assoc], by rw [consList_append, c1, c2]; rfl, ?_⟩
        rw [hps1]
        simp only [nodeOk, List.cons_append, List.nil_append]
        have hl : lineRecs (Rec.node (RecKind.typeCondition c) ch :: ps2) = Rec.node (RecKind.typeCondition c) ch :: lineRecs ps2 := by
          simp [lineRecs, Rec.kind, RecKind.isFilter]
        rw [hl]
        simp only [hc, Bool.false_eq_true, ↓reduceIte]
        have hall : ((lineRecs ps2).all fun r => match r.kind with | .typeBlock _ => true | _ => false) = true := by
          rw [List.all_eq_true]; intro r hr
          obtain ⟨st, ch, rfl⟩ := hk r hr; rfl
        rw [List.all_eq_true] at hall
        simp [hs]; exact hall
  · intro s ps _ h
    exact ⟨h, Rec.node (.typeCheck name s) ps, by simp [lineRecs, Rec.kind, RecKind.isFilter],
      by simp [lineOptions, Rec.kind, RecKind.status?], rfl⟩

/-! ### block clauses -/

theorem bodyStatus_fail_iff (l : List Status) : bodyStatus l = .fail ↔ l.any (· == Status.fail) = true := by
  unfold bodyStatus
  by_cases h1 : l.any (· == Status.fail) = true <;> by_cases h2 : l.any (· == Status.pass) = true <;> simp [h1, h2]

theorem bodyStatus_pass_iff (l : List Status) :
    bodyStatus l = .pass ↔ l.any (· == Status.fail) = false ∧ l.any (· == Status.pass) = true := by
  unfold bodyStatus
  by_cases h1 : l.any (· == Status.fail) = true <;> by_cases h2 : l.any (· == Status.pass) = true <;> simp [h1, h2]

theorem bodyStatus_skip_iff (l : List Status) :
    bodyStatus l = .skip ↔ l.any (· == Status.fail) = false ∧ l.any (· == Status.pass) = false := by
  unfold bodyStatus
  by_cases h1 : l.any (· == Status.fail) = true <;> by_cases h2 : l.any (· == Status.pass) = true <;> simp [h1, h2]

theorem any_flatten_eq (x : Status) : ∀ (chunks : List (List Status)),
    chunks.flatten.any (· == x) = chunks.any (fun c => c.any (· == x))
  | [] => rfl
  | c :: cs => by simp [List.any_append, any_flatten_eq x cs]

theorem any_map_body_fail : ∀ (chunks : List (List Status)),
    (chunks.map bodyStatus).any (· == Status.fail) = chunks.any (fun c => c.any (· == Status.fail))
  | [] => rfl
  | c :: cs => by
    simp only [List.map_cons, List.any_cons, any_map_body_fail cs]
    congr 1
    by_cases h : c.any (· == Status.fail) = true
    · simp [h, (bodyStatus_fail_iff c).mpr h]
    · have h' : c.any (· == Status.fail) = false := by cases hh : c.any (· == Status.fail) <;> simp_all
      rw [h']
      cases hb : bodyStatus c with
      | fail => exact absurd ((bodyStatus_fail_iff c).mp hb) (by simp [h'])
      | pass => rfl
      | skip => rfl

theorem any_map_body_pass : ∀ (chunks : List (List Status)), chunks.any (fun c => c.any (· == Status.fail)) = false →
    (chunks.map bodyStatus).any (· == Status.pass) = chunks.any (fun c => c.any (· == Status.pass))
  | [], _ => rfl
  | c :: cs, h => by
    simp only [List.any_cons, Bool.or_eq_false_iff] at h
    simp only [List.map_cons, List.any_cons, any_map_body_pass cs h.2]
    congr 1
    by_cases hp : c.any (· == Status.pass) = true
    · simp [hp, (bodyStatus_pass_iff c).mpr ⟨h.1, hp⟩]
    · have hp' : c.any (· == Status.pass) = false := by cases hh : c.any (· == Status.pass) <;> simp_all
      rw [hp', (bodyStatus_skip_iff c).mpr ⟨h.1, hp'⟩]; rfl

/-- aggregating chunk by chunk and then over the chunks is aggregating everything at once -/
theorem bodyStatus_flatten (chunks : List (List Status)) : bodyStatus (chunks.map bodyStatus) = bodyStatus chunks.flatten := by
  by_cases h1 : chunks.flatten.any (· == Status.fail) = true
  · rw [(bodyStatus_fail_iff _).mpr h1]
    apply (bodyStatus_fail_iff _).mpr
    rw [any_map_body_fail, ← any_flatten_eq]; exact h1
  · have h1' : chunks.flatten.any (· == Status.fail) = false := by cases hh : chunks.flatten.any (· == Status.fail) <;> simp_all
    have h1c : chunks.any (fun c => c.any (· == Status.fail)) = false := by rw [← any_flatten_eq]; exact h1'
    have hf : (chunks.map bodyStatus).any (· == Status.fail) = false := by rw [any_map_body_fail]; exact h1c
    have hp := any_map_body_pass chunks h1c
    rw [← any_flatten_eq] at hp
    by_cases h2 : chunks.flatten.any (· == Status.pass) = true
    · rw [(bodyStatus_pass_iff _).mpr ⟨h1', h2⟩]
      exact (bodyStatus_pass_iff _).mpr ⟨hf, by rw [hp]; exact h2⟩
    · have h2' : chunks.flatten.any (· == Status.pass) = false := by cases hh : chunks.flatten.any (· == Status.pass) <;> simp_all
      rw [(bodyStatus_skip_iff _).mpr ⟨h1', h2'⟩]
      exact (bodyStatus_skip_iff _).mpr ⟨hf, by rw [hp]; exact h2'⟩


def PChunk (s : Status) (ps : List Rec) : Prop := ∃ stsv, Explains (lineRecs ps) stsv ∧ s = bodyStatus stsv

def PChunks (sts : List Status) (ps : List Rec) : Prop :=
  ∃ chunks : List (List Status), Explains (lineRecs ps) chunks.flatten ∧ sts = chunks.map bodyStatus

theorem inv_mapM_chunks {α} {f : α → M Status} (hf : ∀ a, Inv (f a) PChunk) : ∀ (l : List α), Inv (l.mapM f) PChunks
  | [] => by rw [List.mapM_nil]; exact inv_pure _ ⟨[], by simp [lineRecs, Explains], rfl⟩
  | a :: l => by
    rw [List.mapM_cons]
    intro st res st' h
    obtain ⟨s, s1, h1, h2⟩ := M.bind_ok h
    obtain ⟨ss, s2, h3, h4⟩ := M.bind_ok h2
    obtain ⟨eres, es⟩ := M.pure_ok h4
    obtain ⟨ps1, e1, c1, stsv, hE1, hs1⟩ := hf a st s s1 h1
    obtain ⟨ps2, e2, c2, chunks, hE2, hs2⟩ := inv_mapM_chunks hf l s1 ss s2 h3
    refine ⟨ps1 ++ ps2, by rw [es, e2, e1, List.reverse_append, List.append_assoc], by rw [consList_append, c1, c2]; rfl,
      stsv :: chunks, ?_, ?_⟩
    · rw [lineRecs_append, List.flatten_cons]; exact explains_append hE1 hE2
    · rw [eres, hs1, hs2]; rfl

theorem someStatus_pass_iff (l : List Status) : someStatus l = .pass ↔ l.any (· == Status.pass) = true := by
  unfold someStatus
  constructor
  · intro h; split at h
    · assumption
    · split at h <;> cases h
  · intro h; rw [if_pos h]

theorem any_of_map_body {x : Status} (hx : x ≠ .skip) : ∀ (chunks : List (List Status)),
    (chunks.map bodyStatus).any (· == x) = true → chunks.flatten.any (· == x) = true
  | [], h => by simp at h
  | c :: cs, h => by
    simp only [List.map_cons, List.any_cons, Bool.or_eq_true] at h
    simp only [List.flatten_cons, List.any_append, Bool.or_eq_true]
    rcases h with h | h
    · left
      have hb : bodyStatus c = x := by
        cases hc : bodyStatus c <;> cases x <;> simp_all
      cases x with
      | skip => exact absurd rfl hx
      | fail => exact (bodyStatus_fail_iff c).mp hb
      | pass => exact ((bodyStatus_pass_iff c).mp hb).2
    · right; exact any_of_map_body hx cs h

/-- the status of a block clause is explained by the lines evaluated for its values -/
theorem nodeOk_block (all : Bool) (chunks : List (List Status)) (ls : List Rec) (hE : Explains ls chunks.flatten) :
    let s := if all then bodyStatus (chunks.map bodyStatus) else someStatus (chunks.map bodyStatus)
    (if ls.isEmpty then s == .skip || s == .fail
     else (choices (ls.map lineOptions)).any fun sts =>
        (s == bodyStatus sts) ||
        (s == .pass && sts.any (· == .pass)) || (s == .fail && sts.any (· == .fail)) ||
        (s == .skip && !(sts.all (· == .pass)))) = true := by
  intro s
  have hlen := explains_length hE
  by_cases hl : ls = []
  · subst hl
    simp only [List.isEmpty_nil, ↓reduceIte]
    have hfl : chunks.flatten = [] := by
      cases hf : chunks.flatten with
      | nil => rfl
      | cons x xs => rw [hf] at hlen; simp at hlen
    have h1 : bodyStatus (chunks.map bodyStatus) = .skip := by rw [bodyStatus_flatten, hfl]; rfl
    have h2 : someStatus (chunks.map bodyStatus) = .skip := by
      have hnp : (chunks.map bodyStatus).any (· == Status.pass) = false := by
        cases hh : (chunks.map bodyStatus).any (· == Status.pass) with
        | false => rfl
        | true => have := any_of_map_body (x := .pass) (by simp) chunks hh; rw [hfl] at this; simp at this
      have hnf : (chunks.map bodyStatus).any (· == Status.fail) = false := by
        cases hh : (chunks.map bodyStatus).any (· == Status.fail) with
        | false => rfl
        | true => have := any_of_map_body (x := .fail) (by simp) chunks hh; rw [hfl] at this; simp at this
      unfold someStatus; rw [hnp, hnf]; rfl
    show (s == Status.skip || s == Status.fail) = true
    cases all <;> simp [s, h1, h2]
  · have hne : ls.isEmpty = false := by cases ls <;> simp_all
    simp only [hne, Bool.false_eq_true, ↓reduceIte]
    rw [List.any_eq_true]
    refine ⟨chunks.flatten, explains_choices hE, ?_⟩
    cases all with
    | true =>
      have : s = bodyStatus chunks.flatten := by simp only [s, ↓reduceIte]; exact bodyStatus_flatten chunks
      rw [this]; simp
    | false =>
      have hs : s = someStatus (chunks.map bodyStatus) := by simp [s]
      cases hsv : s with
      | pass =>
        have := any_of_map_body (x := .pass) (by simp) chunks ((someStatus_pass_iff _).mp (hs ▸ hsv))
        simp [this]
      | fail =>
        have hf : (chunks.map bodyStatus).any (· == Status.fail) = true := by
          rw [hs] at hsv; unfold someStatus at hsv
          split at hsv
          · cases hsv
          · split at hsv
            · assumption
            · cases hsv
        have := any_of_map_body (x := .fail) (by simp) chunks hf
        simp [this]
      | skip =>
        -- every chunk aggregated to SKIP, so no evaluated line passed; and there is at least one line
        have hnp : (chunks.map bodyStatus).any (· == Status.pass) = false := by
          cases hh : (chunks.map bodyStatus).any (· == Status.pass) with
          | false => rfl
          | true => rw [hs, (someStatus_pass_iff _).mpr hh] at hsv; cases hsv
        have hnf : (chunks.map bodyStatus).any (· == Status.fail) = false := by
          cases hh : (chunks.map bodyStatus).any (· == Status.fail) with
          | false => rfl
          | true => rw [hs] at hsv; unfold someStatus at hsv; rw [hnp, hh] at hsv; cases hsv
        have hfp : chunks.flatten.any (· == Status.pass) = false := by
          rw [any_map_body_fail] at hnf
          rw [any_map_body_pass chunks hnf] at hnp
          rw [any_flatten_eq]; exact hnp
        have hnn : chunks.flatten ≠ [] := by
          intro h0; rw [h0] at hlen; cases ls <;> simp_all
        have : chunks.flatten.all (· == Status.pass) = false := by
          cases hfl : chunks.flatten with
          | nil => exact absurd hfl hnn
          | cons x xs =>
            rw [hfl] at hfp
            simp only [List.any_cons, Bool.or_eq_false_iff] at hfp
            simp [hfp.1]
        simp [this]

theorem cf_clause_block (env : Env) (fuel : Nat) (ih : AllInv env fuel) (q : List QueryPart) (all notEmpty : Bool)
    (lets : List LetExpr) (cnf : Cnf) :
    Inv (evalClause env (fuel + 1) (.block q all notEmpty lets cnf)) PClause := by
  simp only [evalClause]
  refine inv_withRec (P1 := fun s ps => nodeOk (.blockGuardCheck s) ps = true) ?_ ?_
  · intro st a st' h
    obtain ⟨values, s1, h1, h2⟩ := M.bind_ok h
    obtain ⟨ps1, e1, c1, f1⟩ := ih.qctx q st values s1 h1
    split at h2
    · obtain ⟨ea, es⟩ := M.pure_ok h2
      refine ⟨ps1, by rw [es]; exact e1, c1, ?_⟩
      simp only [nodeOk]
      rw [f1, ea]
      cases notEmpty <;> simp
    · obtain ⟨sts, s2, h3, h4⟩ := M.bind_ok h2
      obtain ⟨ea, es⟩ := M.pure_ok h4
      have heach : ∀ each : QR, Inv (match each with
            | .unresolved ur => (do
              emit (.clauseValueCheck (.missingBlockValue (.unresolved ur)))
              pure Status.fail : M Status)
            | .literal rv | .resolved rv =>
              withValueScope rv (evalGeneralBlock env fuel lets cnf)) PChunk := by
        intro each
        have hb : ∀ rv, Inv (withValueScope rv (evalGeneralBlock env fuel lets cnf)) PChunk := by
          intro rv
          exact inv_weaken (inv_withValueScope (ih.block lets cnf)) fun s ps _ h => h.1
        cases each with
        | literal rv => exact hb rv
        | resolved rv => exact hb rv
        | unresolved u =>
          intro st0 a0 st0' h0
          obtain ⟨ea0, es0⟩ := emit_then_pure _ _ _ _ _ h0
          refine ⟨_, es0, by simp [ConsistentList, Consistent, nodeOk_valueCheck], [Status.fail], ?_, ?_⟩
          · simp [lineRecs, Rec.kind, RecKind.isFilter, Explains, lineOptions, RecKind.status?]
          · rw [ea0]; rfl
      obtain ⟨ps2, e2, c2, chunks, hE, hst⟩ := inv_mapM_chunks heach values s1 sts s2 h3
      refine ⟨ps1 ++ ps2, by rw [es, e2, e1, List.reverse_append, List.append_assoc], by rw [consList_append, c1, c2]; rfl, ?_⟩
      simp only [nodeOk]
      rw [lineRecs_append, f1, List.nil_append, ea, hst]
      exact nodeOk_block all chunks (lineRecs ps2) hE
  · intro s ps _ h
    exact ⟨h, Rec.node (.blockGuardCheck s) ps, by simp [lineRecs, Rec.kind, RecKind.isFilter],
      by simp [lineOptions, Rec.kind, RecKind.status?], rfl⟩


theorem cf_clause (env : Env) (fuel : Nat) (ih : AllInv env fuel) (c : Clause) : Inv (evalClause env (fuel + 1) c) PClause := by
  cases c with
  | access neg q all op opNot withV msg => exact cf_clause_access env fuel ih neg q all op opNot withV msg
  | named rule neg msg => exact cf_clause_named env fuel ih rule neg msg
  | call rule neg msg params => simp only [evalClause]; exact ih.pcall rule neg msg params
  | block q all notEmpty lets cnf => exact cf_clause_block env fuel ih q all notEmpty lets cnf
  | whenBlock conds lets cnf => exact cf_clause_when env fuel ih conds lets cnf
  | typeBlock name conds lets cnf q => exact cf_clause_type env fuel ih name conds lets cnf q

theorem allInv_zero (env : Env) : AllInv env 0 := by
  constructor
  all_goals intros
  all_goals first
    | (simp only [queryRetrieval, accumulate, checkAndDelegate, queryCtx, resolveVariable, resolveFunction, evalCnf, evalLine,
        evalClause, evalGeneralBlock, unaryOperation, binaryOperation, evalParamCall, ruleStatus, evalRule]; exact inv_outOfFuel)
    | skip
  · rename_i l; cases l
    · simp only [evalAlternatives]
      exact inv_pure _ ⟨⟨by simp [lineRecs, Explains], rfl, noCond_nil⟩, by simp, by simp⟩
    · simp only [evalAlternatives]; exact inv_outOfFuel
  · rename_i l; cases l
    · simp only [firstNonSkip]; exact inv_pure _ allRule_nil
    · simp only [firstNonSkip]; exact inv_outOfFuel

theorem allInv_succ (env : Env) (fuel : Nat) (ih : AllInv env fuel) : AllInv env (fuel + 1) where
  qr := cf_qr env fuel ih
  acc := cf_acc env fuel ih
  cad := cf_cad env fuel ih
  qctx := cf_qctx env fuel ih
  rvar := cf_rvar env fuel ih
  rfun := cf_rfun env fuel ih
  cnf := cf_cnf env fuel ih
  line := cf_line env fuel ih
  alts := cf_alts env fuel ih
  clause := cf_clause env fuel ih
  block := cf_block env fuel ih
  unary := cf_unary env fuel ih
  binary := cf_binary env fuel ih
  pcall := cf_pcall env fuel ih
  rstat := cf_rstat env fuel ih
  fns := cf_fns env fuel ih
  rule := cf_rule env fuel ih

/-- **every function of the evaluator pushes only consistent record trees**, for every fuel, program, document,
    environment and state -/
theorem allInv (env : Env) : ∀ fuel, AllInv env fuel
  | 0 => allInv_zero env
  | fuel + 1 => allInv_succ env fuel (allInv env fuel)

def PRuleAcc (sts : List Status) (ps : List Rec) : Prop :=
  (∀ r ∈ lineRecs ps, ∃ n st m ch, r = Rec.node (.ruleCheck n st m) ch) ∧ (lineRecs ps).map Rec.status = sts

theorem inv_mapM_rules {f : Rule → M Status}
    (hf : ∀ r, Inv (f r) (fun s ps => ∃ ch, ps = [Rec.node (.ruleCheck r.name s none) ch])) : ∀ (l : List Rule), Inv (l.mapM f) PRuleAcc
  | [] => by rw [List.mapM_nil]; exact inv_pure _ ⟨by intro r hr; simp [lineRecs] at hr, rfl⟩
  | a :: l => by
    rw [List.mapM_cons]
    intro st res st' h
    obtain ⟨s, s1, h1, h2⟩ := M.bind_ok h
    obtain ⟨ss, s2, h3, h4⟩ := M.bind_ok h2
    obtain ⟨eres, es⟩ := M.pure_ok h4
    obtain ⟨ps1, e1, c1, ch, hps⟩ := hf a st s s1 h1
    obtain ⟨ps2, e2, c2, hk, hst⟩ := inv_mapM_rules hf l s1 ss s2 h3
    refine ⟨ps1 ++ ps2, by rw [es, e2, e1, List.reverse_append, List.append_assoc], by rw [consList_append, c1, c2]; rfl, ?_, ?_⟩
    · intro r hr
      rw [lineRecs_append, hps, List.mem_append] at hr
      rcases hr with hr | hr
      · simp [lineRecs, Rec.kind, RecKind.isFilter] at hr; exact ⟨a.name, s, none, ch, hr⟩
      · exact hk r hr
    · rw [eres, lineRecs_append, hps, List.map_append, hst]
      simp [lineRecs, Rec.kind, RecKind.isFilter, Rec.status, RecKind.status?]

theorem cf_file (env : Env) (fuel : Nat) (file : RulesFile) :
    Inv (evalRulesFile env fuel file) (fun s ps => ∃ ch, ps = [Rec.node (.fileCheck s) ch]) := by
  unfold evalRulesFile
  refine inv_withRec (P1 := fun s ps => nodeOk (.fileCheck s) ps = true) ?_ ?_
  · intro st a st' h
    obtain ⟨sts, s1, h1, h2⟩ := M.bind_ok h
    obtain ⟨ea, es⟩ := M.pure_ok h2
    obtain ⟨ps, e, c, hk, hst⟩ := inv_mapM_rules (allInv env fuel).rule file.rules st sts s1 h1
    refine ⟨ps, by rw [es]; exact e, c, ?_⟩
    simp only [nodeOk, Bool.and_eq_true, List.all_eq_true]
    refine ⟨?_, by rw [hst, ea]; simp⟩
    intro r hr
    obtain ⟨n, st0, m, ch, rfl⟩ := hk r hr; rfl
  · intro s ps _ h
    exact ⟨h, ps, rfl⟩

/-- **C02 (tree consistency), for every rules file, document, environment and fuel**: whenever an evaluation
    completes, the record tree it returns is `Consistent` — at every composite record the status is explained by
    the records below it. -/
theorem runFile_consistent (env : Env) (fuel : Nat) (file : RulesFile) (doc : PV) (s : Status) (t : Rec)
    (h : runFile env fuel file doc = .ok (s, t)) : Consistent t = true := by
  unfold runFile at h
  split at h
  · rename_i s0 st hev
    obtain ⟨ps, e, c, ch, hps⟩ := cf_file env fuel file _ _ _ hev
    have hr : st.recs = [Rec.node (.fileCheck s0) ch] := by rw [e, hps]; rfl
    rw [hr] at h
    simp only at h
    cases h
    rw [hps] at c
    simpa [ConsistentList] using c
  · cases h
  · cases h
  · cases h

end Guard
