import Guard.Lemmas.Frames
/-
  Guard.Lemmas.FramesEval — every function of the evaluator's mutual block preserves the scope
  stack (`Pres`), for every fuel, program, query, value and state.
-/
set_option linter.unusedVariables false
set_option linter.unusedSimpArgs false
set_option maxHeartbeats 4000000
namespace Guard

structure AllPres (env : Env) (fuel : Nat) : Prop where
  qr : ∀ qi query current conv, Pres (queryRetrieval env fuel qi query current conv)
  acc : ∀ parent qi query elements conv, Pres (accumulate env fuel parent qi query elements conv)
  cad : ∀ cnf name index query key value conv, Pres (checkAndDelegate env fuel cnf name index query key value conv)
  qctx : ∀ q, Pres (queryCtx env fuel q)
  rvar : ∀ name, Pres (resolveVariable env fuel name)
  rfun : ∀ name params, Pres (resolveFunction env fuel name params)
  cnf : ∀ c, Pres (evalCnf env fuel c)
  line : ∀ l, Pres (evalLine env fuel l)
  alts : ∀ l, Pres (evalAlternatives env fuel l)
  clause : ∀ c, Pres (evalClause env fuel c)
  block : ∀ lets c, Pres (evalGeneralBlock env fuel lets c)
  unary : ∀ q op opNot inverse msg, Pres (unaryOperation env fuel q op opNot inverse msg)
  binary : ∀ q rhs op opNot msg, Pres (binaryOperation env fuel q rhs op opNot msg)
  pcall : ∀ rule neg msg params, Pres (evalParamCall env fuel rule neg msg params)
  rstat : ∀ name, Pres (ruleStatus env fuel name)
  fns : ∀ rules, Pres (firstNonSkip env fuel rules)
  rule : ∀ r, Pres (evalRule env fuel r)

theorem pres_accumulateMap {parent : PV} {ks : List (Path × Str)} {vs : List PV} {qi : Nat} {query : List QueryPart}
    {func : PV → PV → M (List QR)} (hf : ∀ k v, Pres (func k v)) : Pres (accumulateMap parent ks vs qi query func) := by
  unfold accumulateMap
  split
  · exact pres_pure _
  · refine pres_bind (pres_mapM (fun x => ?_) _) (fun _ => pres_pure _)
    obtain ⟨⟨p, k⟩, each⟩ := x
    exact pres_withValueScope (hf _ _)

syntax "pres_step" : tactic
macro_rules
  | `(tactic| pres_step) => `(tactic| first
      | apply pres_pure | apply pres_throwErr | apply pres_throwPanic | apply pres_outOfFuel | apply pres_liftO
      | apply pres_emit | apply pres_get | apply pres_currentRoot | apply pres_addCaptureKey
      | apply pres_withRec | apply pres_withValueScope | (refine pres_mapM (fun _ => ?_) _)
      | (refine pres_accumulateMap (fun _ _ => ?_))
      | (refine pres_filterMapM (fun _ => ?_) _) | (refine pres_forIn (fun _ _ => ?_) _ _)
      | (refine pres_pushPopK ?_ (fun _ => ?_))
      | (refine pres_bind ?_ (fun _ => ?_))
      | split)

macro "pres_ih" ih:ident : tactic => `(tactic| first
  | exact ($ih).qr _ _ _ _ | exact ($ih).acc _ _ _ _ _ | exact ($ih).cad _ _ _ _ _ _ _ | exact ($ih).qctx _
  | exact ($ih).rvar _ | exact ($ih).rfun _ _ | exact ($ih).cnf _ | exact ($ih).line _ | exact ($ih).alts _
  | exact ($ih).clause _ | exact ($ih).block _ _ | exact ($ih).unary _ _ _ _ _ | exact ($ih).binary _ _ _ _ _
  | exact ($ih).pcall _ _ _ _ | exact ($ih).rstat _ | exact ($ih).fns _ | exact ($ih).rule _)

macro "pres_auto" ih:ident : tactic => `(tactic| repeat (any_goals (first | pres_ih $ih | pres_step)))

theorem pres_realBinaryOperation (env : Env) (lhs rhs : List QR) (op : CmpOp) (opNot : Bool) (msg : Option Str) :
    Pres (realBinaryOperation env lhs rhs op opNot msg) := by
  unfold realBinaryOperation
  repeat (any_goals pres_step)

theorem pres_findParamRule (name : Str) : Pres (findParamRule name) := by
  unfold findParamRule
  repeat (any_goals pres_step)

theorem pres_rulesNamed (name : Str) : Pres (rulesNamed name) := by
  unfold rulesNamed
  repeat (any_goals pres_step)

theorem allPres_zero (env : Env) : AllPres env 0 := by
  constructor
  all_goals intros
  all_goals first
    | (simp only [queryRetrieval, accumulate, checkAndDelegate, queryCtx, resolveVariable, resolveFunction, evalCnf, evalLine,
        evalClause, evalGeneralBlock, unaryOperation, binaryOperation, evalParamCall, ruleStatus, evalRule]; exact pres_outOfFuel)
    | skip
  · rename_i l; cases l <;> simp only [evalAlternatives] <;> first | exact pres_pure _ | exact pres_outOfFuel
  · rename_i l; cases l <;> simp only [firstNonSkip] <;> first | exact pres_pure _ | exact pres_outOfFuel

theorem pres_qr_succ (env : Env) (fuel : Nat) (ih : AllPres env fuel) (qi : Nat) (query : List QueryPart) (current : PV)
    (conv : Option Nat) : Pres (queryRetrieval env (fuel + 1) qi query current conv) := by
  simp only [queryRetrieval]
  pres_auto ih
  -- the selected-keys error action: either an unresolved result or an error
  rename_i hsel
  split at hsel
  · cases hsel
  · cases hsel
  · cases hsel
  · split at hsel
    · cases hsel
    · cases hsel; exact pres_pure _
  · cases hsel; exact pres_throwErr _

theorem allPres_succ (env : Env) (fuel : Nat) (ih : AllPres env fuel) : AllPres env (fuel + 1) := by
  constructor
  case qr => exact pres_qr_succ env fuel ih
  case acc =>
    intro parent qi query elements conv
    simp only [accumulate]
    pres_auto ih
  case cad =>
    intro cnf name index query key value conv
    simp only [checkAndDelegate]
    pres_auto ih
  case qctx =>
    intro q
    simp only [queryCtx]
    pres_auto ih
  case rfun =>
    intro name params
    simp only [resolveFunction]
    pres_auto ih
  case cnf =>
    intro c
    simp only [evalCnf]
    pres_auto ih
  case line =>
    intro l
    simp only [evalLine]
    pres_auto ih
  case alts =>
    intro l
    cases l with
    | nil => simp only [evalAlternatives]; exact pres_pure _
    | cons c rest =>
      simp only [evalAlternatives]
      pres_auto ih
  case clause =>
    intro c
    simp only [evalClause]
    pres_auto ih
  case block =>
    intro lets c
    simp only [evalGeneralBlock]
    pres_auto ih
  case unary =>
    intro q op opNot inverse msg
    simp only [unaryOperation]
    pres_auto ih
  case binary =>
    intro q rhs op opNot msg
    simp only [binaryOperation]
    pres_auto ih
  case pcall =>
    intro rule neg msg params
    simp only [evalParamCall]
    pres_auto ih
    apply pres_modify; intro st; split
    · split <;> exact FramesSim.refl _
    · exact FramesSim.refl _
  case fns =>
    intro rules
    cases rules with
    | nil => simp only [firstNonSkip]; exact pres_pure _
    | cons r rest =>
      simp only [firstNonSkip]
      pres_auto ih
  case rule =>
    intro r
    simp only [evalRule]
    pres_auto ih
  case rvar =>
    intro name st a st' h
    simp only [resolveVariable] at h
    cases hf : st.frames with
    | nil => rw [hf] at h; cases h
    | cons f rest =>
      rw [hf] at h; simp only at h
      -- the delegating branch
      have hdel : ∀ {a st'}, (if rest.isEmpty = true then (Outcome.err ErrKind.MissingValue : Outcome (List QR × St))
            else match resolveVariable env fuel name { st with frames := rest } with
              | .ok (r, st') => .ok (r, { st' with frames := f :: st'.frames })
              | e => e) = .ok (a, st') → FramesSim (f :: rest) st'.frames := by
        intro a st' hd
        split at hd
        · cases hd
        · split at hd
          · rename_i r s2 hr
            cases hd
            exact ⟨f.sim_refl, ih.rvar name _ _ _ hr⟩
          · rename_i e hne
            exact (hne _ _ hd).elim
      cases f with
      | value r => exact hdel h
      | params ps =>
        simp only at h
        split at h
        · cases h; rw [hf]; exact FramesSim.refl _
        · exact hdel h
      | block b =>
        simp only at h
        -- what `finish` leaves behind, given what the inner evaluation left
        have hfin : ∀ {nb : BlockFrame} {s2 : St} {b' : BlockFrame} {rest' : List Frame} {nb' : BlockFrame},
            FramesSim (Frame.block nb :: rest) s2.frames → s2.frames = Frame.block b' :: rest' →
            (Frame.block b).sim (Frame.block nb) → (Frame.block b').sim (Frame.block nb') →
            FramesSim (Frame.block b :: rest) (Frame.block nb' :: rest') := by
          intro nb s2 b' rest' nb' hs he h1 h2
          rw [he] at hs
          exact ⟨Frame.sim_trans h1 (Frame.sim_trans hs.1 h2), hs.2⟩
        split at h
        · cases h; rw [hf]; exact FramesSim.refl _
        · split at h
          · cases h; rw [hf]; exact FramesSim.refl _
          · split at h
            · -- function variable
              split at h
              · cases h
              · split at h
                · rename_i result s2 hr
                  split at h
                  · rename_i b' rest' hfr
                    cases h
                    exact hfin (ih.rfun _ _ _ _ _ hr) hfr (by simp [Frame.sim]) (by simp [Frame.sim])
                  · cases h
                · rename_i e hne
                  exact (hne _ _ h).elim
            · split at h
              · -- query variable
                split at h
                · cases h
                · split at h
                  · rename_i result s2 hr
                    split at h
                    · rename_i b' rest' hfr
                      cases h
                      exact hfin (ih.qr _ _ _ _ _ _ _ hr) hfr (by simp [Frame.sim]) (by simp [Frame.sim])
                    · cases h
                  · rename_i e hne
                    exact (hne _ _ h).elim
              · exact hdel h
  case rstat =>
    intro name st0 a st' h0
    simp only [ruleStatus] at h0
    obtain ⟨stg, s1, hg, h1⟩ := M.bind_ok h0
    have eg : stg = st0 ∧ s1 = st0 := by
      change (Outcome.ok (st0, st0)) = .ok (stg, s1) at hg
      cases hg; exact ⟨rfl, rfl⟩
    rw [eg.1, eg.2] at h1
    clear hg eg h0
    cases hlk : alLookup name st0.ruleStatus with
    | some sv => rw [hlk] at h1; obtain ⟨_, e⟩ := M.pure_ok h1; rw [e]; exact FramesSim.refl _
    | none =>
      rw [hlk] at h1
      obtain ⟨rules, s2, hr, h2⟩ := M.bind_ok h1
      have e2 : s2 = st0 := by
        unfold rulesNamed at hr
        obtain ⟨x, s3, hg2, hp⟩ := M.bind_ok hr
        have : s3 = st0 := by
          change (Outcome.ok (st0, st0)) = .ok (x, s3) at hg2
          cases hg2; rfl
        rw [← this]; exact (M.pure_ok hp).2
      rw [e2] at h2
      by_cases he : rules.isEmpty = true
      · simp only [he, ↓reduceIte] at h2; cases h2
      · by_cases hp : st0.rulesInProgress.contains name = true
        · simp only [he, hp, ↓reduceIte] at h2; cases h2
        · simp only [he, hp, ↓reduceIte] at h2
          obtain ⟨_, s3, hm1, h3⟩ := M.bind_ok h2
          obtain ⟨s, s4, hfns, h4⟩ := M.bind_ok h3
          obtain ⟨_, s5, hm2, h5⟩ := M.bind_ok h4
          obtain ⟨_, e6⟩ := M.pure_ok h5
          have e3 : s3 = { st0 with rulesInProgress := name :: st0.rulesInProgress,
                                    frames := st0.frames.drop st0.frames.dropLast.length } := by
            change (Outcome.ok ((), _)) = .ok (_, s3) at hm1
            cases hm1; rfl
          have e5 : s5 = { s4 with rulesInProgress := s4.rulesInProgress.tail,
                                   frames := st0.frames.dropLast ++ s4.frames,
                                   ruleStatus := alInsert name s s4.ruleStatus } := by
            change (Outcome.ok ((), _)) = .ok (_, s5) at hm2
            cases hm2; rfl
          have hsim := ih.fns _ _ _ _ hfns
          rw [e3] at hsim
          rw [e6, e5]
          have hl : st0.frames = st0.frames.dropLast ++ st0.frames.drop st0.frames.dropLast.length := by
            rw [List.dropLast_eq_take, List.length_take]
            have : min (st0.frames.length - 1) st0.frames.length = st0.frames.length - 1 := by omega
            rw [this, List.take_append_drop]
          show FramesSim st0.frames (st0.frames.dropLast ++ s4.frames)
          have := FramesSim.append (FramesSim.refl st0.frames.dropLast) hsim
          rw [← hl] at this
          exact this

/-- **scope-stack discipline**: every function of the evaluator, whenever it succeeds, leaves the scope
    stack as it found it (same frames, roots, variable tables, parameters) — for every fuel, program,
    query, value, environment and state. -/
theorem allPres (env : Env) : ∀ fuel, AllPres env fuel
  | 0 => allPres_zero env
  | fuel + 1 => allPres_succ env fuel (allPres env fuel)

/-- the pattern match in `resolve_variable`'s `finish` step (the model's `.panic .other`) cannot fail:
    after the variable's query ran, the block scope it started in is on top of the stack again -/
theorem finish_shape (env : Env) (fuel : Nat) (q : List QueryPart) (root : PV) (nb : BlockFrame) (rest : List Frame)
    (st1 st' : St) (result : List QR) (h1 : st1.frames = Frame.block nb :: rest)
    (h : queryRetrieval env fuel 0 q root none st1 = .ok (result, st')) :
    ∃ b' rest', st'.frames = Frame.block b' :: rest' ∧ b'.root = nb.root ∧ FramesSim rest rest' := by
  have hs := (allPres env fuel).qr 0 q root none st1 result st' h
  rw [h1] at hs
  obtain ⟨g, gs, e, hg, hr⟩ := FramesSim.cons_inv hs
  cases g with
  | block b' => exact ⟨b', gs, e, by simp [Frame.sim] at hg; exact hg.1.symm, hr⟩
  | value r => simp [Frame.sim] at hg
  | params ps => simp [Frame.sim] at hg

end Guard
