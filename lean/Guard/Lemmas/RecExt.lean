import Guard.Lemmas.FramesEval
import Guard.Lemmas.Records
/-
  Guard.Lemmas.RecExt — the recorder discipline of the evaluator: every function of the mutual block only ADDS
  records on top of the ones it found (it never drops, reorders or rewrites a record of its caller).
-/
set_option linter.unusedVariables false
set_option linter.unusedSimpArgs false
set_option maxHeartbeats 4000000
namespace Guard

/-- the action leaves the caller's records untouched and puts its own on top -/
def RecExt {α} (m : M α) : Prop := ∀ st a st', m st = .ok (a, st') → ∃ new, st'.recs = new ++ st.recs

theorem rx_pure {α} (a : α) : RecExt (pure a : M α) := by
  intro st b st' h; obtain ⟨_, rfl⟩ := M.pure_ok h; exact ⟨[], rfl⟩

theorem rx_bind {α β} {m : M α} {f : α → M β} (hm : RecExt m) (hf : ∀ a, RecExt (f a)) : RecExt (m >>= f) := by
  intro st b st' h
  obtain ⟨a, st₁, h1, h2⟩ := M.bind_ok h
  obtain ⟨n1, e1⟩ := hm st a st₁ h1
  obtain ⟨n2, e2⟩ := hf a st₁ b st' h2
  exact ⟨n2 ++ n1, by rw [e2, e1, List.append_assoc]⟩

theorem rx_throwErr {α} (e : ErrKind) : RecExt (throwErr e : M α) := by intro st a st' h; cases h
theorem rx_throwPanic {α} (s : PanicSite) : RecExt (throwPanic s : M α) := by intro st a st' h; cases h
theorem rx_outOfFuel {α} : RecExt (outOfFuel : M α) := by intro st a st' h; cases h

theorem rx_liftO {α} (o : Outcome α) : RecExt (liftO o) := by
  intro st a st' h
  cases o <;> simp [liftO] at h
  obtain ⟨_, rfl⟩ := h; exact ⟨[], rfl⟩

theorem rx_get : RecExt (get : M St) := by
  intro st a st' h
  change (Outcome.ok (st, st)) = .ok (a, st') at h
  cases h; exact ⟨[], rfl⟩

theorem rx_modify {f : St → St} (hf : ∀ st, ∃ new, (f st).recs = new ++ st.recs) : RecExt (modify f : M Unit) := by
  intro st a st' h
  change (Outcome.ok ((), f st)) = .ok (a, st') at h
  cases h; exact hf st

theorem rx_emit (k : RecKind) : RecExt (emit k) := rx_modify fun st => ⟨[Rec.node k []], rfl⟩

theorem rx_withRec {α} {mk : α → RecKind} {m : M α} : RecExt (withRec mk m) := by
  intro st a st' h
  obtain ⟨st'', _, e⟩ := withRec_ok h
  exact ⟨[Rec.node (mk a) st''.recs.reverse], by rw [e]; rfl⟩

theorem rx_currentRoot : RecExt currentRoot := by
  intro st a st' h
  unfold currentRoot at h
  split at h
  · cases h; exact ⟨[], rfl⟩
  · cases h

theorem rx_pushFrame (f : Frame) : RecExt (pushFrame f) := rx_modify fun st => ⟨[], rfl⟩
theorem rx_popFrame : RecExt popFrame := rx_modify fun st => ⟨[], rfl⟩

theorem rx_withValueScope {α} {root : PV} {m : M α} (hm : RecExt m) : RecExt (withValueScope root m) := by
  unfold withValueScope
  exact rx_bind (rx_pushFrame _) fun _ => rx_bind hm fun _ => rx_bind rx_popFrame fun _ => rx_pure _

theorem rx_mapM {α β} {f : α → M β} (hf : ∀ a, RecExt (f a)) : ∀ (l : List α), RecExt (l.mapM f)
  | [] => by rw [List.mapM_nil]; exact rx_pure _
  | a :: l => by
    rw [List.mapM_cons]
    exact rx_bind (hf a) fun b => rx_bind (rx_mapM hf l) fun bs => rx_pure _

theorem rx_filterMapM {α β} {f : α → M (Option β)} (hf : ∀ a, RecExt (f a)) : ∀ (l : List α), RecExt (l.filterMapM f)
  | [] => by rw [List.filterMapM_nil]; exact rx_pure _
  | a :: l => by
    rw [List.filterMapM_cons]
    refine rx_bind (hf a) fun b => ?_
    cases b with
    | none => exact rx_filterMapM hf l
    | some b => exact rx_bind (rx_filterMapM hf l) fun bs => rx_pure _

theorem rx_forIn {α β} {f : α → β → M (ForInStep β)} (hf : ∀ a b, RecExt (f a b)) :
    ∀ (l : List α) (b : β), RecExt (forIn l b f)
  | [], b => by rw [List.forIn_nil]; exact rx_pure _
  | a :: l, b => by
    rw [List.forIn_cons]
    refine rx_bind (hf a b) fun r => ?_
    cases r with
    | done b => exact rx_pure _
    | yield b => exact rx_forIn hf l b

theorem rx_addCaptureKey (name : Str) (key : PV) : RecExt (addCaptureKey name key) := by
  apply rx_modify
  intro st
  split <;> exact ⟨[], rfl⟩

theorem rx_accumulateMap {parent : PV} {ks : List (Path × Str)} {vs : List PV} {qi : Nat} {query : List QueryPart}
    {func : PV → PV → M (List QR)} (hf : ∀ k v, RecExt (func k v)) : RecExt (accumulateMap parent ks vs qi query func) := by
  unfold accumulateMap
  split
  · exact rx_pure _
  · refine rx_bind (rx_mapM (fun x => ?_) _) (fun _ => rx_pure _)
    obtain ⟨⟨p, k⟩, each⟩ := x
    exact rx_withValueScope (hf _ _)

structure AllRx (env : Env) (fuel : Nat) : Prop where
  qr : ∀ qi query current conv, RecExt (queryRetrieval env fuel qi query current conv)
  acc : ∀ parent qi query elements conv, RecExt (accumulate env fuel parent qi query elements conv)
  cad : ∀ cnf name index query key value conv, RecExt (checkAndDelegate env fuel cnf name index query key value conv)
  qctx : ∀ q, RecExt (queryCtx env fuel q)
  rvar : ∀ name, RecExt (resolveVariable env fuel name)
  rfun : ∀ name params, RecExt (resolveFunction env fuel name params)
  cnf : ∀ c, RecExt (evalCnf env fuel c)
  line : ∀ l, RecExt (evalLine env fuel l)
  alts : ∀ l, RecExt (evalAlternatives env fuel l)
  clause : ∀ c, RecExt (evalClause env fuel c)
  block : ∀ lets c, RecExt (evalGeneralBlock env fuel lets c)
  unary : ∀ q op opNot inverse msg, RecExt (unaryOperation env fuel q op opNot inverse msg)
  binary : ∀ q rhs op opNot msg, RecExt (binaryOperation env fuel q rhs op opNot msg)
  pcall : ∀ rule neg msg params, RecExt (evalParamCall env fuel rule neg msg params)
  rstat : ∀ name, RecExt (ruleStatus env fuel name)
  fns : ∀ rules, RecExt (firstNonSkip env fuel rules)
  rule : ∀ r, RecExt (evalRule env fuel r)

syntax "rx_step" : tactic
macro_rules
  | `(tactic| rx_step) => `(tactic| first
      | apply rx_pure | apply rx_throwErr | apply rx_throwPanic | apply rx_outOfFuel | apply rx_liftO
      | apply rx_emit | apply rx_get | apply rx_currentRoot | apply rx_addCaptureKey | apply rx_pushFrame | apply rx_popFrame
      | apply rx_withRec | apply rx_withValueScope | (refine rx_mapM (fun _ => ?_) _)
      | (refine rx_accumulateMap (fun _ _ => ?_))
      | (refine rx_filterMapM (fun _ => ?_) _) | (refine rx_forIn (fun _ _ => ?_) _ _)
      | (refine rx_bind ?_ (fun _ => ?_))
      | split)

macro "rx_ih" ih:ident : tactic => `(tactic| first
  | exact ($ih).qr _ _ _ _ | exact ($ih).acc _ _ _ _ _ | exact ($ih).cad _ _ _ _ _ _ _ | exact ($ih).qctx _
  | exact ($ih).rvar _ | exact ($ih).rfun _ _ | exact ($ih).cnf _ | exact ($ih).line _ | exact ($ih).alts _
  | exact ($ih).clause _ | exact ($ih).block _ _ | exact ($ih).unary _ _ _ _ _ | exact ($ih).binary _ _ _ _ _
  | exact ($ih).pcall _ _ _ _ | exact ($ih).rstat _ | exact ($ih).fns _ | exact ($ih).rule _)

macro "rx_auto" ih:ident : tactic => `(tactic| repeat (any_goals (first | rx_ih $ih | rx_step)))

theorem allRx_zero (env : Env) : AllRx env 0 := by
  constructor
  all_goals intros
  all_goals first
    | (simp only [queryRetrieval, accumulate, checkAndDelegate, queryCtx, resolveVariable, resolveFunction, evalCnf, evalLine,
        evalClause, evalGeneralBlock, unaryOperation, binaryOperation, evalParamCall, ruleStatus, evalRule]; exact rx_outOfFuel)
    | skip
  · rename_i l; cases l <;> simp only [evalAlternatives] <;> first | exact rx_pure _ | exact rx_outOfFuel
  · rename_i l; cases l <;> simp only [firstNonSkip] <;> first | exact rx_pure _ | exact rx_outOfFuel

theorem rx_qr_succ (env : Env) (fuel : Nat) (ih : AllRx env fuel) (qi : Nat) (query : List QueryPart) (current : PV)
    (conv : Option Nat) : RecExt (queryRetrieval env (fuel + 1) qi query current conv) := by
  simp only [queryRetrieval]
  rx_auto ih
  rename_i hsel
  split at hsel
  · cases hsel
  · cases hsel
  · cases hsel
  · split at hsel
    · cases hsel
    · cases hsel; exact rx_pure _
  · cases hsel; exact rx_throwErr _

theorem allRx_succ (env : Env) (fuel : Nat) (ih : AllRx env fuel) : AllRx env (fuel + 1) := by
  constructor
  case qr => exact rx_qr_succ env fuel ih
  case acc => intro parent qi query elements conv; simp only [accumulate]; rx_auto ih
  case cad => intro cnf name index query key value conv; simp only [checkAndDelegate]; rx_auto ih
  case qctx => intro q; simp only [queryCtx]; rx_auto ih
  case rfun => intro name params; simp only [resolveFunction]; rx_auto ih
  case cnf => intro c; simp only [evalCnf]; rx_auto ih
  case line => intro l; simp only [evalLine]; rx_auto ih
  case alts =>
    intro l
    cases l with
    | nil => simp only [evalAlternatives]; exact rx_pure _
    | cons c rest => simp only [evalAlternatives]; rx_auto ih
  case clause => intro c; simp only [evalClause]; rx_auto ih
  case block => intro lets c; simp only [evalGeneralBlock]; rx_auto ih
  case unary => intro q op opNot inverse msg; simp only [unaryOperation]; rx_auto ih
  case binary => intro q rhs op opNot msg; simp only [binaryOperation]; rx_auto ih
  case fns =>
    intro rules
    cases rules with
    | nil => simp only [firstNonSkip]; exact rx_pure _
    | cons r rest => simp only [firstNonSkip]; rx_auto ih
  case rule => intro r; simp only [evalRule]; rx_auto ih
  case pcall =>
    intro rule neg msg params
    simp only [evalParamCall]
    refine rx_bind ?_ (fun pr => ?_)
    · unfold findParamRule; rx_auto ih
    split
    · exact rx_throwErr _
    · refine rx_bind (rx_mapM (fun p => ?_) _) (fun vals => ?_)
      · rx_auto ih
      refine rx_bind (rx_pushFrame _) (fun _ => ?_)
      -- the called rule pushes exactly ONE record; rewriting its message keeps the caller's records
      intro st a st' h
      obtain ⟨s, s1, h1, h2⟩ := M.bind_ok h
      obtain ⟨_, s2, h3, h4⟩ := M.bind_ok h2
      obtain ⟨_, s3, h5, h6⟩ := M.bind_ok h4
      obtain ⟨_, e6⟩ := M.pure_ok h6
      obtain ⟨ch, e1⟩ := evalRule_record env fuel pr.rule st s1 s h1
      have e2 : s2 = { s1 with frames := s1.frames.tail } := by
        change (Outcome.ok ((), _)) = .ok (_, s2) at h3
        cases h3; rfl
      have e3 : s3 = (match s2.recs with
          | .node (.ruleCheck n s' _) ch :: rest =>
            if n = rule then { s2 with recs := .node (.ruleCheck n s' msg) ch :: rest } else s2
          | _ => s2) := by
        change (Outcome.ok ((), _)) = .ok (_, s3) at h5
        cases h5; rfl
      rw [e6, e3, e2]
      simp only [e1]
      split
      · exact ⟨[_], rfl⟩
      · exact ⟨[_], rfl⟩
  case rvar =>
    intro name st a st' h
    simp only [resolveVariable] at h
    cases hf : st.frames with
    | nil => rw [hf] at h; cases h
    | cons f rest =>
      rw [hf] at h; simp only at h
      have hdel : ∀ {a st'}, (if rest.isEmpty = true then (Outcome.err ErrKind.MissingValue : Outcome (List QR × St))
            else match resolveVariable env fuel name { st with frames := rest } with
              | .ok (r, st') => .ok (r, { st' with frames := f :: st'.frames })
              | e => e) = .ok (a, st') → ∃ new, st'.recs = new ++ st.recs := by
        intro a st' hd
        split at hd
        · cases hd
        · split at hd
          · rename_i r s2 hr
            cases hd
            obtain ⟨new, e⟩ := ih.rvar name _ _ _ hr
            exact ⟨new, e⟩
          · rename_i e hne
            exact (hne _ _ hd).elim
      cases f with
      | value r => exact hdel h
      | params ps =>
        simp only at h
        split at h
        · cases h; exact ⟨[], rfl⟩
        · exact hdel h
      | block b =>
        simp only at h
        split at h
        · cases h; exact ⟨[], rfl⟩
        · split at h
          · cases h; exact ⟨[], rfl⟩
          · split at h
            · split at h
              · cases h
              · split at h
                · rename_i result s2 hr
                  split at h
                  · cases h
                    obtain ⟨new, e⟩ := ih.rfun _ _ _ _ _ hr
                    exact ⟨new, e⟩
                  · cases h
                · rename_i e hne
                  exact (hne _ _ h).elim
            · split at h
              · split at h
                · cases h
                · split at h
                  · rename_i result s2 hr
                    split at h
                    · cases h
                      obtain ⟨new, e⟩ := ih.qr _ _ _ _ _ _ _ hr
                      exact ⟨new, e⟩
                    · cases h
                  · rename_i e hne
                    exact (hne _ _ h).elim
              · exact hdel h
  case rstat =>
    intro name st0 a st' h0
    simp only [ruleStatus] at h0
    obtain ⟨stg, s1, hg, h1⟩ := M.bind_ok h0
    have eg : stg = st0 ∧ s1 = st0 := by
      change (Outcome.ok (st0, st0)) = .ok (stg, s1) at hg
      cases hg; exact ⟨rfl, rfl⟩
    rw [eg.1, eg.2] at h1
    clear hg eg h0
    cases hlk : alLookup name st0.ruleStatus with
    | some sv => rw [hlk] at h1; obtain ⟨_, e⟩ := M.pure_ok h1; rw [e]; exact ⟨[], rfl⟩
    | none =>
      rw [hlk] at h1
      obtain ⟨rules, s2, hr, h2⟩ := M.bind_ok h1
      have e2 : s2 = st0 := by
        unfold rulesNamed at hr
        obtain ⟨x, s3, hg2, hp⟩ := M.bind_ok hr
        have : s3 = st0 := by
          change (Outcome.ok (st0, st0)) = .ok (x, s3) at hg2
          cases hg2; rfl
        rw [← this]; exact (M.pure_ok hp).2
      rw [e2] at h2
      by_cases he : rules.isEmpty = true
      · simp only [he, ↓reduceIte] at h2; cases h2
      · by_cases hp : st0.rulesInProgress.contains name = true
        · simp only [he, hp, ↓reduceIte] at h2; cases h2
        · simp only [he, hp, ↓reduceIte] at h2
          obtain ⟨_, s3, hm1, h3⟩ := M.bind_ok h2
          obtain ⟨s, s4, hfns, h4⟩ := M.bind_ok h3
          obtain ⟨_, s5, hm2, h5⟩ := M.bind_ok h4
          obtain ⟨_, e6⟩ := M.pure_ok h5
          have e3 : s3.recs = st0.recs := by
            change (Outcome.ok ((), _)) = .ok (_, s3) at hm1
            cases hm1; rfl
          have e5 : s5.recs = s4.recs := by
            change (Outcome.ok ((), _)) = .ok (_, s5) at hm2
            cases hm2; rfl
          obtain ⟨new, en⟩ := ih.fns _ _ _ _ hfns
          exact ⟨new, by rw [e6, e5, en, e3]⟩

/-- **recorder discipline**: every function of the evaluator only adds records on top of the ones it found -/
theorem allRx (env : Env) : ∀ fuel, AllRx env fuel
  | 0 => allRx_zero env
  | fuel + 1 => allRx_succ env fuel (allRx env fuel)

end Guard
