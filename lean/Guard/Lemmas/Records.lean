import Guard.Lemmas.Monad
/-
  Guard.Lemmas.Records — what the record tree of a whole-file evaluation looks like at its top:
  one `FileCheck` root whose children are, in file order, one `RuleCheck` per rule of the file,
  each carrying the status `evalRule` returned for it.  Follows from the shape of `withRec`
  (the body runs on an empty record list and exactly one record is pushed) — no global invariant.
-/
set_option linter.unusedVariables false
namespace Guard

/-- `withRec`, exactly -/
theorem withRec_ok {α} {mk : α → RecKind} {m : M α} {st st' : St} {a : α}
    (h : withRec mk m st = .ok (a, st')) :
    ∃ st'', m { st with recs := [] } = .ok (a, st'') ∧
      st' = { st'' with recs := Rec.node (mk a) st''.recs.reverse :: st.recs } := by
  unfold withRec at h
  split at h
  · rename_i x a' st'' hb
    cases h
    exact ⟨st'', hb, rfl⟩
  all_goals cases h

/-- a successful rule evaluation pushes exactly one record: the rule's `RuleCheck` with the returned status -/
theorem evalRule_record (env : Env) (fuel : Nat) (r : Rule) (st st' : St) (s : Status)
    (h : evalRule env fuel r st = .ok (s, st')) :
    ∃ ch, st'.recs = Rec.node (.ruleCheck r.name s none) ch :: st.recs := by
  cases fuel with
  | zero => simp [evalRule, outOfFuel] at h
  | succ fuel =>
    simp only [evalRule] at h
    obtain ⟨st'', _, e⟩ := withRec_ok h
    exact ⟨st''.recs.reverse, by rw [e]⟩

/-- evaluating the rules of a file in order pushes one `RuleCheck` per rule, newest first -/
theorem mapM_evalRule_records (env : Env) (fuel : Nat) : ∀ (rules : List Rule) (st st' : St) (sts : List Status),
    rules.mapM (evalRule env fuel) st = .ok (sts, st') →
    sts.length = rules.length ∧
    ∃ news : List Rec, st'.recs = news ++ st.recs ∧
      news.reverse.map Rec.kind = (rules.zip sts).map fun p => RecKind.ruleCheck p.1.name p.2 none
  | [], st, st', sts, h => by
    rw [List.mapM_nil] at h
    obtain ⟨rfl, rfl⟩ := M.pure_ok h
    exact ⟨rfl, [], rfl, rfl⟩
  | r :: rest, st, st', sts, h => by
    rw [List.mapM_cons] at h
    obtain ⟨s, st1, h1, h2⟩ := M.bind_ok h
    obtain ⟨ss, st2, h3, h4⟩ := M.bind_ok h2
    obtain ⟨rfl, rfl⟩ := M.pure_ok h4
    obtain ⟨ch, e1⟩ := evalRule_record env fuel r st st1 s h1
    obtain ⟨hl, news, e2, e3⟩ := mapM_evalRule_records env fuel rest st1 st' ss h3
    refine ⟨by simp [hl], news ++ [Rec.node (.ruleCheck r.name s none) ch], ?_, ?_⟩
    · rw [e2, e1]; simp
    · simp [List.reverse_append, e3, Rec.kind]

/-- **the top of the record tree**: a whole-file evaluation returns the status `s` and a `FileCheck s` root whose
    children are, in file order, one `RuleCheck` per rule of the file with the status its evaluation returned,
    and `s` is the aggregation of those statuses. -/
theorem runFile_top (env : Env) (fuel : Nat) (file : RulesFile) (doc : PV) (s : Status) (t : Rec)
    (h : runFile env fuel file doc = .ok (s, t)) :
    ∃ sts : List Status, sts.length = file.rules.length ∧ s = bodyStatus sts ∧ t.kind = .fileCheck s ∧
      t.children.map Rec.kind = (file.rules.zip sts).map fun p => RecKind.ruleCheck p.1.name p.2 none := by
  unfold runFile at h
  split at h
  · rename_i s0 st hev
    split at h
    · rename_i r hrec
      cases h
      unfold evalRulesFile at hev
      obtain ⟨st'', hb, e⟩ := withRec_ok hev
      obtain ⟨sts, st3, hm, hp⟩ := M.bind_ok hb
      obtain ⟨e0, e3'⟩ := M.pure_ok hp
      obtain ⟨hl, news, e2, e3⟩ := mapM_evalRule_records env fuel file.rules _ _ sts hm
      rw [e] at hrec
      simp only [St.init] at hrec e2
      have ht : t = Rec.node (.fileCheck s) st''.recs.reverse := by
        simp at hrec; exact hrec.symm
      rw [e3'] at ht
      refine ⟨sts, hl, e0, by rw [ht]; rfl, ?_⟩
      rw [ht]
      simp only [Rec.children]
      rw [e2]; simpa using e3
    · cases h
  all_goals cases h

/-- the record-list pattern match of `runFile` (the model's `.panic .other`) cannot fail -/
theorem runFile_never_panics_on_records (env : Env) (fuel : Nat) (file : RulesFile) (doc : PV) (s : Status) (st : St)
    (h : evalRulesFile env fuel file (St.init file doc) = .ok (s, st)) : ∃ r, st.recs = [r] := by
  unfold evalRulesFile at h
  obtain ⟨st'', _, e⟩ := withRec_ok h
  exact ⟨_, by rw [e]; rfl⟩

end Guard
