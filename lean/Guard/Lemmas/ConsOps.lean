import Guard.Lemmas.Cons
/-
  Guard.Lemmas.ConsOps — the leaf records of comparisons: every entry a comparison reports is a `ClauseValueCheck`
  leaf whose status is the entry's outcome.
-/
set_option linter.unusedVariables false
set_option linter.unusedSimpArgs false
namespace Guard

/-- a reported entry (record kind, value, status): a value-check leaf carrying that status -/
def GoodS (e : RecKind × QR × Status) : Prop :=
  (∃ c, e.1 = .clauseValueCheck c) ∧ (Rec.node e.1 []).status = e.2.2

def GoodB (e : RecKind × QR × Bool) : Prop :=
  (∃ c, e.1 = .clauseValueCheck c) ∧ ((Rec.node e.1 []).status == Status.pass) = e.2.2

theorem nodeOk_valueCheck (c : ClauseCheck) : nodeOk (.clauseValueCheck c) [] = true := by
  cases c <;> simp [nodeOk, lineRecs]

theorem status_valueCheck (c : ClauseCheck) :
    (Rec.node (.clauseValueCheck c) []).status = (match c with | .success => Status.pass | _ => Status.fail) := by
  cases c <;> simp [Rec.status, RecKind.status?]

theorem leaf_isValueCheck (c : ClauseCheck) : isValueCheck (Rec.node (.clauseValueCheck c) []) = true := rfl

theorem leaf_not_filter (c : ClauseCheck) : (Rec.node (.clauseValueCheck c) []).kind.isFilter = false := rfl

theorem realBinaryOne_good (env : Env) (op : CmpOp) (opNot : Bool) (msg : Option Str) (rhs : List QR) (each : QR)
    (out : List (RecKind × QR × Status)) (h : realBinaryOne env op opNot msg rhs each = .ok out) :
    ∀ e ∈ out, GoodS e := by
  unfold realBinaryOne at h
  cases each with
  | unresolved u =>
    simp only at h; cases h
    intro e he; simp at he; subst he
    exact ⟨⟨_, rfl⟩, by simp [Rec.status, RecKind.status?]⟩
  | literal l =>
    simp only at h
    split at h
    · rename_i f hf
      split at h
      · rename_i r hr
        split at h
        · split at h
          · cases h; intro e he; simp at he
          · split at h
            · cases h; intro e he; simp at he; subst he
              exact ⟨⟨_, rfl⟩, by simp [Rec.status, RecKind.status?]⟩
            · cases h; intro e he; simp at he; subst he
              exact ⟨⟨_, rfl⟩, by simp [Rec.status, RecKind.status?]⟩
        · cases h
          intro e he
          simp only [List.mem_map] at he
          obtain ⟨c, _, rfl⟩ := he
          cases c with
          | comparable b lv rv => cases b <;> exact ⟨⟨_, rfl⟩, by simp [Rec.status, RecKind.status?]⟩
          | notComparable lv rv => exact ⟨⟨_, rfl⟩, by simp [Rec.status, RecKind.status?]⟩
          | unresolvedRhs q lv => exact ⟨⟨_, rfl⟩, by simp [Rec.status, RecKind.status?]⟩
      all_goals cases h
    all_goals cases h
  | resolved l =>
    simp only at h
    split at h
    · rename_i f hf
      split at h
      · rename_i r hr
        split at h
        · split at h
          · cases h; intro e he; simp at he
          · split at h
            · cases h; intro e he; simp at he; subst he
              exact ⟨⟨_, rfl⟩, by simp [Rec.status, RecKind.status?]⟩
            · cases h; intro e he; simp at he; subst he
              exact ⟨⟨_, rfl⟩, by simp [Rec.status, RecKind.status?]⟩
        · cases h
          intro e he
          simp only [List.mem_map] at he
          obtain ⟨c, _, rfl⟩ := he
          cases c with
          | comparable b lv rv => cases b <;> exact ⟨⟨_, rfl⟩, by simp [Rec.status, RecKind.status?]⟩
          | notComparable lv rv => exact ⟨⟨_, rfl⟩, by simp [Rec.status, RecKind.status?]⟩
          | unresolvedRhs q lv => exact ⟨⟨_, rfl⟩, by simp [Rec.status, RecKind.status?]⟩
      all_goals cases h
    all_goals cases h

theorem mapMOutcome_ok {α β} (f : α → Outcome β) : ∀ (l : List α) (rows : List β), mapMOutcome f l = .ok rows →
    ∀ row ∈ rows, ∃ x, x ∈ l ∧ f x = .ok row
  | [], rows, h => by simp [mapMOutcome] at h; subst h; simp
  | x :: xs, rows, h => by
    simp only [mapMOutcome] at h
    split at h
    · rename_i y hy
      split at h
      · rename_i ys hys
        cases h
        intro row hr
        simp only [List.mem_cons] at hr
        rcases hr with rfl | hr
        · exact ⟨x, by simp, hy⟩
        · obtain ⟨x', hx', e⟩ := mapMOutcome_ok f xs ys hys row hr
          exact ⟨x', by simp [hx'], e⟩
      · rename_i e hne
        exact absurd h (by intro hh; exact hne _ hh)
    all_goals cases h

/-- the leaf records of a list of entries -/
def leaves {γ} (es : List (RecKind × QR × γ)) : List Rec := es.map fun e => Rec.node e.1 []

theorem consList_leaves {γ} : ∀ (es : List (RecKind × QR × γ)), (∀ e ∈ es, ∃ c, e.1 = .clauseValueCheck c) →
    ConsistentList (leaves es) = true
  | [], _ => rfl
  | e :: es, h => by
    obtain ⟨c, hc⟩ := h e (by simp)
    have ih := consList_leaves es fun e' he' => h e' (List.mem_cons_of_mem _ he')
    simp only [leaves] at ih
    simp [leaves, ConsistentList, Consistent, hc, nodeOk_valueCheck, ih]

/-- emitting one record per entry pushes exactly the leaves, in order -/
theorem inv_forIn_emit {γ} : ∀ (es : List (RecKind × QR × γ)), (∀ e ∈ es, ∃ c, e.1 = .clauseValueCheck c) →
    Inv (forIn es PUnit.unit fun (x : RecKind × QR × γ) (_ : PUnit) => do
        emit x.1
        pure (ForInStep.yield PUnit.unit) : M PUnit) (fun _ ps => ps = leaves es)
  | [], _ => by rw [List.forIn_nil]; exact inv_pure _ rfl
  | e :: es, h => by
    rw [List.forIn_cons]
    intro st a st' hh
    obtain ⟨r, s1, h1, h2⟩ := M.bind_ok hh
    obtain ⟨_, s2, h3, h4⟩ := M.bind_ok h1
    obtain ⟨er, es1⟩ := M.pure_ok h4
    have e2 : s2 = { st with recs := Rec.node e.1 [] :: st.recs } := by
      change (Outcome.ok ((), _)) = .ok (_, s2) at h3
      cases h3; rfl
    rw [er] at h2
    simp only at h2
    obtain ⟨ps, e3, c3, p3⟩ := inv_forIn_emit es (fun e' he' => h e' (List.mem_cons_of_mem _ he')) s1 a st' h2
    rw [es1] at e3
    subst p3
    refine ⟨leaves (e :: es), ?_, consList_leaves _ h, rfl⟩
    rw [e3, e2]
    simp [leaves]

theorem liftO_ok {α} {o : Outcome α} {st st' : St} {a : α} (h : liftO o st = .ok (a, st')) : o = .ok a ∧ st' = st := by
  cases o <;> simp [liftO] at h
  exact ⟨by rw [h.1], h.2.symm⟩

/-- `real_binary_operation`: one leaf per reported entry, carrying the entry's status -/
theorem inv_realBinaryOperation (env : Env) (lhs rhs : List QR) (op : CmpOp) (opNot : Bool) (msg : Option Str) :
    Inv (realBinaryOperation env lhs rhs op opNot msg) (fun res ps =>
      ∃ es : List (RecKind × QR × Status), (∀ e ∈ es, GoodS e) ∧ ps = leaves es ∧ res = es.map fun e => (e.2.1, e.2.2)) := by
  intro st res st' h
  unfold realBinaryOperation at h
  obtain ⟨rows, s1, h1, h2⟩ := M.bind_ok h
  obtain ⟨hrows, rfl⟩ := liftO_ok h1
  obtain ⟨_, s2, h3, h4⟩ := M.bind_ok h2
  obtain ⟨eres, es2⟩ := M.pure_ok h4
  have hgood : ∀ e ∈ rows.flatten, GoodS e := by
    intro e he
    obtain ⟨row, hrow, her⟩ := List.mem_flatten.mp he
    obtain ⟨x, _, hx⟩ := mapMOutcome_ok _ _ _ hrows row hrow
    exact realBinaryOne_good _ _ _ _ _ _ _ hx e her
  have hemit := inv_forIn_emit rows.flatten (fun e he => (hgood e he).1)
  have h3' : (forIn rows.flatten PUnit.unit fun (x : RecKind × QR × Status) (_ : PUnit) => do
        emit x.1
        pure (ForInStep.yield PUnit.unit) : M PUnit) s1 = .ok (PUnit.unit, s2) := h3
  obtain ⟨ps, e3, c3, p3⟩ := hemit s1 _ s2 h3'
  refine ⟨ps, by rw [es2]; exact e3, c3, rows.flatten, hgood, p3, ?_⟩
  rw [eres]

theorem lineRecs_leaves {γ} : ∀ (es : List (RecKind × QR × γ)), (∀ e ∈ es, ∃ c, e.1 = .clauseValueCheck c) →
    lineRecs (leaves es) = leaves es
  | [], _ => rfl
  | e :: es, h => by
    obtain ⟨c, hc⟩ := h e (by simp)
    have ih := lineRecs_leaves es fun e' he' => h e' (List.mem_cons_of_mem _ he')
    simp only [leaves, lineRecs] at ih ⊢
    rw [List.map_cons, List.filter_cons]
    simp only [hc, Rec.kind, RecKind.isFilter, Bool.not_false, ↓reduceIte]
    exact congrArg _ ih

theorem explains_leaves : ∀ (es : List (RecKind × QR × Status)), (∀ e ∈ es, GoodS e) →
    Explains (leaves es) (es.map fun e => e.2.2)
  | [], _ => trivial
  | e :: es, h => by
    obtain ⟨⟨c, hc⟩, hs⟩ := h e (by simp)
    refine ⟨?_, explains_leaves es fun e' he' => h e' (List.mem_cons_of_mem _ he')⟩
    simp only [lineOptions, Rec.kind, hc]
    rw [hc] at hs
    simp only [Rec.status] at hs
    simp [hs]

/-- the `Filter` record of a `keys` filter: explained by the key comparisons under it -/
theorem invf_keysFilter (env : Env) (lhs rhs : List QR) (op : CmpOp) (opNot : Bool) :
    InvF (withRec (fun (rs : List (QR × Status)) => RecKind.filter (bodyStatus (rs.map (·.2))))
      (realBinaryOperation env lhs rhs op opNot none)) := by
  apply inv_withRec (inv_realBinaryOperation env lhs rhs op opNot none)
  intro res ps _ ⟨es, hg, hps, hres⟩
  refine ⟨?_, ?_⟩
  · simp only [nodeOk]
    rw [hps, lineRecs_leaves es fun e he => (hg e he).1]
    refine aggOk_of_explains (explains_leaves es hg) ?_
    rw [hres]; simp only [List.map_map]; rfl
  · simp [OnlyF, lineRecs, Rec.kind, RecKind.isFilter]

end Guard
