import Guard.Model.Eval
import Guard.Model.WF
/-
  Guard.Lemmas.PureSites — which panics the comparison layer (Compare / Ops) can raise.
-/
set_option linter.unusedVariables false
namespace Guard

/-- `PartialEq` never "panics" any more (fix 6b03de4: `is_match(..).unwrap_or(false)`) -/
theorem looseEq_some (env : Env) : ∀ (n : Nat) (a b : PV), sizeOf a ≤ n → ∃ v, looseEq env a b = some v := by
  intro n
  induction n with
  | zero => intro a b h; cases a <;> simp at h <;> omega
  | succ n ih =>
    intro a b h
    have hlist : ∀ (xs ys : List PV), sizeOf xs ≤ n → ∃ v, looseEqList env xs ys = some v := by
      intro xs
      induction xs with
      | nil => intro ys _; exact ⟨true, by simp [looseEqList]⟩
      | cons x xs ihx =>
        intro ys hs
        cases ys with
        | nil => exact ⟨true, by simp [looseEqList]⟩
        | cons y ys =>
          simp only [List.cons.sizeOf_spec] at hs
          obtain ⟨v, hv⟩ := ih x y (by omega)
          obtain ⟨w, hw⟩ := ihx ys (by omega)
          unfold looseEqList
          rw [hv]
          cases v with
          | true => exact ⟨w, hw⟩
          | false => exact ⟨false, rfl⟩
    have hmap : ∀ (ks : List (Path × Str)) (vs : List PV) ks2 vs2, sizeOf vs ≤ n → ∃ v, looseEqMap env ks vs ks2 vs2 = some v := by
      intro ks vs
      induction vs generalizing ks with
      | nil => intro ks2 vs2 _; exact ⟨true, by cases ks <;> simp [looseEqMap]⟩
      | cons x xs ihx =>
        intro ks2 vs2 hs
        cases ks with
        | nil => exact ⟨true, by simp [looseEqMap]⟩
        | cons k ks =>
          obtain ⟨p, k⟩ := k
          simp only [List.cons.sizeOf_spec] at hs
          unfold looseEqMap
          cases hl : PV.lookupKV ks2 vs2 k with
          | none => exact ⟨false, rfl⟩
          | some v2 =>
            obtain ⟨v, hv⟩ := ih x v2 (by omega)
            obtain ⟨w, hw⟩ := ihx ks ks2 vs2 (by omega)
            simp only [hv]
            cases v with
            | true => exact ⟨w, hw⟩
            | false => exact ⟨false, rfl⟩
    unfold looseEq
    split
    · rename_i p ks vs p2 ks2 vs2
      simp only [PV.map.sizeOf_spec] at h
      split
      · exact hmap ks vs ks2 vs2 (by omega)
      · exact ⟨false, rfl⟩
    · rename_i p xs p2 ys
      simp only [PV.list.sizeOf_spec] at h
      split
      · exact hlist xs ys (by omega)
      · exact ⟨false, rfl⟩
    all_goals first
      | exact ⟨_, rfl⟩
      | (split <;> exact ⟨_, rfl⟩)


theorem looseEq_ne_none (env : Env) (a b : PV) : looseEq env a b ≠ none := by
  obtain ⟨v, hv⟩ := looseEq_some env (sizeOf a) a b (Nat.le_refl _)
  rw [hv]; simp

theorem looseContains_ne_none (env : Env) : ∀ (ys : List PV) (x : PV), looseContains env ys x ≠ none
  | [], x => by simp [looseContains]
  | y :: ys, x => by
    unfold looseContains
    obtain ⟨v, hv⟩ := looseEq_some env (sizeOf y) y x (Nat.le_refl _)
    rw [hv]
    cases v with
    | true => simp
    | false => exact looseContains_ne_none env ys x

/-- an outcome that is not a panic -/
def Outcome.NP {α} (o : Outcome α) : Prop := ∀ s, o ≠ .panic s

theorem Outcome.NP.ok {α} (a : α) : (Outcome.ok a).NP := by intro s h; cases h
theorem Outcome.NP.err {α} (e : ErrKind) : (Outcome.err e : Outcome α).NP := by intro s h; cases h

theorem liftOpt_np {α} {o : Option α} (h : o ≠ none) : (liftOpt o).NP := by
  cases o with
  | none => exact absurd rfl h
  | some a => exact Outcome.NP.ok a

theorem notContainedIn_np (env : Env) (ys : List PV) : ∀ xs, (notContainedIn env ys xs).NP
  | [] => Outcome.NP.ok _
  | x :: xs => by
    intro s h
    unfold notContainedIn at h
    have h1 := liftOpt_np (looseContains_ne_none env ys x)
    have h2 := notContainedIn_np env ys xs
    cases hl : liftOpt (looseContains env ys x) with
    | ok b =>
      rw [hl] at h; simp only at h
      cases hr : notContainedIn env ys xs with
      | ok rest => rw [hr] at h; cases h
      | err e => rw [hr] at h; cases h
      | panic s' => exact h2 s' hr
      | outOfFuel => rw [hr] at h; cases h
    | err e => rw [hl] at h; cases h
    | panic s' => exact h1 s' hl
    | outOfFuel => rw [hl] at h; cases h

theorem compareValues_np (a b : PV) : (compareValues a b).NP := by
  intro s h
  unfold compareValues at h
  split at h <;> first | cases h | (split at h <;> cases h)

theorem regexEq_np (env : Env) (r s : Str) : (regexEq env r s).NP := by
  intro s' h; unfold regexEq at h; split at h <;> cases h

theorem cmpWith_np (f : Ordering → Bool) (a b : PV) : (cmpWith f a b).NP := by
  intro s h
  unfold cmpWith at h
  have := compareValues_np a b
  cases hc : compareValues a b with
  | ok o => rw [hc] at h; cases h
  | err e => rw [hc] at h; cases h
  | panic s' => exact this s' hc
  | outOfFuel => rw [hc] at h; cases h

theorem compareEq_np (env : Env) : ∀ (n : Nat) (a b : PV), sizeOf a ≤ n → (compareEq env a b).NP := by
  intro n
  induction n with
  | zero => intro a b h; cases a <;> simp at h <;> omega
  | succ n ih =>
    intro a b h
    have hlist : ∀ (xs ys : List PV), sizeOf xs ≤ n → (compareEqList env xs ys).NP := by
      intro xs
      induction xs with
      | nil => intro ys _ s h; simp [compareEqList] at h
      | cons x xs ihx =>
        intro ys hs s h
        cases ys with
        | nil => simp [compareEqList] at h
        | cons y ys =>
          simp only [List.cons.sizeOf_spec] at hs
          unfold compareEqList at h
          cases hc : compareEq env x y with
          | ok v =>
            rw [hc] at h
            cases v with
            | true => exact ihx ys (by omega) s h
            | false => cases h
          | err e => rw [hc] at h; cases h
          | panic s' => exact ih x y (by omega) s' hc
          | outOfFuel => rw [hc] at h; cases h
    have hmap : ∀ (ks : List (Path × Str)) (vs : List PV) ks2 vs2, sizeOf vs ≤ n → (compareEqMap env ks vs ks2 vs2).NP := by
      intro ks vs
      induction vs generalizing ks with
      | nil => intro ks2 vs2 _ s h; cases ks <;> simp [compareEqMap] at h
      | cons x xs ihx =>
        intro ks2 vs2 hs s h
        cases ks with
        | nil => simp [compareEqMap] at h
        | cons k ks =>
          obtain ⟨p, k⟩ := k
          simp only [List.cons.sizeOf_spec] at hs
          unfold compareEqMap at h
          cases hl : PV.lookupKV ks2 vs2 k with
          | none => rw [hl] at h; cases h
          | some v2 =>
            rw [hl] at h; simp only at h
            cases hc : compareEq env x v2 with
            | ok v =>
              rw [hc] at h
              cases v with
              | true => exact ihx ks ks2 vs2 (by omega) s h
              | false => cases h
            | err e => rw [hc] at h; cases h
            | panic s' => exact ih x v2 (by omega) s' hc
            | outOfFuel => rw [hc] at h; cases h
    intro s hh
    unfold compareEq at hh
    split at hh
    · exact regexEq_np env _ _ s hh
    · exact regexEq_np env _ _ s hh
    · cases hh
    · rename_i p ks vs p2 ks2 vs2
      simp only [PV.map.sizeOf_spec] at h
      split at hh
      · exact hmap ks vs ks2 vs2 (by omega) s hh
      · cases hh
    · rename_i p xs p2 ys
      simp only [PV.list.sizeOf_spec] at h
      split at hh
      · exact hlist xs ys (by omega) s hh
      · cases hh
    all_goals first
      | (cases hh; done)
      | (have := compareValues_np a b
         cases hc : compareValues a b with
         | ok o => rw [hc] at hh; cases hh
         | err e => rw [hc] at hh; cases hh
         | panic s' => exact this s' hc
         | outOfFuel => rw [hc] at hh; cases hh)


theorem compareEq_np' (env : Env) (a b : PV) : (compareEq env a b).NP := compareEq_np env (sizeOf a) a b (Nat.le_refl _)

/-- a `ListIn` result always carries a LIST as its left-hand side (what the negation arm `unreachable!()`s on) -/
def VER.ListOk : VER → Prop
  | .cmp (.success (.listIn _ l _)) => l.isList = true
  | .cmp (.fail (.listIn _ l _)) => l.isList = true
  | _ => True

theorem matchValue_np {cmp : PV → PV → Outcome Bool} (hc : ∀ a b, (cmp a b).NP) (l r : PV) : (matchValue cmp l r).NP := by
  intro s h
  unfold matchValue at h
  split at h <;> first | (cases h; done) | (rename_i hh; cases h; exact hc l r _ hh)

theorem matchValue_listOk {cmp : PV → PV → Outcome Bool} {l r : PV} {v : VER} (h : matchValue cmp l r = .ok v) : v.ListOk := by
  unfold matchValue at h
  split at h <;> first | (cases h; simp [VER.ListOk, verSuccess, verFail]) | cases h

/-- close a leaf of a fully split `f .. = .panic s`: either the leaf is not a panic, or the panic was propagated
    from a sub-computation known not to panic -/
syntax "np_close" : tactic
macro_rules
  | `(tactic| np_close) => `(tactic| first
      | (rename_i h; cases h; done)
      | (rename_i h; cases h; first
          | exact notContainedIn_np _ _ _ _ (by assumption)
          | exact liftOpt_np (looseContains_ne_none _ _ _) _ (by assumption)
          | exact matchValue_np (compareEq_np' _) _ _ _ (by assumption))
      | (rename_i h; exact matchValue_np (compareEq_np' _) _ _ _ h))

theorem containedIn_np (env : Env) (l r : PV) : (containedIn env l r).NP := by
  intro s h
  unfold containedIn at h
  repeat' (split at h)
  all_goals (revert h; intro h; np_close)

theorem containedIn_listOk (env : Env) {l r : PV} {v : VER} (h : containedIn env l r = .ok v) : v.ListOk := by
  unfold containedIn at h
  repeat' (split at h)
  all_goals first
    | (cases h; simp [VER.ListOk, PV.isList]; done)
    | exact matchValue_listOk h
    | (cases h; done)

theorem mapMOutcome_np {α β} {f : α → Outcome β} (hf : ∀ a, (f a).NP) : ∀ l, (mapMOutcome f l).NP
  | [] => Outcome.NP.ok _
  | x :: xs => by
    intro s h
    unfold mapMOutcome at h
    cases hx : f x with
    | ok y =>
      rw [hx] at h; simp only at h
      cases hr : mapMOutcome f xs with
      | ok ys => rw [hr] at h; cases h
      | err e => rw [hr] at h; cases h
      | panic s' => exact mapMOutcome_np hf xs s' hr
      | outOfFuel => rw [hr] at h; cases h
    | err e => rw [hx] at h; cases h
    | panic s' => exact hf x s' hx
    | outOfFuel => rw [hx] at h; cases h

theorem mapMOutcome_all {α β} {f : α → Outcome β} {P : β → Prop} (hf : ∀ a b, f a = .ok b → P b) :
    ∀ l r, mapMOutcome f l = .ok r → ∀ y ∈ r, P y
  | [], r, h => by cases h; intro y hy; cases hy
  | x :: xs, r, h => by
    unfold mapMOutcome at h
    cases hx : f x with
    | ok y =>
      rw [hx] at h; simp only at h
      cases hr : mapMOutcome f xs with
      | ok ys =>
        rw [hr] at h; cases h
        intro z hz
        rcases List.mem_cons.mp hz with rfl | hz
        · exact hf x _ hx
        · exact mapMOutcome_all hf xs ys hr z hz
      | err e => rw [hr] at h; cases h
      | panic s' => rw [hr] at h; cases h
      | outOfFuel => rw [hr] at h; cases h
    | err e => rw [hx] at h; cases h
    | panic s' => rw [hx] at h; cases h
    | outOfFuel => rw [hx] at h; cases h


def ResOk (o : Outcome EvalResult) : Prop := o.NP ∧ ∀ rs, o = .ok (.result rs) → ∀ v ∈ rs, v.ListOk

theorem listOk_lhsU (u : UnResolved) : (VER.lhsUnresolved u).ListOk := trivial
theorem listOk_rhsU (u : UnResolved) (l : PV) : (VER.cmp (.rhsUnresolved u l)).ListOk := trivial

theorem listOk_append {a b : List VER} (ha : ∀ v ∈ a, v.ListOk) (hb : ∀ v ∈ b, v.ListOk) : ∀ v ∈ a ++ b, v.ListOk := by
  intro v hv; rcases List.mem_append.mp hv with h | h
  · exact ha v h
  · exact hb v h

theorem listOk_pre2 (lhs rhs : List QR) (ls : List PV) : ∀ v ∈ (unresolvedOf lhs).map VER.lhsUnresolved ++
    (unresolvedOf rhs).flatMap (fun ur => ls.map (fun l => VER.cmp (.rhsUnresolved ur l))), v.ListOk := by
  apply listOk_append
  · intro v hv; obtain ⟨u, _, rfl⟩ := List.mem_map.mp hv; trivial
  · intro v hv
    obtain ⟨u, _, hu⟩ := List.mem_flatMap.mp hv
    obtain ⟨l, _, rfl⟩ := List.mem_map.mp hu; trivial

theorem commonCompare_ok {cmp : PV → PV → Outcome Bool} (hc : ∀ a b, (cmp a b).NP) (lhs rhs : List QR) :
    ResOk (commonCompare cmp lhs rhs) := by
  unfold commonCompare
  have hnp := mapMOutcome_np (f := fun l => mapMOutcome (fun r => matchValue cmp l r) (flattenedVals rhs))
    (fun l => mapMOutcome_np (fun r => matchValue_np hc l r) _) (flattenedVals lhs)
  simp only
  cases hm : mapMOutcome (fun l => mapMOutcome (fun r => matchValue cmp l r) (flattenedVals rhs)) (flattenedVals lhs) with
  | ok rows =>
    refine ⟨Outcome.NP.ok _, ?_⟩
    intro rs h; cases h
    apply listOk_append (listOk_pre2 lhs rhs _)
    intro v hv
    obtain ⟨row, hrow, hvr⟩ := List.mem_flatten.mp hv
    have := mapMOutcome_all (P := fun (row : List VER) => ∀ v ∈ row, v.ListOk)
      (f := fun l => mapMOutcome (fun r => matchValue cmp l r) (flattenedVals rhs))
      (fun a b hb => mapMOutcome_all (P := VER.ListOk) (fun a' b' hb' => matchValue_listOk hb') _ b hb) _ rows hm row hrow
    exact this v hvr
  | err e => exact ⟨Outcome.NP.err e, (by intro rs h; cases h)⟩
  | panic s => exact absurd hm (hnp s)
  | outOfFuel => exact ⟨(by intro s h; cases h), (by intro rs h; cases h)⟩


syntax "res_leaf" : tactic
macro_rules
  | `(tactic| res_leaf) => `(tactic| first
      | exact ⟨Outcome.NP.err _, (by intro rs h; cases h)⟩
      | exact ⟨(by intro s h; cases h), (by intro rs h; cases h)⟩)

theorem anySucc_np (env : Env) (l : PV) : ∀ rs, (inDiff.anySucc env l rs).NP
  | [] => Outcome.NP.ok _
  | r :: rs => by
    intro s h
    unfold inDiff.anySucc at h
    have := containedIn_np env l r
    cases hc : containedIn env l r with
    | ok v =>
      rw [hc] at h
      split at h
      · cases h
      · exact anySucc_np env l rs s h
      all_goals (rename_i hh; cases hh)
    | err e => rw [hc] at h; cases h
    | panic s' => exact this s' hc
    | outOfFuel => rw [hc] at h; cases h

theorem inDiff_np (env : Env) (rhsSel : List PV) : ∀ ls, (inDiff env rhsSel ls).NP
  | [] => Outcome.NP.ok _
  | l :: ls => by
    intro s h
    unfold inDiff at h
    have h1 := anySucc_np env l rhsSel
    have h2 := inDiff_np env rhsSel ls
    cases ha : inDiff.anySucc env l rhsSel with
    | ok found =>
      rw [ha] at h; simp only at h
      cases hr : inDiff env rhsSel ls with
      | ok rest => rw [hr] at h; cases h
      | err e => rw [hr] at h; cases h
      | panic s' => exact h2 s' hr
      | outOfFuel => rw [hr] at h; cases h
    | err e => rw [ha] at h; cases h
    | panic s' => exact h1 s' ha
    | outOfFuel => rw [ha] at h; cases h

theorem listOk_map_rhsU (rhs : List QR) (l : PV) : ∀ v ∈ (unresolvedOf rhs).map (fun ur => VER.cmp (.rhsUnresolved ur l)), v.ListOk := by
  intro v hv; obtain ⟨u, _, rfl⟩ := List.mem_map.mp hv; trivial

theorem listOk_map_lhsU (lhs : List QR) : ∀ v ∈ (unresolvedOf lhs).map VER.lhsUnresolved, v.ListOk := by
  intro v hv; obtain ⟨u, _, rfl⟩ := List.mem_map.mp hv; trivial

theorem listOk_single {v : VER} (h : v.ListOk) : ∀ w ∈ [v], w.ListOk := by
  intro w hw; rw [List.mem_singleton.mp hw]; exact h

theorem stringIn_listOk (l r : PV) : (stringIn l r).ListOk := by
  unfold stringIn; split
  · split <;> simp [VER.ListOk, verSuccess, verFail]
  · trivial

def RowOk (o : Outcome (List VER)) : Prop := o.NP ∧ ∀ row, o = .ok row → ∀ v ∈ row, v.ListOk

theorem inEachLit_ok (env : Env) (r l : PV) : RowOk (inEachLit env r l) := by
  unfold inEachLit
  split
  · split
    · refine ⟨Outcome.NP.ok _, ?_⟩
      intro row h; cases h
      intro v hv; obtain ⟨e, _, rfl⟩ := List.mem_map.mp hv; exact stringIn_listOk _ _
    · refine ⟨Outcome.NP.ok _, ?_⟩
      intro row h; cases h
      exact listOk_single (stringIn_listOk _ _)
  · have hn := containedIn_np env l r
    cases hc : containedIn env l r with
    | ok v => exact ⟨Outcome.NP.ok _, by intro row h; cases h; exact listOk_single (containedIn_listOk env hc)⟩
    | err e => exact ⟨Outcome.NP.err _, (by intro row h; cases h)⟩
    | panic s => exact absurd hc (hn s)
    | outOfFuel => exact ⟨(by intro s h; cases h), (by intro row h; cases h)⟩

theorem inCompare_ok (env : Env) (lhs rhs : List QR) : ResOk (inCompare env lhs rhs) := by
  unfold inCompare
  cases hl : isLiteral lhs with
  | some l =>
    cases hr : isLiteral rhs with
    | some r =>
      simp only
      split
      · rename_i c hs
        refine ⟨Outcome.NP.ok _, ?_⟩
        intro rs h; cases h
        apply listOk_single
        have := stringIn_listOk l r
        rw [hs] at this; exact this
      · have hn := containedIn_np env l r
        cases hc : containedIn env l r with
        | ok v => exact ⟨Outcome.NP.ok _, by intro rs h; cases h; exact listOk_single (containedIn_listOk env hc)⟩
        | err e => res_leaf
        | panic s => exact absurd hc (hn s)
        | outOfFuel => res_leaf
    | none =>
      simp only
      have hmm : ResOk (match mapMOutcome (fun r => containedIn env l r) (selectedVals rhs) with
          | .ok vs => .ok (.result ((unresolvedOf rhs).map (fun ur => VER.cmp (.rhsUnresolved ur l)) ++ vs))
          | .err e => .err e | .panic s => .panic s | .outOfFuel => .outOfFuel) := by
        have hn := mapMOutcome_np (f := fun r => containedIn env l r) (fun r => containedIn_np env l r) (selectedVals rhs)
        cases hm : mapMOutcome (fun r => containedIn env l r) (selectedVals rhs) with
        | ok vs =>
          refine ⟨Outcome.NP.ok _, ?_⟩
          intro rs h; cases h
          exact listOk_append (listOk_map_rhsU rhs l)
            (mapMOutcome_all (P := VER.ListOk) (fun a b hb => containedIn_listOk env hb) _ vs hm)
        | err e => res_leaf
        | panic s => exact absurd hm (hn s)
        | outOfFuel => res_leaf
      split
      · exact hmm
      · split
        · rename_i p list
          have hn := notContainedIn_np env (selectedVals rhs) list
          cases hd : notContainedIn env (selectedVals rhs) list with
          | ok diff =>
            simp only
            split
            · refine ⟨Outcome.NP.ok _, ?_⟩
              intro rs h; cases h
              exact listOk_append (listOk_map_rhsU rhs _) (listOk_single trivial)
            · refine ⟨Outcome.NP.ok _, ?_⟩
              intro rs h; cases h
              exact listOk_append (listOk_map_rhsU rhs _) (listOk_single trivial)
          | err e => res_leaf
          | panic s => exact absurd hd (hn s)
          | outOfFuel => res_leaf
        · exact hmm
  | none =>
    cases hr : isLiteral rhs with
    | some r =>
      simp only
      have heach := fun l => inEachLit_ok env r l
      have hn := mapMOutcome_np (fun l => (heach l).1) (selectedVals lhs)
      cases hm : mapMOutcome (inEachLit env r) (selectedVals lhs) with
      | ok vss =>
        refine ⟨Outcome.NP.ok _, ?_⟩
        intro rs h; cases h
        apply listOk_append (listOk_map_lhsU lhs)
        intro v hv
        obtain ⟨row, hrow, hvr⟩ := List.mem_flatten.mp hv
        exact mapMOutcome_all (P := fun (row : List VER) => ∀ v ∈ row, v.ListOk) (fun a b hb => (heach a).2 b hb) _ vss hm row hrow v hvr
      | err e => res_leaf
      | panic s => exact absurd hm (hn s)
      | outOfFuel => res_leaf
    | none =>
      simp only
      have hn := inDiff_np env (selectedVals rhs) (selectedVals lhs)
      cases hd : inDiff env (selectedVals rhs) (selectedVals lhs) with
      | ok diff =>
        simp only
        split
        · refine ⟨Outcome.NP.ok _, ?_⟩
          intro rs h; cases h
          exact listOk_append (listOk_pre2 lhs rhs _) (listOk_single trivial)
        · refine ⟨Outcome.NP.ok _, ?_⟩
          intro rs h; cases h
          exact listOk_append (listOk_pre2 lhs rhs _) (listOk_single trivial)
      | err e => res_leaf
      | panic s => exact absurd hd (hn s)
      | outOfFuel => res_leaf


theorem mvRow_ok (env : Env) (l r : PV) : RowOk (mvRow env l r) := by
  unfold mvRow
  have hn := matchValue_np (compareEq_np' env) l r
  cases hc : matchValue (compareEq env) l r with
  | ok v => exact ⟨Outcome.NP.ok _, by intro row h; cases h; exact listOk_single (matchValue_listOk hc)⟩
  | err e => exact ⟨Outcome.NP.err _, (by intro row h; cases h)⟩
  | panic s => exact absurd hc (hn s)
  | outOfFuel => exact ⟨(by intro s h; cases h), (by intro row h; cases h)⟩

theorem mapMv_ok (env : Env) (f : PV → Outcome VER) (hf : ∀ e, (f e).NP) (hl : ∀ e v, f e = .ok v → v.ListOk) (xs : List PV) :
    RowOk (mapMOutcome f xs) :=
  ⟨mapMOutcome_np hf xs, fun row h => mapMOutcome_all (P := VER.ListOk) hl xs row h⟩

theorem eqEachRhs_ok (env : Env) (l r : PV) : RowOk (eqEachRhs env l r) := by
  unfold eqEachRhs
  split
  · exact mvRow_ok env _ _
  · split
    · exact mapMv_ok env _ (fun e => matchValue_np (compareEq_np' env) _ e) (fun e v h => matchValue_listOk h) _
    · exact mvRow_ok env _ _

theorem eqEachLhs_ok (env : Env) (r l : PV) : RowOk (eqEachLhs env r l) := by
  unfold eqEachLhs
  split
  · split
    · split
      · exact mvRow_ok env _ _
      · exact ⟨Outcome.NP.ok _, by intro row h; cases h; intro v hv; cases hv⟩
    · exact mvRow_ok env _ _
  · split
    · exact mapMv_ok env _ (fun e => matchValue_np (compareEq_np' env) e _) (fun e v h => matchValue_listOk h) _
    · exact mvRow_ok env _ _

theorem rows_ok {f : PV → Outcome (List VER)} (hf : ∀ x, RowOk (f x)) (pre : List VER) (hpre : ∀ v ∈ pre, v.ListOk) (xs : List PV) :
    ResOk (match mapMOutcome f xs with
      | .ok vss => .ok (.result (pre ++ vss.flatten))
      | .err e => .err e | .panic s => .panic s | .outOfFuel => .outOfFuel) := by
  have hn := mapMOutcome_np (fun x => (hf x).1) xs
  cases hm : mapMOutcome f xs with
  | ok vss =>
    refine ⟨Outcome.NP.ok _, ?_⟩
    intro rs h; cases h
    apply listOk_append hpre
    intro v hv
    obtain ⟨row, hrow, hvr⟩ := List.mem_flatten.mp hv
    exact mapMOutcome_all (P := fun (row : List VER) => ∀ v ∈ row, v.ListOk) (fun a b hb => (hf a).2 b hb) _ vss hm row hrow v hvr
  | err e => res_leaf
  | panic s => exact absurd hm (hn s)
  | outOfFuel => res_leaf

theorem eqCompare_ok (env : Env) (lhs rhs : List QR) : ResOk (eqCompare env lhs rhs) := by
  unfold eqCompare
  cases hl : isLiteral lhs with
  | some l =>
    cases hr : isLiteral rhs with
    | some r =>
      simp only
      have hn := matchValue_np (compareEq_np' env) l r
      cases hc : matchValue (compareEq env) l r with
      | ok v => exact ⟨Outcome.NP.ok _, by intro rs h; cases h; exact listOk_single (matchValue_listOk hc)⟩
      | err e => res_leaf
      | panic s => exact absurd hc (hn s)
      | outOfFuel => res_leaf
    | none =>
      simp only
      exact rows_ok (fun r => eqEachRhs_ok env l r) _ (listOk_map_rhsU rhs l) _
  | none =>
    cases hr : isLiteral rhs with
    | some r =>
      simp only
      exact rows_ok (fun l => eqEachLhs_ok env r l) _ (listOk_map_lhsU lhs) _
    | none =>
      simp only
      have hn : ∀ a b, (notContainedIn env a b).NP := fun a b => notContainedIn_np env a b
      split
      · rename_i diff hd
        split
        · exact ⟨Outcome.NP.ok _, by intro rs h; cases h; exact listOk_append (listOk_pre2 lhs rhs _) (listOk_single trivial)⟩
        · exact ⟨Outcome.NP.ok _, by intro rs h; cases h; exact listOk_append (listOk_pre2 lhs rhs _) (listOk_single trivial)⟩
      · res_leaf
      · rename_i s hd
        split at hd
        · exact absurd hd (hn _ _ s)
        · exact absurd hd (hn _ _ s)
      · res_leaf

theorem opCompare_ok (env : Env) (op : CmpOp) (lhs rhs : List QR) : ResOk (opCompare env op lhs rhs) := by
  unfold opCompare
  split
  · exact ⟨Outcome.NP.ok _, by intro rs h; cases h⟩
  · split
    · exact eqCompare_ok env lhs rhs
    · exact inCompare_ok env lhs rhs
    · exact commonCompare_ok (cmpWith_np _) lhs rhs
    · exact commonCompare_ok (cmpWith_np _) lhs rhs
    · exact commonCompare_ok (cmpWith_np _) lhs rhs
    · exact commonCompare_ok (cmpWith_np _) lhs rhs
    · res_leaf

/-- the negation arm: on a result whose `ListIn` carries a list, neither `unreachable!()` fires -/
theorem flipVER_np (env : Env) (op : CmpOp) (n m : Nat) (v : VER) (hv : v.ListOk) : (flipVER env op n m v).NP := by
  intro s h
  unfold flipVER at h
  have hn : ∀ a b, (notContainedIn env a b).NP := fun a b => notContainedIn_np env a b
  split at h
  · split at h
    · unfold reverseDiff at h
      split at h
      · split at h <;> cases h
      · cases h
      · rename_i s' hd
        cases h
        split at hd
        · exact hn _ _ _ hd
        · exact hn _ _ _ hd
      · cases h
    · split at h
      · split at h
        · split at h <;> cases h
        · cases h
        · rename_i s' hd; cases h; exact hn _ _ _ hd
        · cases h
      · rename_i lhs _ hnl
        simp only [VER.ListOk] at hv
        cases lhs <;> simp_all [PV.isList]
    · cases h
  · split at h
    · cases h
    · split at h
      · cases h
      · rename_i lhs _ hnl
        simp only [VER.ListOk] at hv
        cases lhs <;> simp_all [PV.isList]
    · cases h
  · cases h

/-- **the comparison layer never panics**: `(CmpOperator, bool)::compare` on any two result sets, for every
    operator, polarity and environment, returns a result or an error — `PartialEq`'s regex `unwrap` (fix 6b03de4)
    and the two `unreachable!()` arms of the `ListIn` negation (operators.rs) are dead code. -/
theorem cmpCompare_np (env : Env) (op : CmpOp) (opNot : Bool) (lhs rhs : List QR) : (cmpCompare env op opNot lhs rhs).NP := by
  intro s h
  unfold cmpCompare at h
  obtain ⟨hn, hl⟩ := opCompare_ok env op lhs rhs
  cases ho : opCompare env op lhs rhs with
  | ok r =>
    rw [ho] at h
    cases r with
    | skip => cases h
    | result rs =>
      simp only at h
      split at h
      · have := mapMOutcome_np (f := flipVER env op lhs.length rhs.length) (l := rs)
        split at h
        · cases h
        · cases h
        · rename_i s' hm
          cases h
          -- every element satisfies ListOk, so no element's flip panics
          have key : ∀ (l : List VER), (∀ v ∈ l, v.ListOk) → (mapMOutcome (flipVER env op lhs.length rhs.length) l).NP := by
            intro l
            induction l with
            | nil => intro _; exact Outcome.NP.ok _
            | cons x xs ih =>
              intro hall s2 h2
              unfold mapMOutcome at h2
              have hx := flipVER_np env op lhs.length rhs.length x (hall x (by simp))
              cases hf : flipVER env op lhs.length rhs.length x with
              | ok y =>
                rw [hf] at h2; simp only at h2
                cases hr : mapMOutcome (flipVER env op lhs.length rhs.length) xs with
                | ok ys => rw [hr] at h2; cases h2
                | err e => rw [hr] at h2; cases h2
                | panic s3 => exact ih (fun v hv => hall v (List.mem_cons_of_mem _ hv)) s3 hr
                | outOfFuel => rw [hr] at h2; cases h2
              | err e => rw [hf] at h2; cases h2
              | panic s3 => exact hx s3 hf
              | outOfFuel => rw [hf] at h2; cases h2
          exact key rs (hl rs ho) _ hm
        · cases h
      · cases h
  | err e => rw [ho] at h; cases h
  | panic s' => exact hn s' ho
  | outOfFuel => rw [ho] at h; cases h


/-! ### the helpers of `real_binary_operation` and the unary checks -/

theorem notCompare_np {cmp : PV → PV → Outcome Bool} (hc : ∀ a b, (cmp a b).NP) (inv : Bool) (l r : PV) :
    (notCompare cmp inv l r).NP := by
  intro s h
  unfold notCompare at h
  cases hx : cmp l r with
  | ok b => rw [hx] at h; cases h
  | err e => rw [hx] at h; cases h
  | panic s' => exact hc l r s' hx
  | outOfFuel => rw [hx] at h; cases h

theorem inCmp_np (env : Env) (notIn : Bool) (l r : PV) : (inCmp env notIn l r).NP := by
  intro s h
  unfold inCmp at h
  have hn := fun rl => mapMOutcome_np (f := fun e => compareEq env l e) (fun e => compareEq_np' env l e) rl
  split at h
  · cases h
  · split at h
    · cases h
    · cases h
    · rename_i hh; cases h; exact hn _ _ hh
    · cases h
  · cases hx : compareEq env l r with
    | ok b => rw [hx] at h; cases h
    | err e => rw [hx] at h; cases h
    | panic s' => exact compareEq_np' env l r s' hx
    | outOfFuel => rw [hx] at h; cases h

theorem cmpOne_np {cmp : PV → PV → Outcome Bool} (hc : ∀ a b, (cmp a b).NP) (l r : PV) : (cmpOne cmp l r).NP := by
  intro s h
  unfold cmpOne at h
  split at h <;> first | (cases h; done) | (rename_i hh; cases h; exact hc l r _ hh)

theorem eachLhsCompare_np {cmp : PV → PV → Outcome Bool} (hc : ∀ a b, (cmp a b).NP) (lhs : PV) :
    ∀ qs, (eachLhsCompare cmp lhs qs).NP
  | [] => Outcome.NP.ok _
  | q :: rest => by
    intro s h
    unfold eachLhsCompare at h
    simp only at h
    have ih := eachLhsCompare_np hc lhs rest
    -- the head's result never panics
    have hhere : ∀ (here : Outcome (List RhsCmp)), here.NP →
        (match here with
          | .ok hs => (match eachLhsCompare cmp lhs rest with | .ok ts => (Outcome.ok (hs ++ ts) : Outcome (List RhsCmp)) | e => e)
          | e => e) = .panic s → False := by
      intro here hnp hh
      cases here with
      | ok hs =>
        simp only at hh
        cases hr : eachLhsCompare cmp lhs rest with
        | ok ts => rw [hr] at hh; cases hh
        | err e => rw [hr] at hh; cases hh
        | panic s' => exact ih s' hr
        | outOfFuel => rw [hr] at hh; cases hh
      | err e => cases hh
      | panic s' => exact hnp s' rfl
      | outOfFuel => cases hh
    refine hhere _ ?_ h
    intro s2 h2
    split at h2
    · cases h2
    all_goals (
      rename_i r
      cases hx : cmp lhs r with
      | ok b => rw [hx] at h2; cases h2
      | err e =>
        rw [hx] at h2
        cases e <;> simp only at h2 <;> try (cases h2; done)
        all_goals (
          split at h2
          · exact mapMOutcome_np (fun e => cmpOne_np hc e r) _ s2 h2
          · split at h2
            · rename_i single _
              have := cmpOne_np hc lhs single
              cases hy : cmpOne cmp lhs single with
              | ok c => rw [hy] at h2; cases h2
              | err e => rw [hy] at h2; cases h2
              | panic s' => exact this s' hy
              | outOfFuel => rw [hy] at h2; cases h2
            · cases h2)
      | panic s' => exact hc lhs r s' hx
      | outOfFuel => rw [hx] at h2; cases h2)

set_option hygiene false in
macro "rbo_case" f:term "," hf:term : tactic => `(tactic| (
  have hk := key $f $hf l
  cases hx : eachLhsCompare $f l rhs with
  | ok r => rw [hx] at h; simp only at h; (repeat' (split at h)) <;> cases h
  | err e => rw [hx] at h; cases h
  | panic s' => exact hk s' hx
  | outOfFuel => rw [hx] at h; cases h))

theorem realBinaryOne_np (env : Env) (op : CmpOp) (hop : op.isUnary = false) (opNot : Bool) (msg : Option Str) (rhs : List QR)
    (each : QR) : (realBinaryOne env op opNot msg rhs each).NP := by
  intro s h
  unfold realBinaryOne at h
  have key : ∀ (f : PV → PV → Outcome Bool), (∀ a b, (f a b).NP) → ∀ l, (eachLhsCompare f l rhs).NP :=
    fun f hf l => eachLhsCompare_np hf l rhs
  cases each with
  | unresolved u => cases h
  | literal l =>
    cases op <;> simp [CmpOp.isUnary] at hop <;> simp only at h
    · rbo_case (notCompare (compareEq env) opNot), (notCompare_np (compareEq_np' env) opNot)
    · rbo_case (inCmp env opNot), (inCmp_np env opNot)
    · rbo_case (notCompare compareGt opNot), (notCompare_np (cmpWith_np _) opNot)
    · rbo_case (notCompare compareLt opNot), (notCompare_np (cmpWith_np _) opNot)
    · rbo_case (notCompare compareLe opNot), (notCompare_np (cmpWith_np _) opNot)
    · rbo_case (notCompare compareGe opNot), (notCompare_np (cmpWith_np _) opNot)
  | resolved l =>
    cases op <;> simp [CmpOp.isUnary] at hop <;> simp only at h
    · rbo_case (notCompare (compareEq env) opNot), (notCompare_np (compareEq_np' env) opNot)
    · rbo_case (inCmp env opNot), (inCmp_np env opNot)
    · rbo_case (notCompare compareGt opNot), (notCompare_np (cmpWith_np _) opNot)
    · rbo_case (notCompare compareLt opNot), (notCompare_np (cmpWith_np _) opNot)
    · rbo_case (notCompare compareLe opNot), (notCompare_np (cmpWith_np _) opNot)
    · rbo_case (notCompare compareGe opNot), (notCompare_np (cmpWith_np _) opNot)

theorem elementEmpty_np (v : QR) : (elementEmpty v).NP := by
  intro s h; unfold elementEmpty at h
  (repeat' (split at h)) <;> cases h

/-- a unary operator's check never panics; `unreachable!()` is reached by binary operators only -/
theorem unaryCheck_np (op : CmpOp) (hop : op.isUnary = true) (opNot inverse : Bool) (v : QR) : (unaryCheck op opNot inverse v).NP := by
  intro s h
  unfold unaryCheck at h
  have hb : (unaryBase op v).NP := by
    intro s' h'
    unfold unaryBase at h'
    cases op <;> simp [CmpOp.isUnary] at hop <;> simp only at h'
    all_goals first
      | (cases h'; done)
      | exact elementEmpty_np v s' h'
      | (split at h' <;> cases h')
  cases hx : unaryBase op v with
  | ok b => rw [hx] at h; cases h
  | err e => rw [hx] at h; cases h
  | panic s' => exact hb s' hx
  | outOfFuel => rw [hx] at h; cases h


/-! ### built-in functions -/

theorem perValue_np' (site : PanicSite) (f : PV → Outcome (Option PV)) (hf : ∀ v, f v ≠ .panic site) :
    ∀ a, perValue f a ≠ .panic site := by
  intro a
  induction a with
  | nil => simp [perValue]
  | cons q qs ih =>
    unfold perValue
    cases q with
    | unresolved u =>
      simp only
      cases h : perValue f qs <;> simp_all
    | literal v =>
      simp only
      have := hf v
      cases h1 : f v <;> simp_all
      cases h : perValue f qs <;> simp_all
    | resolved v =>
      simp only
      have := hf v
      cases h1 : f v <;> simp_all
      cases h : perValue f qs <;> simp_all

theorem joinGo_np' (site : PanicSite) : ∀ a, joinFn.go a ≠ .panic site := by
  intro a
  induction a with
  | nil => simp [joinFn.go]
  | cons q qs ih =>
    unfold joinFn.go
    split
    · cases h : joinFn.go qs <;> simp_all
    · cases h : joinFn.go qs <;> simp_all
    · simp

theorem joinFn_np' (site : PanicSite) (a : List QR) (d : Str) : joinFn a d ≠ .panic site := by
  unfold joinFn
  have := joinGo_np' site a
  cases h : joinFn.go a <;> simp_all

theorem bind_np' {α β} (site : PanicSite) (x : Outcome α) (f : α → Outcome β)
    (hx : x ≠ .panic site) (hf : ∀ a, f a ≠ .panic site) : (x >>= f) ≠ .panic site := by
  cases x with
  | ok a => exact hf a
  | err e => intro h; cases h
  | panic s => intro h; apply hx; cases h; rfl
  | outOfFuel => intro h; cases h

/-- **which panics a built-in function call can raise**: indexing a missing argument list (`args[i]`, excluded by the
    arities the parser enforces, `C08_call_no_index_panic`) and the integer-to-float conversion when the `Env` float
    oracle has no entry for an integer's decimal form (never with the real `f64` parser) — nothing else, for every
    function, argument result sets and environment. -/
theorem callFunction_sites (env : Env) (name : FunctionName) (args : List (List QR)) (site : PanicSite)
    (h1 : site ≠ .functionArgIndex) (h2 : site ≠ .floatOfInt) : callFunction env name args ≠ .panic site := by
  have harg : ∀ i : Nat, (match args[i]? with | some a => Outcome.ok a | none => .panic .functionArgIndex : Outcome (List QR)) ≠ .panic site := by
    intro i; split
    · simp
    · intro h; cases h; exact h1 rfl
  have harg0 : ∀ i : Nat, (match args[i]? with
      | some (q :: _) => Outcome.ok q
      | some [] => .err .ParseError
      | none => .panic .functionArgIndex : Outcome QR) ≠ .panic site := by
    intro i; split
    · simp
    · simp
    · intro h; cases h; exact h1 rfl
  cases name <;> simp only [callFunction]
  case now => simp
  case count =>
    have := harg 0
    split
    · simp
    · simp
    · rename_i hh; intro h; cases h; exact this hh
    · simp
  all_goals (
    have hstr : ∀ i : Nat, (match (match args[i]? with
          | some (q :: _) => Outcome.ok q
          | some [] => .err .ParseError
          | none => .panic .functionArgIndex : Outcome QR) with
        | .ok (.resolved (.str _ s)) => Outcome.ok s
        | .ok (.literal (.str _ s)) => .ok s
        | .ok _ => .err .ParseError
        | .err e => .err e | .panic s => .panic s | .outOfFuel => .outOfFuel : Outcome Str) ≠ .panic site := by
      intro i
      have := harg0 i
      split <;> first | (rename_i hh; intro h; cases h; exact this hh) | (intro h; cases h)
    repeat (any_goals first
      | exact harg _
      | exact harg0 _
      | exact hstr _
      | exact joinFn_np' site _ _
      | (refine bind_np' site _ _ ?_ (fun _ => ?_))
      | (refine perValue_np' site _ (fun v => ?_) _)
      | (intro h; cases h; first | exact h1 rfl | exact h2 rfl)
      | (intro h; cases h; done)
      | split))


/-- **with the arity the parser enforces a built-in function call can only "panic" at the model-only float-oracle
    site**: no argument indexing out of bounds, whatever the argument result sets are. -/
theorem callFunction_arity (env : Env) (name : FunctionName) (args : List (List QR)) (site : PanicSite)
    (ha : args.length = name.arity) (h2 : site ≠ .floatOfInt) : callFunction env name args ≠ .panic site := by
  have harg : ∀ i : Nat, i < args.length → (match args[i]? with | some a => Outcome.ok a | none => .panic .functionArgIndex : Outcome (List QR)) ≠ .panic site := by
    intro i hi
    have : args[i]? = some args[i] := List.getElem?_eq_getElem hi
    rw [this]; simp
  have harg0 : ∀ i : Nat, i < args.length → (match args[i]? with
      | some (q :: _) => Outcome.ok q
      | some [] => .err .ParseError
      | none => .panic .functionArgIndex : Outcome QR) ≠ .panic site := by
    intro i hi
    have : args[i]? = some args[i] := List.getElem?_eq_getElem hi
    rw [this]; split <;> simp_all
  have hstr : ∀ i : Nat, i < args.length → (match (match args[i]? with
        | some (q :: _) => Outcome.ok q
        | some [] => .err .ParseError
        | none => .panic .functionArgIndex : Outcome QR) with
      | .ok (.resolved (.str _ s)) => Outcome.ok s
      | .ok (.literal (.str _ s)) => .ok s
      | .ok _ => .err .ParseError
      | .err e => .err e | .panic s => .panic s | .outOfFuel => .outOfFuel : Outcome Str) ≠ .panic site := by
    intro i hi
    have := harg0 i hi
    split <;> first | (rename_i hh; intro h; cases h; exact this hh) | (intro h; cases h)
  cases name <;> simp only [FunctionName.arity] at ha <;> simp only [callFunction]
  case now => simp
  case count =>
    have := harg 0 (by omega)
    split
    · simp
    · simp
    · rename_i hh; intro h; cases h; exact this hh
    · simp
  all_goals (
    repeat (any_goals first
      | exact harg _ (by omega)
      | exact harg0 _ (by omega)
      | exact hstr _ (by omega)
      | exact joinFn_np' site _ _
      | (refine bind_np' site _ _ ?_ (fun _ => ?_))
      | (refine perValue_np' site _ (fun v => ?_) _)
      | (intro h; cases h; exact h2 rfl)
      | (intro h; cases h; done)
      | split))

end Guard
