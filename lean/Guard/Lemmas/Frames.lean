import Guard.Lemmas.Monad
/-
  Guard.Lemmas.Frames — the scope stack discipline of the evaluator model.

  `FramesSim a b`: the scope stacks `a` and `b` have the same frames (same kinds, same roots, same
  static variable tables, same parameter bindings); only the memo tables and in-progress marks of
  block scopes may differ.  `Pres m`: the action `m`, when it succeeds, leaves a stack similar to
  the one it started from.  Combinator lemmas let `Pres` be proved structurally.
-/
set_option linter.unusedVariables false
namespace Guard

def Frame.sim : Frame → Frame → Prop
  | .block b, .block b' => b.root = b'.root ∧ b.lits = b'.lits ∧ b.queries = b'.queries ∧ b.funs = b'.funs
  | .value r, .value r' => r = r'
  | .params ps, .params ps' => ps = ps'
  | _, _ => False

def FramesSim : List Frame → List Frame → Prop
  | [], [] => True
  | f :: fs, g :: gs => f.sim g ∧ FramesSim fs gs
  | _, _ => False

theorem Frame.sim_refl (f : Frame) : f.sim f := by cases f <;> simp [Frame.sim]

theorem Frame.sim_trans {f g h : Frame} (a : f.sim g) (b : g.sim h) : f.sim h := by
  cases f <;> cases g <;> cases h <;> simp_all [Frame.sim]

theorem Frame.sim_symm {f g : Frame} (a : f.sim g) : g.sim f := by
  cases f <;> cases g <;> simp_all [Frame.sim]

theorem FramesSim.refl : ∀ (a : List Frame), FramesSim a a
  | [] => trivial
  | f :: fs => ⟨f.sim_refl, FramesSim.refl fs⟩

theorem FramesSim.trans : ∀ {a b c : List Frame}, FramesSim a b → FramesSim b c → FramesSim a c
  | [], [], [], _, _ => trivial
  | f :: fs, g :: gs, h :: hs, ⟨a1, a2⟩, ⟨b1, b2⟩ => ⟨Frame.sim_trans a1 b1, FramesSim.trans a2 b2⟩
  | [], [], _ :: _, _, h => by simp [FramesSim] at h
  | [], _ :: _, _, h, _ => by simp [FramesSim] at h
  | _ :: _, [], _, h, _ => by simp [FramesSim] at h
  | _ :: _, _ :: _, [], _, h => by simp [FramesSim] at h

theorem FramesSim.symm : ∀ {a b : List Frame}, FramesSim a b → FramesSim b a
  | [], [], _ => trivial
  | f :: fs, g :: gs, ⟨a1, a2⟩ => ⟨Frame.sim_symm a1, FramesSim.symm a2⟩
  | [], _ :: _, h => by simp [FramesSim] at h
  | _ :: _, [], h => by simp [FramesSim] at h

theorem FramesSim.length : ∀ {a b : List Frame}, FramesSim a b → a.length = b.length
  | [], [], _ => rfl
  | f :: fs, g :: gs, ⟨_, a2⟩ => by simp [FramesSim.length a2]
  | [], _ :: _, h => by simp [FramesSim] at h
  | _ :: _, [], h => by simp [FramesSim] at h

theorem FramesSim.tail : ∀ {a b : List Frame}, FramesSim a b → FramesSim a.tail b.tail
  | [], [], _ => trivial
  | f :: fs, g :: gs, ⟨_, a2⟩ => a2
  | [], _ :: _, h => by simp [FramesSim] at h
  | _ :: _, [], h => by simp [FramesSim] at h

theorem FramesSim.append : ∀ {a b c d : List Frame}, FramesSim a b → FramesSim c d → FramesSim (a ++ c) (b ++ d)
  | [], [], _, _, _, h => h
  | f :: fs, g :: gs, _, _, ⟨a1, a2⟩, h => ⟨a1, FramesSim.append a2 h⟩
  | [], _ :: _, _, _, h, _ => by simp [FramesSim] at h
  | _ :: _, [], _, _, h, _ => by simp [FramesSim] at h

/-- similar stacks have the same current root -/
theorem FramesSim.root : ∀ {a b : List Frame}, FramesSim a b → rootOfFrames a = rootOfFrames b
  | [], [], _ => rfl
  | f :: fs, g :: gs, ⟨a1, a2⟩ => by
    cases f <;> cases g <;> simp_all [Frame.sim, rootOfFrames]
    exact FramesSim.root a2
  | [], _ :: _, h => by simp [FramesSim] at h
  | _ :: _, [], h => by simp [FramesSim] at h

/-- the action preserves the scope stack -/
def Pres {α} (m : M α) : Prop := ∀ st a st', m st = .ok (a, st') → FramesSim st.frames st'.frames

theorem pres_pure {α} (a : α) : Pres (pure a : M α) := by
  intro st b st' h; obtain ⟨_, rfl⟩ := M.pure_ok h; exact FramesSim.refl _

theorem pres_bind {α β} {m : M α} {f : α → M β} (hm : Pres m) (hf : ∀ a, Pres (f a)) : Pres (m >>= f) := by
  intro st b st' h
  obtain ⟨a, st₁, h1, h2⟩ := M.bind_ok h
  exact FramesSim.trans (hm st a st₁ h1) (hf a st₁ b st' h2)

theorem pres_throwErr {α} (e : ErrKind) : Pres (throwErr e : M α) := by intro st a st' h; cases h
theorem pres_throwPanic {α} (s : PanicSite) : Pres (throwPanic s : M α) := by intro st a st' h; cases h
theorem pres_outOfFuel {α} : Pres (outOfFuel : M α) := by intro st a st' h; cases h

theorem pres_liftO {α} (o : Outcome α) : Pres (liftO o) := by
  intro st a st' h
  cases o <;> simp [liftO] at h
  obtain ⟨_, rfl⟩ := h; exact FramesSim.refl _

theorem pres_get : Pres (get : M St) := by
  intro st a st' h
  change (Outcome.ok (st, st)) = .ok (a, st') at h
  cases h; exact FramesSim.refl _

theorem pres_modify {f : St → St} (hf : ∀ st, FramesSim st.frames (f st).frames) : Pres (modify f : M Unit) := by
  intro st a st' h
  change (Outcome.ok ((), f st)) = .ok (a, st') at h
  cases h; exact hf st

theorem pres_emit (k : RecKind) : Pres (emit k) := pres_modify fun st => FramesSim.refl _

theorem pres_withRec {α} {mk : α → RecKind} {m : M α} (hm : Pres m) : Pres (withRec mk m) := by
  intro st a st' h
  unfold withRec at h
  split at h
  · rename_i x a' st'' hb
    have e : st' = { st'' with recs := Rec.node (mk a') st''.recs.reverse :: st.recs } := by cases h; rfl
    rw [e]
    exact hm { st with recs := [] } a' st'' hb
  all_goals cases h

theorem FramesSim.cons_inv {f : Frame} {fs l : List Frame} (h : FramesSim (f :: fs) l) :
    ∃ g gs, l = g :: gs ∧ f.sim g ∧ FramesSim fs gs := by
  cases l with
  | nil => simp [FramesSim] at h
  | cons g gs => exact ⟨g, gs, rfl, h.1, h.2⟩

theorem pres_pushPop {α} {f : Frame} {m : M α} (hm : Pres m) :
    Pres (do pushFrame f; let r ← m; popFrame; pure r) := by
  intro st a st' h
  obtain ⟨_, s1, h1, h2⟩ := M.bind_ok h
  obtain ⟨r, s2, h3, h4⟩ := M.bind_ok h2
  obtain ⟨_, s3, h5, h6⟩ := M.bind_ok h4
  obtain ⟨_, e3⟩ := M.pure_ok h6
  have e1 : s1 = { st with frames := f :: st.frames } := by
    change (Outcome.ok ((), { st with frames := f :: st.frames })) = .ok (_, s1) at h1
    cases h1; rfl
  have e2 : s3 = { s2 with frames := s2.frames.tail } := by
    change (Outcome.ok ((), { s2 with frames := s2.frames.tail })) = .ok (_, s3) at h5
    cases h5; rfl
  have := hm _ _ _ h3
  rw [e1] at this
  rw [e3, e2]
  exact (FramesSim.tail this)

theorem pres_withValueScope {α} {root : PV} {m : M α} (hm : Pres m) : Pres (withValueScope root m) :=
  pres_pushPop hm

theorem pres_mapM {α β} {f : α → M β} (hf : ∀ a, Pres (f a)) : ∀ (l : List α), Pres (l.mapM f)
  | [] => by rw [List.mapM_nil]; exact pres_pure _
  | a :: l => by
    rw [List.mapM_cons]
    exact pres_bind (hf a) fun b => pres_bind (pres_mapM hf l) fun bs => pres_pure _

theorem pres_filterMapM {α β} {f : α → M (Option β)} (hf : ∀ a, Pres (f a)) : ∀ (l : List α), Pres (l.filterMapM f)
  | [] => by rw [List.filterMapM_nil]; exact pres_pure _
  | a :: l => by
    rw [List.filterMapM_cons]
    refine pres_bind (hf a) fun b => ?_
    cases b with
    | none => exact pres_filterMapM hf l
    | some b => exact pres_bind (pres_filterMapM hf l) fun bs => pres_pure _

theorem pres_forIn {α β} {f : α → β → M (ForInStep β)} (hf : ∀ a b, Pres (f a b)) :
    ∀ (l : List α) (b : β), Pres (forIn l b f)
  | [], b => by rw [List.forIn_nil]; exact pres_pure _
  | a :: l, b => by
    rw [List.forIn_cons]
    refine pres_bind (hf a b) fun r => ?_
    cases r with
    | done b => exact pres_pure _
    | yield b => exact pres_forIn hf l b

theorem pres_currentRoot : Pres currentRoot := by
  intro st a st' h
  unfold currentRoot at h
  split at h
  · cases h; exact FramesSim.refl _
  · cases h

/-- push a frame, run, pop, continue -/
theorem pres_pushPopK {α β} {f : Frame} {m : M α} {k : α → M β} (hm : Pres m) (hk : ∀ a, Pres (k a)) :
    Pres (do pushFrame f; let r ← m; popFrame; k r) := by
  have h1 : Pres (do pushFrame f; let r ← m; popFrame; pure r) := pres_pushPop hm
  have e : (do pushFrame f; let r ← m; popFrame; k r) = ((do pushFrame f; let r ← m; popFrame; pure r) >>= k) := by
    simp only [bind_assoc, pure_bind]
  rw [e]
  exact pres_bind h1 hk

theorem FramesSim.reverse_head {l : List Frame} {f g : Frame} {inner : List Frame}
    (h : l.reverse = f :: inner) (hs : f.sim g) : FramesSim l (g :: inner).reverse := by
  have : l = inner.reverse ++ [f] := by
    have := congrArg List.reverse h
    simpa using this
  rw [this, List.reverse_cons]
  exact FramesSim.append (FramesSim.refl _) ⟨hs, trivial⟩

theorem pres_addCaptureKey (name : Str) (key : PV) : Pres (addCaptureKey name key) := by
  apply pres_modify
  intro st
  split
  · rename_i b innerRev hrev
    exact FramesSim.reverse_head hrev (by simp [Frame.sim])
  · exact FramesSim.refl _

end Guard
