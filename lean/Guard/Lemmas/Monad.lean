import Guard.Model.Eval
/-
  Guard.Lemmas.Monad — `Outcome` is a lawful monad, so `M = StateT St Outcome` is, and `List.mapM`
  in `M` can be reasoned about element by element.
-/
namespace Guard

instance : LawfulMonad Outcome := LawfulMonad.mk'
  (id_map := by intro _ x; cases x <;> rfl)
  (pure_bind := by intros; rfl)
  (bind_assoc := by intro _ _ _ x f g; cases x <;> rfl)

/-- `x >>= f` in `M` succeeded: so did `x`, and `f` on its result -/
theorem M.bind_ok {α β} {x : M α} {f : α → M β} {st st' : St} {b : β}
    (h : (x >>= f) st = .ok (b, st')) : ∃ a st₁, x st = .ok (a, st₁) ∧ f a st₁ = .ok (b, st') := by
  simp only [bind, StateT.bind] at h
  cases hx : x st with
  | ok p => obtain ⟨a, st₁⟩ := p; rw [hx] at h; exact ⟨a, st₁, rfl, h⟩
  | err e => rw [hx] at h; cases h
  | panic s => rw [hx] at h; cases h
  | outOfFuel => rw [hx] at h; cases h

theorem M.pure_ok {α} {a b : α} {st st' : St} (h : (pure a : M α) st = .ok (b, st')) : b = a ∧ st' = st := by
  simp only [pure, StateT.pure] at h
  cases h; exact ⟨rfl, rfl⟩

/-- a property of the result lists of every element run carries over to the flattened `mapM` -/
theorem M.mapM_flatten_all {α β} (P : β → Prop) (f : α → M (List β)) :
    ∀ (l : List α), (∀ a ∈ l, ∀ st res st', f a st = .ok (res, st') → ∀ r ∈ res, P r) →
      ∀ st rows st', l.mapM f st = .ok (rows, st') → ∀ r ∈ rows.flatten, P r
  | [], _, st, rows, st', h => by
    simp only [List.mapM_nil] at h
    obtain ⟨rfl, _⟩ := M.pure_ok h
    simp
  | a :: l, hf, st, rows, st', h => by
    rw [List.mapM_cons] at h
    obtain ⟨b, st₁, h1, h2⟩ := M.bind_ok h
    obtain ⟨bs, st₂, h3, h4⟩ := M.bind_ok h2
    obtain ⟨rfl, _⟩ := M.pure_ok h4
    intro r hr
    simp only [List.flatten_cons, List.mem_append] at hr
    rcases hr with hr | hr
    · exact hf a (by simp) st b st₁ h1 r hr
    · exact M.mapM_flatten_all P f l (fun a ha => hf a (List.mem_cons_of_mem _ ha)) st₁ bs st₂ h3 r hr

end Guard
