import Guard.Model.Basic
import Guard.Model.Value
import Guard.Model.Compare
