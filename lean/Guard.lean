import Guard.Model.Basic
import Guard.Model.Value
import Guard.Model.Compare
import Guard.Model.Ast
import Guard.Model.Ops
import Guard.Model.Functions
import Guard.Model.Eval
