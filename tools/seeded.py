#!/usr/bin/env python3
"""Seeded-change evaluation: apply a stored patch to /repo's WORKING TREE (never committed), run the
quick check of its property (and optionally others), record the outcome, and restore /repo.

  seeded.py import <ID> <n> <dir>      copy patch.diff / demo.* / notes.md from <dir> into seeded/<ID>/<n>/
  seeded.py run <ID> <n> [other ids]   apply, check, restore; updates seeded/<ID>/<n>/meta.json
  seeded.py table                      markdown table of all recorded outcomes
"""
import json, os, shutil, subprocess, sys, time

VERIF = os.path.dirname(os.path.dirname(os.path.abspath(__file__)))
REPO = "/repo"


def sh(cmd, **kw):
    return subprocess.run(cmd, shell=True, stdout=subprocess.PIPE, stderr=subprocess.STDOUT, text=True, **kw)


def clean():
    st = sh("git -C %s status --porcelain" % REPO).stdout.strip()
    return st == ""


def run(pid, n, others):
    d = os.path.join(VERIF, "seeded", pid, str(n))
    patch = os.path.join(d, "patch.diff")
    meta_p = os.path.join(d, "meta.json")
    meta = json.load(open(meta_p)) if os.path.exists(meta_p) else {"property": pid, "n": int(n)}
    if not clean():
        print("refusing: /repo working tree is not clean")
        sys.exit(2)
    r = sh("git -C %s apply --check %s && git -C %s apply %s" % (REPO, patch, REPO, patch))
    if r.returncode != 0:
        print("patch does not apply:", r.stdout)
        meta["applies"] = False
        json.dump(meta, open(meta_p, "w"), indent=1)
        sys.exit(2)
    meta["applies"] = True
    meta.setdefault("checks", {})
    try:
        for p in [pid] + list(others):
            t0 = time.time()
            c = sh("cd %s && python3 tools/check.py %s --tier quick" % (VERIF, p))
            lines = [l for l in c.stdout.split("\n") if l.startswith(("VIOLATION", "OK ", "KNOWN-FINDING"))]
            viol = [l for l in lines if l.startswith("VIOLATION")]
            what = []
            for l in viol[:4]:
                rp = l.split("replay=")[1].split()[0]
                try:
                    j = json.load(open(os.path.join(VERIF, rp)))
                    what.append((j.get("class") or j.get("kind") or "?") + ": " + str(j.get("what") or j.get("broken") or "")[:200])
                except Exception:
                    what.append("?")
            meta["checks"][p] = {"exit": c.returncode, "violations": len(viol),
                                 "no_failing_input_found": sum(1 for l in viol if l.endswith("no-failing-input-found")),
                                 "first": what, "wall_s": round(time.time() - t0)}
            print(p, "exit", c.returncode, "violations", len(viol), what[:2])
    finally:
        sh("git -C %s checkout -- ." % REPO)
        assert clean(), "could not restore /repo"
    meta["caught_by_own_check"] = meta["checks"][pid]["exit"] == 1
    json.dump(meta, open(meta_p, "w"), indent=1)


def imp(pid, n, src):
    d = os.path.join(VERIF, "seeded", pid, str(n))
    os.makedirs(d, exist_ok=True)
    for f in ("patch.diff", "demo.sh", "demo.txt", "notes.md"):
        if os.path.exists(os.path.join(src, f)):
            shutil.copy(os.path.join(src, f), os.path.join(d, f))
    meta_p = os.path.join(d, "meta.json")
    if not os.path.exists(meta_p):
        json.dump({"property": pid, "n": int(n), "origin": "fresh sub-agent given only the property text and a scratch worktree"},
                  open(meta_p, "w"), indent=1)


def table():
    root = os.path.join(VERIF, "seeded")
    print("| seeded change | files | caught by its property's check | how | other checks that fire |")
    print("|---|---|---|---|---|")
    for pid in sorted(os.listdir(root)):
        for n in sorted(os.listdir(os.path.join(root, pid))):
            mp = os.path.join(root, pid, n, "meta.json")
            if not os.path.exists(mp):
                continue
            m = json.load(open(mp))
            patch = open(os.path.join(root, pid, n, "patch.diff")).read()
            files = sorted({l[6:] for l in patch.split("\n") if l.startswith("+++ b/")})
            own = (m.get("checks") or {}).get(pid, {})
            others = [k for k, v in (m.get("checks") or {}).items() if k != pid and v.get("exit") == 1]
            how = (own.get("first") or [""])[0][:140].replace("|", "/")
            print("| %s/%s %s | %s | %s | %s | %s |" % (pid, n, m.get("summary", ""), ", ".join(f.replace("guard/src/", "") for f in files),
                                                 "yes" if m.get("caught_by_own_check") else ("NO" if own else "not run"), how, " ".join(others)))


if __name__ == "__main__":
    cmd = sys.argv[1]
    if cmd == "run":
        run(sys.argv[2], sys.argv[3], sys.argv[4:])
    elif cmd == "import":
        imp(sys.argv[2], sys.argv[3], sys.argv[4])
    elif cmd == "table":
        table()
