"""Serialise a JSON-like document as JSON, flow YAML or block YAML with RANDOMISED layout
(indentation, line breaks, comments, quoting) so that source positions vary (C10), and compute
the position oracle: pointer -> (line, col) of every scalar, 0-based, columns in code points.

The oracle does not come from the emitter: it is read off PyYAML's composer marks (an independent
scanner) and cross-checked against the text (the scalar's spelling must start at the mark)."""
import json, re
import yaml

PLAIN_OK = re.compile(r"\A[A-Za-z_][A-Za-z0-9_\-]*\Z")
RESERVED = {"true", "false", "null", "yes", "no", "on", "off", "y", "n", "~"}


def scalar_text(rng, v, style, key=False):
    if v is None:
        return "null"
    if v is True:
        return "true"
    if v is False:
        return "false"
    if isinstance(v, int):
        return str(v)
    if isinstance(v, float):
        return repr(v)
    s = v
    if style == "json":
        return json.dumps(s, ensure_ascii=False)
    opts = ["dq"]
    if PLAIN_OK.match(s) and s.lower() not in RESERVED:
        opts += ["plain", "plain"]
    if s and "\n" not in s and "\\" not in s and all(ord(c) >= 32 for c in s):
        opts.append("sq")
    k = rng.choice(opts)
    if k == "plain":
        return s
    if k == "sq":
        return "'" + s.replace("'", "''") + "'"
    return json.dumps(s, ensure_ascii=False)


def emit_json(rng, v, ind=0):
    sp = lambda: rng.choice(["", "", " ", "  "])
    step = rng.choice([1, 2, 4, 3])
    nl = rng.random() < 0.6

    def go(v, ind):
        if isinstance(v, dict):
            if not v:
                return "{" + sp() + "}"
            items = []
            for k, x in v.items():
                items.append(json.dumps(k, ensure_ascii=False) + sp() + ":" + sp() + go(x, ind + step))
            if nl and rng.random() < 0.8:
                pad = "\n" + " " * (ind + step)
                return "{" + pad + ("," + pad).join(items) + "\n" + " " * ind + "}"
            return "{" + sp() + ("," + rng.choice([" ", "", "  "])).join(items) + sp() + "}"
        if isinstance(v, list):
            if not v:
                return "[" + sp() + "]"
            items = [go(x, ind + step) for x in v]
            if nl and rng.random() < 0.5:
                pad = "\n" + " " * (ind + step)
                return "[" + pad + ("," + pad).join(items) + "\n" + " " * ind + "]"
            return "[" + sp() + ("," + rng.choice([" ", "", "  "])).join(items) + sp() + "]"
        return scalar_text(rng, v, "json")
    return rng.choice(["", "", "\n", "  "]) + go(v, ind) + rng.choice(["", "\n"])


def emit_flow(rng, v):
    sp = lambda: rng.choice(["", " ", "  "])

    def brk(ind):
        return rng.choice(["", "", "", "\n" + " " * (ind + rng.choice([1, 2, 5])), " # note\n" + " " * (ind + 2)])

    def go(v, ind):
        if isinstance(v, dict):
            if not v:
                return "{}"
            items = [scalar_text(rng, k, "yaml", key=True) + ": " + sp() + go(x, ind + 2) for k, x in v.items()]
            return "{" + sp() + ("," + " " + brk(ind)).join(items) + sp() + "}"
        if isinstance(v, list):
            if not v:
                return "[]"
            return "[" + sp() + ("," + " " + brk(ind)).join(go(x, ind + 2) for x in v) + sp() + "]"
        return scalar_text(rng, v, "yaml")
    head = rng.choice(["", "# generated\n", "---\n", "\n\n"])
    return head + go(v, 0) + "\n"


def emit_block(rng, v):
    out = []
    step0 = rng.choice([1, 2, 2, 3, 4])

    after_block = [False]

    def noise(ind):
        if after_block[0]:
            after_block[0] = False      # a comment indented like the text of a block scalar would be part of it
            return
        r = rng.random()
        if r < 0.08:
            out.append(" " * rng.choice([0, ind, ind + 3]) + "# " + rng.choice(["comment", "a: b", "- x", "é"]))
        elif r < 0.14:
            out.append("")

    def tail():
        return rng.choice(["", "", "", " # why", "   #x"])

    def go(v, ind):
        step = rng.choice([step0, step0, 2, 5])
        if isinstance(v, dict):
            for k, x in v.items():
                noise(ind)
                kt = scalar_text(rng, k, "yaml", key=True)
                if isinstance(x, dict) and x:
                    out.append(" " * ind + kt + ":" + tail())
                    go(x, ind + step)
                elif isinstance(x, list) and x:
                    out.append(" " * ind + kt + ":" + tail())
                    go(x, ind + rng.choice([0, step]))
                elif isinstance(x, (dict, list)):
                    out.append(" " * ind + kt + ":" + " " * rng.choice([1, 2]) + ("{}" if isinstance(x, dict) else "[]") + tail())
                elif (isinstance(x, str) and "\n" in x and x.strip("\n") and not x.startswith("\n")
                      and all(l and not l[0].isspace() and all(ord(c) >= 32 for c in l) for l in x.rstrip("\n").split("\n"))
                      and not x.endswith("\n\n") and rng.random() < 0.8):
                    # a multi-line string as a literal block scalar (`|` keeps the final line break, `|-` has none)
                    out.append(" " * ind + kt + ":" + " " * rng.choice([1, 2]) + ("|" if x.endswith("\n") else "|-") + tail().replace("why", "c"))
                    for l in x.rstrip("\n").split("\n"):
                        out.append(" " * (ind + step) + l)
                    after_block[0] = True
                else:
                    out.append(" " * ind + kt + ":" + " " * rng.choice([1, 1, 2, 4]) + scalar_text(rng, x, "yaml") + tail())
        else:
            for x in v:
                noise(ind)
                if isinstance(x, (dict, list)) and x:
                    if rng.random() < 0.35:
                        # flow collection as a block-sequence entry
                        out.append(" " * ind + "-" + " " * rng.choice([1, 2]) + json_like_flow(rng, x))
                    else:
                        out.append(" " * ind + "-" + tail())
                        go(x, ind + step)
                elif isinstance(x, (dict, list)):
                    out.append(" " * ind + "- " + ("{}" if isinstance(x, dict) else "[]"))
                else:
                    out.append(" " * ind + "-" + " " * rng.choice([1, 1, 3]) + scalar_text(rng, x, "yaml") + tail())
    if rng.random() < 0.3:
        out.append(rng.choice(["---", "# head", ""]))
    if not v:
        out.append("{}" if isinstance(v, dict) else "[]")
    else:
        go(v, 0)
    return "\n".join(out) + "\n"


def json_like_flow(rng, v):
    if isinstance(v, dict):
        return "{" + ", ".join(scalar_text(rng, k, "yaml", key=True) + ": " + json_like_flow(rng, x) for k, x in v.items()) + "}"
    if isinstance(v, list):
        return "[" + ", ".join(json_like_flow(rng, x) for x in v) + "]"
    return scalar_text(rng, v, "yaml")


def emit(rng, doc, style):
    if style == "json":
        return emit_json(rng, doc)
    if style == "flow":
        return emit_flow(rng, doc)
    return emit_block(rng, doc)


def positions(text):
    """pointer -> (line, col, kind) from PyYAML's composer; kind in scalar/map/list"""
    node = yaml.compose(text, Loader=yaml.SafeLoader)
    out = {}

    def go(n, ptr):
        if isinstance(n, yaml.ScalarNode):
            out[ptr] = (n.start_mark.line, n.start_mark.column, "scalar")
        elif isinstance(n, yaml.MappingNode):
            out[ptr] = (n.start_mark.line, n.start_mark.column, "map")
            for k, v in n.value:
                go(v, ptr + "/" + str(k.value))
        elif isinstance(n, yaml.SequenceNode):
            out[ptr] = (n.start_mark.line, n.start_mark.column, "list")
            for i, v in enumerate(n.value):
                go(v, ptr + "/" + str(i))
    go(node, "")
    return out


def resolve(doc, ptr):
    """JSON-pointer-like resolution; raises KeyError / IndexError / ValueError when it does not resolve"""
    cur = doc
    if ptr == "":
        return cur
    if not ptr.startswith("/"):
        raise ValueError("pointer does not start with /")
    for seg in ptr[1:].split("/"):
        if isinstance(cur, dict):
            cur = cur[seg]
        elif isinstance(cur, list):
            if not re.fullmatch(r"0|[1-9][0-9]*", seg):
                raise ValueError("non-numeric index %r" % seg)
            cur = cur[int(seg)]
        else:
            raise KeyError(seg)
    return cur


def self_check(rng, doc, style):
    """emit + verify that the text means `doc` and that each scalar mark points at its spelling"""
    text = emit(rng, doc, style)
    pos = positions(text)
    lines = text.split("\n")
    for ptr, (l, c, kind) in pos.items():
        if kind != "scalar":
            continue
        v = resolve(doc, ptr)
        rest = lines[l][c:]
        ok = rest.startswith(('"', "'", "|", ">")) if isinstance(v, str) and not rest.startswith(v[:1] or '"') else True
        if isinstance(v, bool):
            ok = rest.startswith("true" if v else "false")
        elif v is None:
            ok = rest.startswith("null")
        elif isinstance(v, (int, float)):
            ok = rest.startswith(repr(v)[:3])
        if not ok:
            raise AssertionError("mark of %s does not point at its spelling: %r" % (ptr, rest[:20]))
    return text, pos
