#!/usr/bin/env python3
"""Orchestrator: `check.py <PROP> --tier quick|thorough [--replay file]`, `check.py --setup`.

Per run (DESIGN §2.7):
  1. regenerate Guard/Gen/*.lean from /repo (tools/extract.py)
  2. prove: lake build the property's theorem modules + the model driver; audit (no sorry/axiom/
     native_decide, `#print axioms` of every property theorem ⊆ {propext, Classical.choice, Quot.sound})
  3. build the harness (real crate from /repo's working tree, hooks on) and, where needed, the CLI
  4. correspondence: implementation vs compiled model on the property's streams
  5. judge: the property's predicate on the implementation's own observations
  6. decide; known findings; evidence
"""
import argparse, json, os, re, sys, time, traceback

sys.path.insert(0, os.path.dirname(os.path.abspath(__file__)))
import vlib
from vlib import VERIF, log

ALLOWED_AXIOMS = {"propext", "Classical.choice", "Quot.sound"}
LEAN = os.path.join(VERIF, "lean")


def theorem_names(module):
    path = os.path.join(LEAN, *module.split(".")) + ".lean"
    src = open(path).read()
    ns = re.search(r"^namespace (\S+)", src, re.M)
    prefix = ns.group(1) + "." if ns else ""
    return [prefix + m for m in re.findall(r"^theorem (\S+)", src, re.M)]


def audit_sources():
    """forbidden constructs outside comments in any Lean source of the project"""
    bad = []
    pat = re.compile(r"\bsorry\b|\badmit\b|^axiom |native_decide|bv_decide|implemented_by|\bunsafe |maxHeartbeats 0", re.M)
    for root, _, files in os.walk(os.path.join(LEAN, "Guard")):
        for f in files:
            if not f.endswith(".lean"):
                continue
            src = open(os.path.join(root, f)).read()
            src = re.sub(r"/-.*?-/", "", src, flags=re.S)
            src = re.sub(r"--.*", "", src)
            for m in pat.finditer(src):
                bad.append((os.path.join(root, f), m.group(0)))
    return bad


def prove(prop, modules, recheck=False):
    """returns (obligations, discharged, failures[list of str], axioms{thm: [..]}, log); with `recheck` the compiled
    property modules are re-checked by `leanchecker` (the toolchain's independent checker of .olean files)"""
    from extract import generate
    gen_report = generate()
    ok, out = vlib.build_lean(modules + ["guard_model"])
    thms = []
    for m in modules:
        try:
            thms += theorem_names(m)
        except FileNotFoundError:
            pass
    failures = []
    if gen_report.get("missing"):
        failures += ["generated obligation cannot be produced: " + x for x in gen_report["missing"]]
    if not ok:
        errs = re.findall(r"error: (.*?\.lean:\d+:\d+: .*)", out)
        failures += ["lake build failed: " + (errs[0] if errs else out[-400:])]
    bad = audit_sources()
    if bad:
        failures += ["forbidden construct %s in %s" % (b[1], os.path.relpath(b[0], VERIF)) for b in bad]
    axioms = {}
    discharged = 0
    if ok:
        audit = os.path.join(LEAN, "Guard", "Audit_%s.lean" % prop)
        with open(audit, "w") as f:
            for m in modules:
                f.write("import %s\n" % m)
            for t in thms:
                f.write("#print axioms %s\n" % t)
        rc, aout = vlib.run(["lake", "env", "lean", audit], cwd=LEAN)
        os.remove(audit)
        for t in thms:
            m = re.search(r"'%s' depends on axioms: \[(.*?)\]" % re.escape(t), aout, re.S)
            if m:
                ax = [a.strip() for a in m.group(1).replace("\n", " ").split(",") if a.strip()]
            elif re.search(r"'%s' does not depend on any axioms" % re.escape(t), aout):
                ax = []
            else:
                failures.append("theorem %s not found by the axiom audit" % t)
                continue
            axioms[t] = ax
            extra = [a for a in ax if a not in ALLOWED_AXIOMS]
            if extra:
                failures.append("theorem %s depends on %s" % (t, extra))
            else:
                discharged += 1
    if ok and recheck:
        for m in modules:
            rc, lout = vlib.run(["lake", "env", "leanchecker", m], cwd=LEAN)
            if rc != 0:
                failures.append("leanchecker rejects %s: %s" % (m, lout[-300:]))
    return len(thms), discharged, failures, axioms, out


def load_known():
    p = os.path.join(VERIF, "known_findings.json")
    if os.path.exists(p):
        return json.load(open(p))
    return {"findings": [], "fixed": []}


def main():
    ap = argparse.ArgumentParser()
    ap.add_argument("prop", nargs="?")
    ap.add_argument("--tier", default=os.environ.get("VERIF_TIER", "quick"))
    ap.add_argument("--replay")
    ap.add_argument("--setup", action="store_true")
    args = ap.parse_args()
    seed = int(os.environ.get("VERIF_SEED", "1"))

    if args.setup:
        from extract import generate
        generate()
        ok1, o1 = vlib.build_lean(["Guard", "guard_model"] + all_property_modules())
        ok2, o2 = vlib.build_harness()
        ok3, o3 = vlib.build_cli()
        if not (ok1 and ok2 and ok3):
            print((o1 if not ok1 else "") + (o2 if not ok2 else "") + (o3 if not ok3 else ""))
            sys.exit(2)
        print("setup ok")
        return

    import props
    prop = args.prop
    spec = props.REGISTRY[prop]
    if args.replay:
        return replay_file(prop, args.replay)
    t0 = time.time()
    tier = args.tier
    import shutil
    shutil.rmtree(os.path.join(VERIF, "replays", prop), ignore_errors=True)     # replays of earlier runs are stale
    # 1+2 prove
    nobl, ndis, pf, axioms, plog = prove(prop, spec["modules"], recheck=(args.tier == "thorough"))
    # 3 build
    okh, hout = vlib.build_harness()
    if not okh:
        # the tree does not build: nothing can be claimed
        replay = vlib.write_replay(prop, {"kind": "build-failure", "log": hout[-3000:]})
        finish(prop, tier, seed, t0, nobl, ndis, pf, axioms, None, [
            {"what": "implementation does not build", "replay": replay, "found_input": False}])
        return
    if spec.get("needs_cli"):
        okc, cout = vlib.build_cli()
        if not okc:
            replay = vlib.write_replay(prop, {"kind": "build-failure", "log": cout[-3000:]})
            finish(prop, tier, seed, t0, nobl, ndis, pf, axioms, None, [
                {"what": "cfn-guard binary does not build", "replay": replay, "found_input": False}])
            return
    # 4+5 streams
    ctx = props.Ctx(prop, tier, seed, replay=args.replay)
    try:
        result = spec["run"](ctx)
    finally:
        ctx.close()
    violations = []
    known = load_known()
    seen_known, per_class = set(), {}
    for jf in sorted(result.judge_failures, key=lambda j: len(j.get("rules", "")) + len(j.get("data", ""))):
        kf = props.match_known(prop, jf, known)
        if kf:
            if kf["id"] not in seen_known:
                seen_known.add(kf["id"])
                print("KNOWN-FINDING: property=%s %s" % (prop, kf["what"]))
            continue
        cls = jf.get("class", "?")
        per_class[cls] = per_class.get(cls, 0) + 1
        if per_class[cls] > 3:
            continue          # the smallest three inputs per failure class are enough as replays
        replay = vlib.write_replay(prop, jf)
        violations.append({"what": jf.get("what", "judge failure"), "replay": replay, "found_input": True})
    broken = list(pf)
    if result.disagreements:
        broken.append("correspondence: %d disagreement(s), first: %s" % (
            len(result.disagreements), result.disagreements[0].get("what", "")))
    if broken and not violations:
        # proof obligation or correspondence broke and the (widened) judge found no failing input
        replay = vlib.write_replay(prop, {
            "kind": "broken-obligation-or-correspondence", "broken": broken,
            "smallest_disagreement": result.disagreements[0] if result.disagreements else None})
        violations.append({"what": broken[0], "replay": replay, "found_input": False})
    finish(prop, tier, seed, t0, nobl, ndis, pf, axioms, result, violations)


def replay_file(prop, path):
    """re-run the input of a replay file against the CURRENT tree and show what the implementation (and,
    for evaluator cases, the model) does with it; informational: exit 0 unless the build fails"""
    import props
    j = json.load(open(path if os.path.isabs(path) else os.path.join(VERIF, path)))
    okh, hout = vlib.build_harness()
    okc, cout = vlib.build_cli()
    okl, lout = vlib.build_lean(["guard_model"])
    if not (okh and okc and okl):
        print("build failed")
        sys.exit(2)
    print("replay of %s for %s: %s" % (path, prop, j.get("what", j.get("kind", ""))))
    if j.get("argv"):
        files = dict(j.get("files") or {})
        for k, h in (j.get("files_hex") or {}).items():
            files[k] = bytes.fromhex(h)
        stdin = bytes.fromhex(j["stdin_hex"]) if j.get("stdin_hex") else b""
        o = vlib.run_cli(j["argv"], files=files, stdin=stdin, timeout=60)
        print("real binary: argv=%s\nexit=%s\n--- stdout\n%s\n--- stderr\n%s" % (j["argv"], o["code"], o["stdout"][:4000], o["stderr"][:2000]))
    if isinstance(j.get("rules"), str) and isinstance(j.get("data"), str) and j.get("data", "").strip():
        ctx = props.Ctx(prop, "quick", 1)
        try:
            r = vlib.correspond([{"rules": j["rules"], "data": j["data"]}], ctx.hp, ctx.mp, detail=True)[0]
        finally:
            ctx.close()
        print("library run_checks: verdict=%s\nimplementation: %s\nmodel: %s" % (
            r["verdict"], json.dumps({k: v for k, v in (r.get("impl") or {}).items() if k != "tree"})[:1500],
            json.dumps({k: v for k, v in (r.get("model") or {}).items() if k != "tree"})[:1500]))
    for k in ("broken", "smallest_disagreement"):
        if j.get(k):
            print("%s: %s" % (k, json.dumps(j[k])[:3000]))


def finish(prop, tier, seed, t0, nobl, ndis, pf, axioms, result, violations):
    cov = {
        "obligations": max(nobl, 1),
        "discharged": ndis,
        "checker_cmd": "cd lean && lake build <property modules> guard_model && lake env lean Guard/Audit_%s.lean  (#print axioms)" % prop,
        "trusted_base": [
            "Lean 4.33.0 kernel; axioms allowed: propext, Classical.choice, Quot.sound",
            "Lean compiler for the driver guard_model only (no theorem depends on compiled code)",
            "tools/extract.py (tokenizer-level translator for generated tables and site lists)",
            "correspondence harness: generators, canonicalisation, diff (tools/*.py, harness/)",
            "Env oracles (fancy_regex, cruet, f64 parse/print, case mapping, urlencoding, chrono) are parameters",
        ],
        "proof_failures": pf,
        "axioms": axioms,
    }
    if result is not None:
        cov.update(result.coverage())
    ev = {"property_id": prop, "tier": tier if tier in ("quick", "thorough") else "quick", "seed": seed,
          "level": "proof", "coverage": cov,
          "assumptions": ["the model mirrors the code only as far as the correspondence streams exercise it",
                          "third-party crates behave as their Env tables say on strings outside the batch"],
          "wall_s": round(time.time() - t0, 1), "violations": len(violations)}
    vlib.write_evidence(prop, ev)
    for v in violations:
        tail = "" if v["found_input"] else " no-failing-input-found"
        print("VIOLATION property=%s replay=%s%s" % (prop, v["replay"], tail))
    if violations:
        sys.exit(1)
    print("OK property=%s obligations=%d discharged=%d %s wall=%.0fs" % (
        prop, nobl, ndis, result.summary() if result else "", time.time() - t0))


def all_property_modules():
    import props
    mods = []
    for s in props.REGISTRY.values():
        for m in s["modules"]:
            if m not in mods:
                mods.append(m)
    return mods


if __name__ == "__main__":
    main()
