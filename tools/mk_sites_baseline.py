#!/usr/bin/env python3
"""Writes lean/Guard/Properties/SitesBaseline.lean from the CURRENT extraction: the reviewed list of
hash-iteration and panic-capable sites with their classification.  Run by hand after reviewing a new
site; the checks never run it (a site that is not in the committed baseline breaks C05/C08's coverage
obligation)."""
import os, re, sys
sys.path.insert(0, os.path.dirname(os.path.abspath(__file__)))
import extract
VERIF = os.path.dirname(os.path.dirname(os.path.abspath(__file__)))
MODELLED_FNS = {
    ("rules/eval.rs", None), ("rules/eval/operators.rs", None),
    ("rules/eval_context.rs", "query_retrieval_with_converter"), ("rules/eval_context.rs", "accumulate"),
    ("rules/eval_context.rs", "accumulate_map"), ("rules/eval_context.rs", "retrieve_index"), ("rules/eval_context.rs", "call"),
    ("rules/eval_context.rs", "report_all_failed_clauses_for_rules"), ("rules/eval_context.rs", "simplified_json_from_root"),
    ("rules/eval_context.rs", "combine"), ("rules/eval_context.rs", "rule_status"), ("rules/eval_context.rs", "resolve_variable"),
    ("rules/functions/strings.rs", None), ("rules/functions/converters.rs", None), ("rules/functions/collections.rs", None),
    ("rules/path_value.rs", "eq"), ("rules/path_value.rs", "merge"), ("rules/mod.rs", "short_form_to_long"),
    ("commands/rulegen.rs", "gen_rules"), ("commands/reporters/test/mod.rs", None),
}
HASH_REASON = {
    "commands/reporters/test/generic.rs/print_test_case_report": "audited: keys are collected and SORTED before printing",
    "commands/reporters/validate/cfn.rs": "audited: console detail grouping by resource; lines are independent (C05 plain = up to line order)",
    "commands/reporters/validate/tf.rs": "audited: console detail grouping by resource; lines are independent",
    "commands/reporters/validate/cfn_reporter.rs": "audited: console detail lines, independent; structured output does not pass here",
    "commands/reporters/validate/common.rs": "audited: compliant/skipped rule lines, independent detail lines",
    "commands/reporters/validate/generic_summary.rs": "audited: plain summary detail lines, independent; JSON/YAML branch serialises BTreeSet-backed FileReport",
    "commands/rulegen.rs/gen_rules": "modelled: Rulegen.genRules; output order fixed by sorting in print_rules (fix f746749)",
    "rules/eval.rs/report_at_least_one": "modelled: one group per call for key strings (Eval.realBinaryOne)",
    "rules/eval_context.rs/find_parameterized_rule": "audited: error message text only (keys() in a format string)",
    "rules/eval_context.rs/root_scope": "audited: insertion into the map, no iteration into output",
    "rules/eval_context.rs/rule_status": "audited: error message text only",
}
def main():
    sites = extract.scan_sites()
    out = ["-- reviewed baseline of hash-iteration and panic-capable sites (tools/mk_sites_baseline.py; hand-reviewed classes)",
           "namespace Guard.Sites"]
    def lstr(x):
        return '"' + x.replace("\\", "\\\\").replace('"', '\\"') + '"'
    rows = []
    for f, fn, kind, k in sites["hash"]:
        reason = HASH_REASON.get(f + "/" + fn) or HASH_REASON.get(f) or "UNREVIEWED"
        rows.append("  (%s, %s, %s, %d, %s)" % (lstr(f), lstr(fn), lstr(kind), k, lstr(reason)))
    out.append("def hashBaseline : List (String × String × String × Nat × String) := [\n" + ",\n".join(rows) + "]")
    rows = []
    for f, fn, kind, k in sites["panic"]:
        modelled = (f, None) in MODELLED_FNS or (f, fn) in MODELLED_FNS
        cls = "modelled" if modelled else "audited"
        rows.append("  (%s, %s, %s, %d, %s)" % (lstr(f), lstr(fn), lstr(kind), k, lstr(cls)))
    out.append("def panicBaseline : List (String × String × String × Nat × String) := [\n" + ",\n".join(rows) + "]")
    out.append("end Guard.Sites")
    open(os.path.join(VERIF, "lean", "Guard", "Properties", "SitesBaseline.lean"), "w").write("\n".join(out) + "\n")
    print(len(sites["hash"]), len(sites["panic"]))
if __name__ == "__main__":
    main()
