#!/bin/bash
# Runs the repository's own test suite (hook feature OFF) and compares failures with the
# baseline's always_fail list (15 path-dependent tests fail on the pinned tree too).
cd /repo && CARGO_NET_OFFLINE=true cargo test --workspace --no-fail-fast --offline 2>&1 | grep -E "^test result|^test .* FAILED$" > /tmp/suite.out
python3 - <<'PY'
import json,re
b=json.load(open('/root/.vp/BASELINE.json'))
af=set(x.split('::',2)[-1] for x in b['always_fail'])
failed=set();p=f=0
for l in open('/tmp/suite.out'):
    m=re.match(r'^test (\S+) \.\.\. FAILED',l)
    if m: failed.add(m.group(1))
    m=re.match(r'^test result: \S+ (\d+) passed; (\d+) failed',l)
    if m: p+=int(m.group(1)); f+=int(m.group(2))
new=sorted(x for x in failed if not any(x.endswith(a) or a.endswith(x) for a in af))
print(f"SUITE passed={p} failed={f} baseline_always_fail={len(af)} NEW_FAILURES={new}")
PY
