#!/bin/bash
# usage: pmatrix.sh <K> <jobfile>   jobfile: lines "C01 1"
# Runs seeded mutants in parallel: every worker gets private copies of /repo (without target) and /verif,
# bind-mounted over /repo and /verif in its own mount namespace, so paths (and build caches) are the same
# as in a normal run and nothing touches the real trees. meta.json results are copied back.
K=$1; JOBS=$2
BASE=/tmp/mx
rm -rf $BASE; mkdir -p $BASE
for k in $(seq 1 $K); do
  mkdir -p $BASE/$k
  rsync -a --exclude target /repo/ $BASE/$k/repo/
  rsync -a --exclude .cache/tmp --exclude .cache/seedrep /verif/ $BASE/$k/verif/
done
split -n r/$K -d -a 1 $JOBS $BASE/jobs.
for k in $(seq 1 $K); do
  jf=$BASE/jobs.$((k-1))
  (
    unshare -m bash -c "
      mount --bind $BASE/$k/repo /repo && mount --bind $BASE/$k/verif /verif && cd /verif &&
      while read id n; do
        python3 tools/seeded.py run \$id \$n 2>&1 | tail -1 | cut -c1-220 | sed \"s|^|\$id/\$n |\"
      done < $jf
    "
  ) >> /verif/.cache/pmatrix.log 2>&1 &
done
wait
for k in $(seq 1 $K); do
  while read id n; do
    cp $BASE/$k/verif/seeded/$id/$n/meta.json /verif/seeded/$id/$n/meta.json
  done < $BASE/jobs.$((k-1))
done
rm -rf $BASE
echo PMATRIX-DONE >> /verif/.cache/pmatrix.log
