"""Shared machinery for the checks: building, worker pools (real crate / Lean model),
canonicalisation of observations, Env-table computation, correspondence runs, evidence."""
import json, os, subprocess, sys, threading, time, hashlib, re, shutil

VERIF = os.path.dirname(os.path.dirname(os.path.abspath(__file__)))
REPO = "/repo"
CACHE = os.path.join(VERIF, ".cache")
HARNESS_BIN = os.path.join(CACHE, "target", "debug", "guard-harness")
CLI_BIN = os.path.join(CACHE, "target-cli", "debug", "cfn-guard")
MODEL_BIN = os.path.join(VERIF, "lean", ".lake", "build", "bin", "guard_model")
NPROC = int(os.environ.get("VERIF_JOBS", "12"))
TMP = os.path.join(CACHE, "tmp")


def log(*a):
    print(*a, file=sys.stderr, flush=True)


# ----------------------------------------------------------------------------- building

def run(cmd, cwd=None, env=None, timeout=3600, check=False):
    e = dict(os.environ)
    e["CARGO_NET_OFFLINE"] = "true"
    if env:
        e.update(env)
    p = subprocess.run(cmd, cwd=cwd, env=e, stdout=subprocess.PIPE, stderr=subprocess.STDOUT,
                       text=True, timeout=timeout, shell=isinstance(cmd, str))
    if check and p.returncode != 0:
        raise RuntimeError(f"command failed: {cmd}\n{p.stdout[-4000:]}")
    return p.returncode, p.stdout


def build_harness():
    """Build the harness (and with it the cfn-guard library) from /repo's working tree."""
    os.makedirs(TMP, exist_ok=True)
    shutil.copy(os.path.join(REPO, "Cargo.lock"), os.path.join(VERIF, "harness", "Cargo.lock"))
    rc, out = run(["cargo", "build", "--offline"], cwd=os.path.join(VERIF, "harness"))
    return rc == 0, out


def build_cli():
    """Build the real cfn-guard binary from /repo's working tree (process-level observations)."""
    rc, out = run(["cargo", "build", "--offline", "-p", "cfn-guard", "--bin", "cfn-guard",
                   "--target-dir", os.path.join(CACHE, "target-cli")], cwd=REPO)
    return rc == 0, out


def build_lean(targets):
    rc, out = run(["lake", "build"] + targets, cwd=os.path.join(VERIF, "lean"))
    return rc == 0, out


# ----------------------------------------------------------------------------- worker pools

class Worker:
    def __init__(self, argv, env=None):
        e = dict(os.environ)
        if env:
            e.update(env)
        self.argv = argv
        self.env = e
        self.start()

    def start(self):
        self.p = subprocess.Popen(self.argv, stdin=subprocess.PIPE, stdout=subprocess.PIPE,
                                  stderr=subprocess.DEVNULL, text=True, bufsize=1, env=self.env)

    def ask(self, req, timeout=None):
        """one request -> one response; a dead worker (abort, stack overflow) is reported and restarted;
        with `timeout`, a worker that does not answer in time is killed and reported as died="timeout" """
        timer, fired = None, []
        if timeout:
            def _kill(p=self.p):
                fired.append(1)
                try:
                    p.kill()
                except Exception:
                    pass
            timer = threading.Timer(timeout, _kill)
            timer.start()
        try:
            self.p.stdin.write(json.dumps(req) + "\n")
            self.p.stdin.flush()
            line = self.p.stdout.readline()
            if not line:
                raise BrokenPipeError
            return json.loads(line)
        except (BrokenPipeError, OSError, json.JSONDecodeError):
            if timer:
                timer.cancel()
            if fired:
                try:
                    self.p.wait(timeout=5)
                except Exception:
                    pass
                self.start()
                return {"id": req.get("id"), "died": "timeout"}
            try:
                self.p.wait(timeout=5)
            except Exception:
                pass
            rc = self.p.poll()
            try:
                self.p.kill()
            except Exception:
                pass
            self.start()
            return {"id": req.get("id"), "died": rc if rc is not None else "unknown"}
        finally:
            if timer:
                timer.cancel()

    def close(self):
        try:
            self.p.stdin.close()
            self.p.wait(timeout=5)
        except Exception:
            self.p.kill()


class Pool:
    def __init__(self, argv, n=NPROC, env=None, default_timeout=None):
        self.workers = [Worker(argv, env) for _ in range(n)]
        self.default_timeout = default_timeout

    def map(self, reqs, timeout=None):
        """responses in request order; a request that is not answered within the timeout kills its worker and is
        answered {"died": "timeout"} (a hang of the implementation is an observation, it must not hang the check)"""
        if timeout is None:
            timeout = self.default_timeout
        out = [None] * len(reqs)
        n = len(self.workers)

        def work(k):
            w = self.workers[k]
            for i in range(k, len(reqs), n):
                out[i] = w.ask(reqs[i], timeout)
        ts = [threading.Thread(target=work, args=(k,)) for k in range(n)]
        for t in ts:
            t.start()
        for t in ts:
            t.join()
        return out

    def close(self):
        for w in self.workers:
            w.close()


def harness_pool(n=NPROC):
    os.makedirs(TMP, exist_ok=True)
    return Pool([HARNESS_BIN], n, env={"HARNESS_TMP": TMP}, default_timeout=int(os.environ.get("VERIF_OP_TIMEOUT", "120")))


def model_pool(n=NPROC):
    return Pool([MODEL_BIN], n)


# ----------------------------------------------------------------------------- real binary

_cli_counter = [0]
_cli_lock = threading.Lock()


def run_cli(argv, files=None, stdin=b"", mtimes=None, timeout=60, keep=False, env_extra=None, read_back=None, cwd_sub=None):
    """run the REAL cfn-guard binary (built from /repo) in a scratch directory; `{DIR}` in argv is
    replaced by that directory.  Returns dict(code, stdout, stderr)."""
    with _cli_lock:
        _cli_counter[0] += 1
        n = _cli_counter[0]
    d = os.path.join(TMP, "cli-%d-%d" % (os.getpid(), n))
    shutil.rmtree(d, ignore_errors=True)
    os.makedirs(d)
    links = []
    for name, content in (files or {}).items():
        path = os.path.join(d, name)
        os.makedirs(os.path.dirname(path), exist_ok=True)
        if isinstance(content, dict) and "symlink" in content:
            links.append((path, os.path.join(d, content["symlink"])))      # a symbolic link to another file of the job
            continue
        with open(path, "wb") as f:
            f.write(content if isinstance(content, bytes) else content.encode())
    for path, target in links:
        os.symlink(target, path)
    for name, t in (mtimes or {}).items():
        os.utime(os.path.join(d, name), (t, t))
    args = [CLI_BIN] + [a.replace("{DIR}", d) for a in argv]
    env = dict(os.environ)
    env["NO_COLOR"] = "1"
    for k, v in (env_extra or {}).items():
        if v is None:
            env.pop(k, None)
        else:
            env[k] = v
    try:
        p = subprocess.run(args, input=stdin if isinstance(stdin, bytes) else stdin.encode(),
                           cwd=os.path.join(d, cwd_sub) if cwd_sub else d,      # a sub-directory of the job as working directory
                           stdout=subprocess.PIPE, stderr=subprocess.PIPE, timeout=timeout, env=env)
        out = {"code": p.returncode if p.returncode >= 0 else "signal%d" % -p.returncode,
               "stdout": p.stdout.decode("utf-8", "replace").replace(d, "{DIR}").replace(d.lstrip("/"), "{DIR}"),
               "stderr": p.stderr.decode("utf-8", "replace").replace(d, "{DIR}")}
    except subprocess.TimeoutExpired:
        out = {"code": "timeout", "stdout": "", "stderr": ""}
    if read_back:
        # files the command wrote (or left alone), as they are after the run
        out["read_back"] = {}
        for name in read_back:
            try:
                out["read_back"][name] = open(os.path.join(d, name), "rb").read().decode("utf-8", "replace").replace(d, "{DIR}")
            except OSError:
                out["read_back"][name] = None
    if not keep:
        shutil.rmtree(d, ignore_errors=True)
    return out


def run_cli_many(jobs, n=NPROC):
    """jobs: list of kwargs dicts for run_cli; results in order"""
    from concurrent.futures import ThreadPoolExecutor
    with ThreadPoolExecutor(max_workers=n) as ex:
        return list(ex.map(lambda j: run_cli(**j), jobs))


# ----------------------------------------------------------------------------- canonical forms

def canon_qr_rust(q):
    if q is None:
        return None
    if "Resolved" in q:
        return {"res": q["Resolved"]["path"]}
    if "Literal" in q:
        return {"res": q["Literal"]["path"]}
    if "UnResolved" in q:
        u = q["UnResolved"]
        return {"unres": u["traversed_to"]["path"], "rem": u["remaining_query"]}
    return q


def canon_qr_model(q):
    if q is None:
        return None
    if "res" in q:
        return {"res": q["res"]}
    if "lit" in q:
        return {"res": q["lit"]}
    return {"unres": q["unres"], "rem": q["rem"]}


def canon_rust_tree(n, detail=False):
    cont = n["container"]
    (kind, body), = cont.items() if isinstance(cont, dict) else ((cont, None),)
    out = {"k": kind}
    if kind == "ClauseValueCheck":
        if body == "Success":
            out["v"] = "Success"
            out["s"] = "PASS"
        else:
            (variant, vb), = body.items()
            out["v"] = variant
            out["s"] = "FAIL"
            if detail and isinstance(vb, dict):
                if variant in ("Comparison", "InComparison"):
                    out["from"] = canon_qr_rust(vb["from"])
                    t = vb["to"]
                    out["to"] = [canon_qr_rust(x) for x in t] if isinstance(t, list) else canon_qr_rust(t)
                    out["msg"] = vb.get("custom_message")
                elif variant == "Unary":
                    out["from"] = canon_qr_rust(vb["value"]["from"])
                    out["msg"] = vb["value"].get("custom_message")
                elif variant == "MissingBlockValue":
                    out["from"] = canon_qr_rust(vb["from"])
                elif variant == "DependentRule":
                    out["rule"] = vb["rule"]
                    out["msg"] = vb.get("custom_message")
            elif detail and variant == "NoValueForEmptyCheck":
                out["msg"] = vb
    elif isinstance(body, str):
        out["s"] = body
    elif kind == "TypeCheck":
        out["s"] = body["block"]["status"]
        out["n"] = body["type_name"]
    else:
        out["s"] = body["status"]
        if kind == "RuleCheck":
            out["n"] = body["name"]
            if detail:
                out["msg"] = body.get("message")
    out["c"] = [canon_rust_tree(c, detail) for c in n["children"]]
    return out


def canon_model_tree(n, detail=False):
    out = {"k": n["k"]}
    if n["k"] == "ClauseValueCheck":
        v = n["v"]
        out["v"] = v["cc"]
        out["s"] = "PASS" if v["cc"] == "Success" else "FAIL"
        if detail:
            if v["cc"] in ("Comparison", "InComparison"):
                out["from"] = canon_qr_model(v["from"])
                t = v["to"]
                out["to"] = [canon_qr_model(x) for x in t] if isinstance(t, list) else canon_qr_model(t)
                out["msg"] = v.get("msg")
            elif v["cc"] == "Unary":
                out["from"] = canon_qr_model(v["from"])
                out["msg"] = v.get("msg")
            elif v["cc"] == "MissingBlockValue":
                out["from"] = canon_qr_model(v["from"])
            elif v["cc"] == "DependentRule":
                out["rule"] = v["rule"]
                out["msg"] = v.get("msg")
            elif v["cc"] == "NoValueForEmptyCheck":
                out["msg"] = v.get("msg")
    else:
        out["s"] = n["s"]
        if "n" in n:
            out["n"] = n["n"]
        if detail and n["k"] == "RuleCheck":
            out["msg"] = n.get("msg")
    out["c"] = [canon_model_tree(c, detail) for c in n["c"]]
    return out


def rule_statuses(tree):
    return [[c["n"], c["s"]] for c in tree["c"] if c["k"] == "RuleCheck"]


def obs_of_impl(resp, detail=False):
    """canonical observation of the implementation for one `case` response"""
    v = resp.get("verbose")
    if v is None:
        return {"kind": "none"}
    if "panic" in v:
        return {"kind": "panic", "msg": v["panic"][:200]}
    if "err" in v:
        return {"kind": "err", "err": v["err"]}
    if "ok" in v:
        t = canon_rust_tree(v["ok"], detail)
        return {"kind": "ok", "status": t["s"], "rules": rule_statuses(t), "tree": t}
    if "ok_text" in v:
        return {"kind": "empty"}
    return {"kind": "unknown"}


def obs_of_model(resp, detail=False):
    if "died" in resp:
        return {"kind": "model-died"}
    if "err" in resp:
        return {"kind": "err", "err": resp["err"]}
    if "panic" in resp:
        return {"kind": "panic", "msg": resp["panic"]}
    if "outOfFuel" in resp:
        return {"kind": "outOfFuel"}
    if "status" in resp:
        t = canon_model_tree(resp["tree"], detail)
        return {"kind": "ok", "status": resp["status"], "rules": resp["rules"], "tree": t}
    return {"kind": "unknown", "raw": resp}


# ----------------------------------------------------------------------------- Env tables

def walk_strings(j, acc_str, acc_regex, acc_float):
    """collect string / regex literals and float bit patterns from a typed value or AST"""
    if isinstance(j, dict):
        t = j.get("t")
        if t == "str" and isinstance(j.get("v"), str):
            acc_str.add(j["v"])
        elif t == "regex":
            acc_regex.add(j["v"])
        elif t == "float":
            acc_float.add(j["v"])
        elif t == "char" and isinstance(j.get("v"), str):
            acc_str.add(j["v"])
        if t == "map":
            for k in j.get("k", []):
                acc_str.add(k)
        if t == "key":
            acc_str.add(j["k"])
        for v in j.values():
            walk_strings(v, acc_str, acc_regex, acc_float)
    elif isinstance(j, list):
        for v in j:
            walk_strings(v, acc_str, acc_regex, acc_float)


def walk_keys(j, acc):
    if isinstance(j, dict):
        if j.get("t") == "key":
            acc.add(j["k"])
        for v in j.values():
            walk_keys(v, acc)
    elif isinstance(j, list):
        for v in j:
            walk_keys(v, acc)


def walk_regex_replace(j, acc):
    """(regex, replacement) literal argument pairs of regex_replace calls"""
    if isinstance(j, dict):
        if j.get("name") == "regex_replace" and isinstance(j.get("params"), list) and len(j["params"]) == 3:
            ps = j["params"]
            try:
                acc.add((ps[1]["v"]["v"], ps[2]["v"]["v"]))
            except Exception:
                pass
        for v in j.values():
            walk_regex_replace(v, acc)
    elif isinstance(j, list):
        for v in j:
            walk_regex_replace(v, acc)


def has_functions(ast):
    return '"t": "func"' in json.dumps(ast) or '"t":"func"' in json.dumps(ast, separators=(",", ":"))


def env_request(ast, doc, with_functions=None):
    strs, regs, floats, keys, rr = set(), set(), set(), set(), set()
    walk_strings(ast, strs, regs, floats)
    walk_strings(doc, strs, regs, floats)
    walk_keys(ast, keys)
    req = {"op": "env",
           "regex": [[r, s] for r in sorted(regs) for s in sorted(strs)],
           "conv": sorted(keys)}
    if with_functions is None:
        with_functions = has_functions(ast)
    if with_functions:
        walk_regex_replace(ast, rr)
        ss = sorted(strs)
        ints = set()

        def walk_ints(j):
            if isinstance(j, dict):
                if j.get("t") == "int":
                    ints.add(j["v"])
                for v in j.values():
                    walk_ints(v)
            elif isinstance(j, list):
                for v in j:
                    walk_ints(v)
        walk_ints(ast)
        walk_ints(doc)
        req.update({"f64parse": ss + sorted(ints) + [str(d) for d in range(10)], "f64show": sorted(floats),
                    "upper": ss, "lower": ss, "urldecode": ss, "parse_epoch": ss, "json_parse": ss,
                    "regex_replace": [[s, r, p] for (r, p) in sorted(rr) for s in ss]})
    return req


# ----------------------------------------------------------------------------- correspondence

def correspond(cases, hp, mp, detail=False, fuel=0, loader="run_checks"):
    """cases: list of {"rules": text, "data": text, ...}.  Returns list of result dicts with
    impl / model observations and a verdict: agree | disagree | skipped(reason)."""
    reqs = [{"id": i, "op": "case", "rules": c["rules"], "data": c["data"], "loader": loader}
            for i, c in enumerate(cases)]
    resps = hp.map(reqs)
    # env tables
    env_reqs, idx = [], []
    for i, r in enumerate(resps):
        if r.get("ast", {}).get("ok") is not None and "ok" in r.get("doc", {}):
            e = env_request(r["ast"]["ok"], r["doc"]["ok"])
            e["id"] = i
            env_reqs.append(e)
            idx.append(i)
    envs = hp.map(env_reqs)
    now = int(time.time())
    mreqs = []
    for i, e in zip(idx, envs):
        e = dict(e)
        e.pop("id", None)
        e["now"] = now
        mreqs.append({"id": i, "op": "eval", "ast": resps[i]["ast"]["ok"], "doc": resps[i]["doc"]["ok"],
                      "env": e, "fuel": fuel})
    mresps = mp.map(mreqs)
    by = {i: m for i, m in zip(idx, mresps)}
    out = []
    for i, (c, r) in enumerate(zip(cases, resps)):
        res = {"case": c, "impl": None, "model": None}
        if "died" in r:
            res["verdict"] = "impl-died"
            res["impl"] = {"kind": "died", "rc": r["died"]}
            out.append(res)
            continue
        impl = obs_of_impl(r, detail)
        res["impl"] = impl
        res["ast_ok"] = r.get("ast", {}).get("ok") is not None
        res["doc_ok"] = "ok" in r.get("doc", {})
        if i not in by:
            res["verdict"] = "skipped-unparsed"
            res["parse"] = {"ast": {k: v for k, v in r.get("ast", {}).items() if k != "ok"},
                            "doc": {k: v for k, v in r.get("doc", {}).items() if k != "ok"}}
            out.append(res)
            continue
        model = obs_of_model(by[i], detail)
        res["model"] = model
        res["ast"] = r["ast"]["ok"]
        res["doc"] = r["doc"]["ok"]
        res["verdict"] = compare_obs(impl, model)
        if res["verdict"].startswith("disagree") and env_open(c["rules"]):
            # the Env tables hold the oracles' answers for the strings of the rules file and the document; a
            # function applied to the RESULT of another function (or a regex matched against one) asks about a
            # string that only exists at run time, which the tables cannot contain
            res["verdict"] = "skipped-envmiss"
        if by[i].get("wf") is False:
            # the parser produced a rules file outside `RulesFile.wf` (Guard/Model/WF.lean): the hypothesis of the
            # never-panics theorem (C08Eval) is not met by parser output - a broken tie, whatever the observations are
            res["verdict"] = "disagree-wf"
        out.append(res)
    return out


FUNC_NAMES = ("count", "to_upper", "to_lower", "parse_int", "parse_string", "parse_boolean", "parse_float", "parse_char",
              "json_parse", "url_decode", "join", "substring", "regex_replace", "parse_epoch", "now")
STRING_FUNCS = ("to_upper", "to_lower", "parse_string", "json_parse", "url_decode", "join", "substring", "regex_replace", "parse_char")


def env_open(rules):
    """can the evaluation ask an oracle (regex, case mapping, float / JSON / epoch parsing, URL decoding) about a string
    that is computed at run time?  Conservatively: a string-producing function occurs AND its result can reach another
    oracle - another function call takes a variable or a call as argument, or the file contains a regex literal."""
    import re
    if not re.search(r"\b(%s)\s*\(" % "|".join(STRING_FUNCS), rules):
        return False
    nested = re.search(r"\b(%s)\s*\([^()]*(%%\w+|\b(%s)\s*\()" % ("|".join(FUNC_NAMES), "|".join(FUNC_NAMES)), rules)
    has_regex = re.search(r"(==|!=|in|IN|\[|,)\s*/[^/\n]+/", rules) is not None
    return bool(nested) or has_regex


def compare_obs(impl, model):
    if model["kind"] in ("model-died", "unknown"):
        return "model-broken"
    if impl["kind"] == "ok" and model["kind"] == "ok":
        if impl["status"] != model["status"] or impl["rules"] != model["rules"]:
            return "disagree-status"
        if impl["tree"] != model["tree"]:
            return "disagree-tree"
        return "agree"
    if impl["kind"] == "err" and model["kind"] == "err":
        return "agree" if impl["err"] == model["err"] else "disagree-errkind"
    if impl["kind"] == "panic" and model["kind"] == "panic":
        return "agree"
    if model["kind"] == "panic" and model.get("msg", "").endswith("regexUnwrap"):
        return "skipped-envmiss"
    return "disagree-kind"


# ----------------------------------------------------------------------------- evidence / replays

def sha(s):
    return hashlib.sha1(s.encode()).hexdigest()[:12]


def write_replay(prop, obj):
    d = os.path.join(VERIF, "replays", prop)
    os.makedirs(d, exist_ok=True)
    body = json.dumps(obj, indent=1, sort_keys=True)
    path = os.path.join(d, sha(body) + ".json")
    with open(path, "w") as f:
        f.write(body)
    return os.path.relpath(path, VERIF)


def write_evidence(prop, ev):
    d = os.path.join(VERIF, "evidence")
    os.makedirs(d, exist_ok=True)
    with open(os.path.join(d, prop + ".json"), "w") as f:
        json.dump(ev, f, indent=1)
